"""Shared case generation / observation for the structural properties (C01-C04, C16, C19, C20):
a case is a lifting-function tree, dimensions, an episode layout and tagged data."""
import math

import numpy as np

import pykoop
from . import pipes


def err_enum(e):
    if isinstance(e, ValueError):
        return 'ValueError'
    if isinstance(e, RuntimeError):
        return 'RuntimeError'
    if isinstance(e, IndexError):
        return 'IndexError'
    return 'Other:' + type(e).__name__


def degree(spec):
    k = spec['k']
    if k == 'poly':
        return max(1, spec['order'])
    if k == 'bilinear':
        return 2
    if k == 'split':
        da = db = 1
        for s in spec['a']:
            da *= degree(s)
        for s in spec['b']:
            db *= degree(s)
        return max(da, db)
    if k == 'pipe':
        d = 1
        for s in spec['ss']:
            d *= degree(s)
        return d
    return 1


def gen_case(rng, kinds, max_depth=2, max_len=3, cap=40, opaque=False, ep=None, extra=4, n_eps=None):
    """Structured, mostly valid case. Returns dict (JSON-able)."""
    for _ in range(200):
        nx = rng.randint(1, 3)
        nu = rng.choice([0, 1, 1, 2])
        spec = pipes.gen_spec(rng, kinds, nx, nu, max_depth=max_depth, max_len=max_len, cap=cap)
        if rng.random() < 0.03:
            spec = {'k': 'pipe', 'ss': []}       # a KoopmanPipeline without lifting functions: the identity lifting
        deg = degree(spec)
        hi = min(12, int(2 ** (50.0 / deg)))
        if hi < 3:
            continue
        epf = rng.random() < 0.6 if ep is None else ep
        m = pipes.loss(spec) + (2 if opaque else 1)
        eps, order = pipes.gen_layout(rng, m, n_eps=n_eps, extra=extra, ep=epf)
        integral = not opaque
        if opaque and rng.random() < 0.3:
            # integer-valued samples (quantised measurements, counts) are valid data for every lifting function
            rows = [[l] + [rng.randint(-3, 3) for _ in range(nx + nu)] for (l, t) in order]
            integral = True
        elif opaque:
            rows = [[l] + [round(rng.uniform(-2.0, 2.0), 3) for _ in range(nx + nu)] for (l, t) in order]
        else:
            rows = pipes.tagged_matrix(rng, order, nx + nu, 2, hi)
        degenerate = False
        if rng.random() < 0.12:
            # degenerate but valid data: identically zero input columns (an unexcited input), or one zero column
            zc = list(range(1 + nx, 1 + nx + nu)) if (nu > 0 and rng.random() < 0.7) else [1 + rng.randrange(nx + nu)]
            rows = [[(0 if j in zc else v) for j, v in enumerate(r)] for r in rows]
            degenerate = True
        if not epf:
            rows = [r[1:] for r in rows]
        exact_kinds = pipes.kinds_in(spec) <= {'poly', 'bilinear', 'const', 'delay', 'split', 'pipe'}
        form = pick_form(rng, integral=integral, small=(not opaque) and exact_kinds and hi ** deg < 2 ** 22)
        return {'spec': spec, 'nx': nx, 'nu': nu, 'ep': epf, 'rows': rows, 'min_len': m, 'form': form, 'degenerate': degenerate}
    raise RuntimeError('generator could not produce a case')


def many_episode_cases(rng, specs=None):
    """SIZE forms of valid data: many episodes (beyond any small-count fast path: 17, 24, 40), labels with gaps that do not
    start at zero, unequal lengths; stored as ascending contiguous blocks or as shuffled blocks"""
    specs = specs or [
        {'k': 'delay', 'dx': 1, 'du': 1},
        {'k': 'pipe', 'ss': [{'k': 'poly', 'order': 2, 'io': False}, {'k': 'delay', 'dx': 1, 'du': 0}]},
        {'k': 'split', 'a': [{'k': 'delay', 'dx': 2, 'du': 0}], 'b': [{'k': 'delay', 'dx': 0, 'du': 1}]},
        {'k': 'poly', 'order': 2, 'io': False},
    ]
    for n_eps in (17, 24, 40):
        spec = rng.choice(specs)
        nx, nu = 2, 1
        m = pipes.loss(spec) + 1
        labels = sorted(rng.sample(range(1 if rng.random() < 0.7 else 0, 3 * n_eps), n_eps))
        blocks = [(l, [[l] + [round(rng.uniform(-2, 2), 3) for _ in range(nx + nu)] for _ in range(m + rng.randint(1, 3))])
                  for l in labels]
        if rng.random() < 0.4:
            rng.shuffle(blocks)
        rows = [r for _, b in blocks for r in b]
        yield {'spec': spec, 'nx': nx, 'nu': nu, 'ep': True, 'rows': rows, 'min_len': m, 'form': 'c', 'degenerate': False,
               'size_form': f'{n_eps} episodes'}


FORMS = ('c', 'fortran', 'strided', 'readonly', 'int64', 'int32', 'float32')


def in_form(X, form):
    """the same matrix handed over in another valid form (memory layout, writability, dtype)"""
    if form in (None, 'c'):
        return X
    if form == 'fortran':
        return np.asfortranarray(X)
    if form == 'strided':
        big = np.full((2 * X.shape[0] + 1, 2 * X.shape[1] + 1), 777.0)
        big[1::2, 1::2] = X
        return big[1::2, 1::2]
    if form == 'readonly':
        Y = X.copy()
        Y.setflags(write=False)
        return Y
    if form in ('float32!', 'float16!'):
        return X.astype(form[:-1])          # a genuine single / half precision data set (lossy cast accepted)
    if form in ('int64', 'int32', 'float32'):
        Y = X.astype(form)
        return Y if np.array_equal(Y.astype(float), X) else X        # only when the conversion is exact
    raise ValueError(form)


def pick_form(rng, integral, small=False):
    r = rng.random()
    if r < 0.55:
        return 'c'
    pool = ['fortran', 'strided', 'readonly'] + (['int64', 'int32'] if integral else []) + (['float32'] if integral and small else [])
    return rng.choice(pool)


def X_of(case):
    return in_form(np.array(case['rows'], dtype=float), case.get('form'))


def fit_case(case):
    X = X_of(case)
    return pipes.fit(case['spec'], X, case['nu'], case['ep'])


def case_tags(case):
    ks = pipes.kinds_in(case['spec'])
    return {
        'kinds': sorted(ks),
        'depth': pipes.depth(case['spec']),
        'n_inputs0': case['nu'] == 0,
        'unequal_delay': pipes.has_unequal_delay(case['spec']),
        'episode_feature': case['ep'],
    }


def count_dist(ctx, case):
    t = case_tags(case)
    for k in t['kinds']:
        ctx.count('kind:' + k)
    ctx.count(f"depth:{t['depth']}")
    if t['n_inputs0']:
        ctx.count('n_inputs=0')
    if t['unequal_delay']:
        ctx.count('unequal_delay')
    if t['episode_feature']:
        ctx.count('episode_feature')
        labels = [r[0] for r in case['rows']]
        blocks = sum(1 for i in range(1, len(labels)) if labels[i] != labels[i - 1]) + 1
        if blocks > len(set(labels)):
            ctx.count('interleaved')
        if len(set(labels)) > 1:
            ctx.count('multi_episode')
        firsts = []
        for l in labels:
            if l not in firsts:
                firsts.append(l)
        if firsts != sorted(firsts):
            ctx.count('non_ascending_blocks')


def nontrivial(case):
    ks = pipes.kinds_in(case['spec']) - {'pipe'}
    return len(ks) >= 1 and len(case['rows']) >= 2


# ----------------------------------------------------------------------------- matrices <-> tokens

def impl_rows(A, ep):
    """numpy matrix -> list of (label, [floats])"""
    out = []
    for r in A:
        if ep:
            out.append((int(r[0]), [float(v) for v in r[1:]]))
        else:
            out.append((0, [float(v) for v in r]))
    return out


def cmp_int_rows(impl, model_rows):
    """impl: list of (label, floats); model_rows: list of (label, [int tokens]). Exact."""
    if len(impl) != len(model_rows):
        return f'row count impl={len(impl)} model={len(model_rows)}'
    for i, ((li, vi), (lm, vm)) in enumerate(zip(impl, model_rows)):
        if li != lm:
            return f'row {i}: label impl={li} model={lm}'
        if len(vi) != len(vm):
            return f'row {i}: width impl={len(vi)} model={len(vm)}'
        for j, (a, b) in enumerate(zip(vi, vm)):
            if a != float(int(b)) or not math.isfinite(a):
                return f'row {i} col {j}: impl={a!r} model={b}'
    return None


# ----------------------------------------------------------------------------- S-expression evaluation

def parse_sexps(tokens):
    """tokens of a row -> list of nested lists/atoms. The Lean printer emits '(head a b)' with spaces only
    between items, so re-tokenise on parentheses."""
    s = ' '.join(tokens).replace('(', ' ( ').replace(')', ' ) ').split()
    out, stack = [], []
    cur = out
    for t in s:
        if t == '(':
            new = []
            cur.append(new)
            stack.append(cur)
            cur = new
        elif t == ')':
            cur = stack.pop()
        else:
            cur.append(t)
    return out


def eval_sexp(e, cells, registry):
    if isinstance(e, str):
        if e in cells:
            return cells[e]
        return float(e)
    h = e[0]
    if h == 'mul':
        return eval_sexp(e[1], cells, registry) * eval_sexp(e[2], cells, registry)
    if h == 'mono':
        v = 1.0
        for p in e[1:]:
            v *= eval_sexp(p[1], cells, registry) ** int(p[2])
        return v
    if h == 'cos':
        return math.cos(eval_sexp(e[1], cells, registry))
    if h == 'sin':
        return math.sin(eval_sexp(e[1], cells, registry))
    if h == 'atan2':
        return math.atan2(eval_sexp(e[1], cells, registry), eval_sexp(e[2], cells, registry))
    if h in ('sk', 'skinv'):
        est = registry[int(e[1])]
        j = int(e[2])
        v = eval_sexp(e[3], cells, registry)
        n = est.n_states_in_ + est.n_inputs_in_
        row = np.zeros((1, n))
        row[0, j] = v
        f = est.transformer_.transform if h == 'sk' else est.transformer_.inverse_transform
        return float(f(row)[0, j])
    if h in ('rbf', 'kern'):
        est = registry[int(e[1])]
        c = int(e[2])
        row = np.array([[eval_sexp(a, cells, registry) for a in e[3:]]])
        with pykoop.config_context(skip_validation=True):
            out = est._transform_one_ep(row)
        return float(out[0, row.shape[1] + c])
    raise ValueError(h)


def cmp_sym_rows(impl, model_rows, cells, registry, rtol=1e-9):
    if len(impl) != len(model_rows):
        return f'row count impl={len(impl)} model={len(model_rows)}'
    for i, ((li, vi), (lm, toks)) in enumerate(zip(impl, model_rows)):
        if li != lm:
            return f'row {i}: label impl={li} model={lm}'
        es = parse_sexps(toks)
        if len(vi) != len(es):
            return f'row {i}: width impl={len(vi)} model={len(es)}'
        for j, (a, e) in enumerate(zip(vi, es)):
            b = eval_sexp(e, cells, registry)
            if not (abs(a - b) <= rtol * max(1.0, abs(a), abs(b))):
                return f'row {i} col {j}: impl={a!r} model={b!r} term={e}'
    return None


def sym_cells(case):
    """cell tokens c<i>_<j> for each data cell and their float values"""
    cells = {}
    rows = []
    ep = case['ep']
    for i, r in enumerate(case['rows']):
        body = r[1:] if ep else r
        toks = []
        for j, v in enumerate(body):
            name = f'c{i}_{j}'
            cells[name] = float(v)
            toks.append(name)
        rows.append(([r[0]] if ep else []) + toks)
    return rows, cells


def dep_rows(case):
    """cell ids i*W+j for the dependency instance"""
    ep = case['ep']
    w = case['nx'] + case['nu']
    rows = []
    for i, r in enumerate(case['rows']):
        rows.append(([r[0]] if ep else []) + [i * w + j for j in range(w)])
    return rows


# ----------------------------------------------------------------------------- value correspondence

def mode_of(case):
    ks = pipes.kinds_in(case['spec'])
    ints = all(float(v).is_integer() for r in case['rows'] for v in r)
    return 'int' if ints and ks <= {'poly', 'bilinear', 'const', 'delay', 'split', 'pipe'} else 'str'


def value_line(cmd, case, est, mode=None):
    """Request line for tr / inv / rt on the case's data in int or str mode."""
    mode = mode or mode_of(case)
    toks, reg = pipes.tokens(case['spec'], est)
    if mode == 'int':
        body = pipes.mat_tokens([[int(v) for v in r] for r in case['rows']], case['ep'])
        cells = None
    elif mode == 'str':
        rows, cells = sym_cells(case)
        body = pipes.mat_tokens(rows, case['ep'])
    else:
        body = pipes.mat_tokens(dep_rows(case), case['ep'])
        cells = None
    return f"{cmd} {mode} {case['nx']} {case['nu']} {toks} {body}", cells, reg


def items_of(text):
    """whitespace tokens, with parenthesised S-expressions kept as single items"""
    items, depth, cur = [], 0, []
    for t in text.split():
        cur.append(t)
        depth += t.count('(') - t.count(')')
        if depth == 0:
            items.append(' '.join(cur))
            cur = []
    return items


def parse_reply_mat(reply):
    t = items_of(reply)
    if t[0] != 'ok':
        return None, reply
    rows, _ = pipes.parse_mat(t, 1)
    return rows, None


def compare_values(A, reply, case, cells, reg, cols=None, rtol=1e-9):
    """A: implementation output matrix (with label column iff ep). cols: optional slice of feature columns."""
    rows, err = parse_reply_mat(reply)
    if err:
        return 'model: ' + err[:200]
    impl = impl_rows(A, case['ep'])
    if cols is not None:
        impl = [(l, v[cols]) for l, v in impl]
        rows = [(l, v[cols]) for l, v in rows]
    if cells is None:
        return cmp_int_rows(impl, rows)
    return cmp_sym_rows(impl, rows, cells, reg, rtol)


def _slice_sexp_tokens(toks, cols):
    """split a row's tokens into top-level S-expressions and slice them"""
    items, depth, cur = [], 0, []
    for t in toks:
        cur.append(t)
        depth += t.count('(') - t.count(')')
        if depth == 0:
            items.append(' '.join(cur))
            cur = []
    return items[cols]


def eq_delays(spec):
    """state and input delays agree everywhere and split branches lose equally (oracle-side notion of
    'the whole episode comes back')"""
    k = spec['k']
    if k == 'delay':
        return spec['dx'] == spec['du']
    if k == 'split':
        return (all(eq_delays(s) for s in spec['a'] + spec['b'])
                and sum(pipes.loss(s) for s in spec['a']) == sum(pipes.loss(s) for s in spec['b']))
    if k == 'pipe':
        return all(eq_delays(s) for s in spec['ss'])
    return True


def float_case(rng, case, lo=-2.0, hi=2.0):
    """same structure, fresh random float data (for oracles)"""
    c = dict(case)
    ep = case['ep']
    rows = []
    for r in case['rows']:
        body = [rng.uniform(lo, hi) for _ in range(case['nx'] + case['nu'])]
        rows.append(([r[0]] if ep else []) + body)
    c['rows'] = rows
    return c


def episodes(A, ep):
    return {int(l): Xe for l, Xe in ref_split(A, ep)}


# ----------------------------------------------------------------------------- independent reference utilities
# (oracles must not use the implementation's own split/combine as ground truth)

def ref_split(A, ep):
    """[(label, rows-of-that-label-in-matrix-order-without-the-label-column)] in ascending label order"""
    A = np.asarray(A, dtype=float)
    if not ep:
        return [(0, A)]
    labels = sorted({int(v) for v in A[:, 0]})
    return [(l, A[A[:, 0] == l][:, 1:]) for l in labels]


def ref_combine(blocks, ep):
    out = []
    for l, B in blocks:
        B = np.asarray(B, dtype=float)
        out.append(np.hstack((l * np.ones((B.shape[0], 1)), B)) if ep else B)
    return np.vstack(out)


# ----------------------------------------------------------------------------- shrinking of failing cases

def _spec_variants(spec):
    """smaller specs: drop one stage of a chain / branch, replace a composite by one of its parts, lower orders/delays"""
    k = spec['k']
    if k == 'pipe':
        ss = spec['ss']
        for i in range(len(ss)):
            if len(ss) > 1:
                yield {'k': 'pipe', 'ss': ss[:i] + ss[i + 1:]}
            for v in _spec_variants(ss[i]):
                yield {'k': 'pipe', 'ss': ss[:i] + [v] + ss[i + 1:]}
        if len(ss) == 1:
            yield ss[0]
    elif k == 'split':
        for key in ('a', 'b'):
            br = spec[key]
            for i in range(len(br)):
                yield dict(spec, **{key: br[:i] + br[i + 1:]})
                for v in _spec_variants(br[i]):
                    yield dict(spec, **{key: br[:i] + [v] + br[i + 1:]})
    elif k == 'poly' and spec['order'] > 1:
        yield dict(spec, order=spec['order'] - 1)
    elif k == 'delay':
        if spec['dx'] > 0:
            yield dict(spec, dx=spec['dx'] - 1)
        if spec['du'] > 0:
            yield dict(spec, du=spec['du'] - 1)


def _row_variants(case):
    rows, ep = case['rows'], case['ep']
    if ep:
        labels = []
        for r in rows:
            if r[0] not in labels:
                labels.append(r[0])
        if len(labels) > 1:
            for l in labels:
                yield [r for r in rows if r[0] != l]
        for l in labels:
            idx = [i for i, r in enumerate(rows) if r[0] == l]
            if len(idx) > 1:
                yield [r for i, r in enumerate(rows) if i != idx[-1]]
    elif len(rows) > 1:
        yield rows[:-1]


def shrink(case, still_fails, budget=60):
    """greedy shrinking: keep any smaller variant on which `still_fails(case)` is truthy"""
    cur = case
    steps = 0
    improved = True
    while improved and steps < budget:
        improved = False
        cands = [dict(cur, spec=v) for v in _spec_variants(cur['spec'])] + [dict(cur, rows=r) for r in _row_variants(cur)]
        for c in cands:
            steps += 1
            if steps > budget:
                break
            try:
                c = dict(c, min_len=pipes.loss(c['spec']) + 1)
                if still_fails(c):
                    cur = c
                    improved = True
                    break
            except Exception:
                continue
    return cur


def interleave_blocks(rng, blocks, max_chunk=3):
    """[(label, rows)] -> one matrix with a leading label column in which the episodes' rows are interleaved in chunks of
    random length (each episode keeps its own time order; the episodes are NOT contiguous)"""
    cursors = {l: 0 for l, _ in blocks}
    data = dict(blocks)
    rows = []
    while any(cursors[l] < data[l].shape[0] for l in cursors):
        l = rng.choice([l for l in cursors if cursors[l] < data[l].shape[0]])
        k = rng.randint(1, max_chunk)
        for r in data[l][cursors[l]:cursors[l] + k]:
            rows.append(np.concatenate(([l], r)))
        cursors[l] += k
    return np.array(rows)


# ----------------------------------------------------------------------------- ill-conditioned opaque chains

def rounding_noise_of(case, fn, ref):
    """how far rounding-level changes of the data (relative / absolute 1e-15 and 1e-14, a few units in the last place) move
    the implementation's OWN output `fn(X)` (reference value `ref`), in the measure of the value comparison (relative to
    max(1, |value|)).  A wrapped third-party stage fitted on a handful of nearly repeated samples (Nystroem normalisation
    with entries ~1e6) amplifies rounding far beyond the comparison tolerance; the model evaluates the same fitted
    map row by row and legitimately differs by that much."""
    worst = 0.0
    try:
        X = np.array(X_of(case), dtype=float)
        ep = 1 if case['ep'] else 0
        for eps in (1e-15, -1e-15, 1e-14, -1e-14):
            Z = X.copy(order='K')
            Z[:, ep:] = Z[:, ep:] * (1 + eps) + eps
            out = np.asarray(fn(Z), dtype=float)
            if out.shape != np.shape(ref):
                return 0.0
            d = np.abs(out - ref) / np.maximum(1.0, np.abs(ref))
            d = d[np.isfinite(d)]
            if d.size:
                worst = max(worst, float(d.max()))
    except Exception:
        return 0.0
    return worst


def compare_values_guarded(A, reply, case, cells, reg, fn, count=None, cols=None, rtol=1e-9):
    """compare_values; when it reports a mismatch and the implementation's own output moves by more than 1e-11 under
    rounding-level changes of the data, the values are compared again at 100 x that measured noise (never below `rtol`,
    never above 1e-5).  Shapes, labels and exact (integer) cells are not affected."""
    why = compare_values(A, reply, case, cells, reg, cols=cols, rtol=rtol)
    if not why or cells is None:          # exact (integer) mode: nothing to relax
        return why
    noise = rounding_noise_of(case, fn, np.asarray(A, dtype=float))
    if noise <= 1e-11:
        return why
    if count is not None:
        count('values compared at 100 x the measured rounding noise of the lifting')
    return compare_values(A, reply, case, cells, reg, cols=cols, rtol=min(1e-5, max(rtol, 100 * noise)))
