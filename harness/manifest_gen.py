"""Regenerates MANIFEST.json from the table below (run: /venv/bin/python -m harness.manifest_gen)."""
import json
import os

VERIF = os.path.dirname(os.path.dirname(os.path.abspath(__file__)))

CHECKS = {}
NOT_YET = {}


def claim(pid, category, text, note, technique, design_ref):
    CHECKS[pid] = dict(category=category, text=text, note=note, technique=technique, design_ref=design_ref)


claim('C04', 'proof',
      'Lean 4 theorems C04_* about the executable model of every fit / transform / n_samples_in in the '
      'lifting-function tree (any nesting, all kinds), plus an exact correspondence of the fitted attributes of '
      'every estimator in randomly generated and (thorough) systematically enumerated trees; data values are '
      'irrelevant to this property, so the tie to the code is unusually tight.',
      'Lean kernel + propext/Classical.choice/Quot.sound; hand-written model tied to the code by differential '
      'testing; n_centers_/n_features_kernel_ of RBF / kernel stages are read from the fitted sub-estimators '
      '(their own shapes are C18/C17).',
      'Lean 4 proof (structural induction on the stage tree) + model/implementation correspondence',
      'DESIGN.md section 5 C04')

claim('C01', 'proof',
      'Lean 4 theorems C01_* : the suffix-stable round trip inverse(lastN k (transform X)) = lastN (k+gain) X proved by '
      'mutual structural induction for every tree of the ten lifting-function kinds (nested SplitPipeline / '
      'KoopmanPipeline, unequal delays), every width and every episode; whole episode when delays agree. '
      'Correspondence: inverse_transform(transform(X)) and the leading state columns on tagged integers (exact) or '
      'symbolic terms evaluated with the fitted parameters.',
      'Lean kernel + propext/Classical.choice/Quot.sound; opaque cell functions (scalers, RBF, kernel features, '
      'cos/sin/atan2) enter through the laws Ops.Lawful (skInv(sk v) = v; atan2(sin v, cos v) = v on the angle '
      'domain); AnglePreprocessor(unwrap_inverse=True) is outside the proved model (DESIGN 6, F-unwrap).',
      'Lean 4 proof (mutual induction with a suffix invariant) + model/implementation correspondence',
      'DESIGN.md section 5 C01')
claim('C02', 'proof',
      'Lean 4 theorems C02_* : the x component of the lifted row is a function of the x component of the input '
      '(rowFn_xloc per kind, Stage.x_local through the tree, lifted to any episode layout through C03); the '
      'partition is exactly the widths fit declares. Correspondence: full transform values, declared partition and '
      'the column dependency map (model: dependency-set instance; code: column perturbation).',
      'Lean kernel + standard axioms; wrapped scikit-learn transformers are assumed column-wise (the law the model '
      'gives `sk`); RBF / kernel feature values are opaque functions of the whole row.',
      'Lean 4 proof (structural induction) + correspondence incl. dependency-set abstract interpretation',
      'DESIGN.md section 5 C02')
claim('C03', 'proof',
      'Lean 4 theorems C03_* : the matrix-level flow (rows routed as the code routes them, incl. the positional zip of '
      'two independently re-split branches in SplitPipeline) refines the per-episode meaning for every label and '
      'layout; slice equivariance gives the min_samples_ window locality; the episode utilities act per episode. '
      'Correspondence: row provenance of transform and inverse_transform (dependency instance vs single-row '
      'perturbation), exact values, utilities verbatim.',
      'Lean kernel + standard axioms; guard: no episode shorter than min_samples_ (outside it the code raises or '
      'drops the episode; excluded by the property).',
      'Lean 4 proof (refinement between two semantic levels) + correspondence on row provenance',
      'DESIGN.md section 5 C03')

claim('C05', 'proof',
      'Lean 4 theorems C05_* : the rows of shift_episodes\' two outputs, zipped, are exactly - per label in '
      'ascending order - the consecutive (row k, state of row k+1) pairs of that episode (trainPairs_eq); count, '
      'alignment, no inputs on the shifted side, relabel/reorder invariance up to a permutation of blocks. '
      'Correspondence: a recording KoopmanRegressor captures the exact arguments of _fit_regressor (bare and at the '
      'end of random pipelines) and they are compared verbatim with the model on tagged integers.',
      'Lean kernel + standard axioms; the Gram sums G, H are invariant under permutations of the pairs (C05_gram_perm), so '
      'every regressor that works from them depends on the multiset of pairs only; for the SVD- and LMI-based regressors the '
      'same is checked by the oracle (fit(X) vs fit(Xu,Xs) vs relabelled X; both routes fit / fit_transform of a pipeline).',
      'Lean 4 proof (list algebra over the episode routing lemmas) + recording-regressor correspondence',
      'DESIGN.md section 5 C05')
claim('C16', 'proof',
      'Lean 4 theorems C16_* about the executable model of the six helpers on raw matrices (label column present iff '
      'the call has one): None = fit-time value; same flag = transform; fitted-with/called-without = transform of the '
      'zero-label-padded data; fitted-without/called-with = per-episode transform (episodeOf_route); the *_state / '
      '*_input helpers are the declared column blocks. Correspondence: all 2 x 3 x 6 helper/flag combinations on '
      'tagged integers through random pipelines with delays, compared exactly.',
      'Lean kernel + standard axioms; the theorems describe the repaired code (fix: 34ad5d9); retract_state/'
      'retract_input inverting lift_state/lift_input on the trailing samples is checked by the oracle on the '
      'implementation and follows from C01+C02 in the model only informally (not yet a Lean theorem).',
      'Lean 4 proof + exhaustive flag-matrix correspondence',
      'DESIGN.md section 5 C16')

claim('C07', 'proof',
      'Lean 4 theorems C07_* about the executable model of predict / predict_trajectory: the re-lifting loop only '
      'appends (IC verbatim, one row per input sample), and row k of the trajectory is the last row of predict() applied '
      'to the window of the min_samples_ previously predicted states and the true inputs (C07_step; uses C02 to identify '
      'lift_state on zero inputs with the state block of the full lift); episodes are independent; output shapes per '
      'flag; the divergence bookkeeping (C07_divergence_*: a diverging episode still returns one row per input sample, NaN exactly from the crash index on, the rows before it are the iterated one-step predictions, and nothing leaks into another episode of the call). Correspondence: whole output matrices of predict_trajectory (both call forms, relift on/off, all return '
      'flags, fit/call episode flags, malformed IC / input lengths) and of predict, exact on integers.',
      'Lean kernel + standard axioms; C07_step carries the hypothesis that predicted states have the state width '
      '(width law of the inverse; checked by the correspondence); the lifted recursion theta[k+1]=A theta[k]+B upsilon[k] '
      'of the no-relift loop is C07_norelift_step; WHEN a prediction diverges is floating-point behaviour outside the model (the step that may diverge is a parameter of the loop skeleton; the correspondence scripts it), see C20 / F-diverge.',
      'Lean 4 proof (loop invariant by induction on fuel; C02 locality) + exact integer correspondence',
      'DESIGN.md section 5 C07')

claim('C08', 'proof',
      'Lean 4 theorems C08_* about the exact-rational model of the weights, score_trajectory (MSE / MAE / MAPE and the '
      'greater-is-better metrics r2 / explained_variance with best value 1: C08_goodness_perfect, C08_goodness_le_one) and the scorer '
      'wiring: weight gamma^k on step k, zero beyond n_steps, IC rows stripped; perfect prediction has error 0 and no '
      'prediction has negative error (so 0 is the best score); finite error_score is a floor; non-finite -> error_score '
      'or raise. The multistep scorer misalignment is a theorem about the model (closed witness, decide +kernel) and a '
      'KNOWN-FINDING on the code. Correspondence: weights, scores, error behaviour and make_scorer outputs compared '
      'with exact rational arithmetic (1e-11).',
      'Lean kernel + standard axioms + Mathlib ordered-field lemmas for Rat; the two metrics that are not rational functions '
      '(median absolute error, squared log error) are passed through to scikit-learn (trusted); known finding F-score: make_scorer(multistep=True) compares prediction k with '
      'truth k+1 (cannot be repaired: stored regression values pin it).',
      'Lean 4 proof over exact rationals + correspondence; closed counter-example witness for the known finding',
      'DESIGN.md section 5 C08')

claim('C20', 'proof',
      'Lean 4 theorems C20_* about the config machine: config_context restores the previous setting for any body, any '
      'nesting and when left by an exception; thread isolation for EVERY interleaving of any number of threads '
      '(induction over the schedule); a fresh thread reads the module default; structured programs and atom schedules '
      'agree. Correspondence: random schedules realised deterministically on 1..3 real threads and random structured '
      'programs with nested with-blocks and exceptions, every get_config() value compared. Flag irrelevance: every '
      'public computation run with skip_validation off/on must be bit-identical (and equals the Lean model under '
      'skip_validation=True for transform and the round trip).',
      'Lean kernel + standard axioms; the tie between the machine and CPython threading.local is sampled; "skipping '
      'validation never changes results" is decided by differential execution under the guard that all values stay '
      'finite - the non-finite case is known finding F-diverge.',
      'Lean 4 proof (induction over schedules / program trees) + deterministic multi-thread correspondence + differential execution',
      'DESIGN.md section 5 C20')

claim('C14', 'proof',
      'Lean 4 theorems C14_* about the truncation rule as a function of the singular-value list: economy keeps all, '
      'rank r keeps min(r, full), cutoff keeps exactly the values exceeding the cutoff (for sorted values, via the '
      'specification of the last-index search), the three factors are cut at the same index and stay sorted, a rule '
      'retaining nothing raises, parameter validation. Correspondence: retained rank / ValueError on exact '
      'rational singular-value lists realised as signed-permutation diagonal matrices. Best approximation: '
      'C14_best_frobenius / C14_best_spectral prove Eckart-Young-Mirsky for ANY factorisation with orthonormal columns '
      '(no matrix of rank <= r is closer, in Frobenius or spectral norm, than the leading r triplets; C14_residual gives '
      'the error; C14_svd_exists: every real matrix has such a factorisation, with rank-many positive singular values). Partial: that LAPACK returns one is not proved - the oracle validates '
      'orthonormality, ordering, leading triplets and best-approximation error against numpy on every case.',
      'Lean kernel + standard axioms + Mathlib order lemmas on Rat; scipy.linalg.svd (LAPACK) and optht are trusted and '
      'numerically validated; the model says "opaque" for the two optimal-hard-threshold methods.',
      'Lean 4 proof of the rank rule + exact correspondence; numeric validation of the SVD factors (partial)',
      'DESIGN.md section 5 C14')

claim('C19', 'proof',
      'Lean 4 theorems C19_* about the names model: for the episode-independent kinds the names ARE the generic row '
      'function (the one that computes the values) evaluated at the string operations; one name per column in the '
      'declared widths for every tree; for delays block i is named D_i(.) and holds the data delayed by i '
      '(chunks_delayRow); symbols_only / episode-name rules for all fit x call flags; given names verbatim. '
      'Correspondence: get_feature_names_out verbatim for both formats x symbols_only x call flags x generated or '
      'DataFrame names through random trees of all kinds. Oracle: a parser for the plaintext grammar evaluates every '
      'name on the data and compares with the column; DataFrame names verbatim / mismatching names rejected.',
      'Lean kernel + standard axioms; "each name denotes its column" is proved for whole pipelines (C19_denotation: one row of '
      'symbolic terms per tree whose rendering is the names and whose evaluation is the lifted values) and checked end-to-end '
      'by two name-evaluating oracles (a grammar parser; a verbatim-atom reader for names containing blanks / operators, '
      'stage by stage); wrapped-scaler and RBF / kernel names are compared verbatim only.',
      'Lean 4 proof (names as a second interpretation of the generic model) + verbatim correspondence + name-evaluating oracle',
      'DESIGN.md section 5 C19')

claim('C15', 'other',
      'The Lean history machine (theorems C15_*) states which histories must be indistinguishable: after ANY history '
      'without a stop request a fit leaves the state of a fresh estimator with the current parameters; only set_params '
      'changes parameters; read-only calls are pure, hence every interleaving of reads returns the sequential answers; '
      'set/get round trips on the flattened name__sub map; the fitted state is a snapshot (parameter edits, clones, reads, '
      'stop requests after a fit change no read-only answer: C15_fitted_snapshot / _reads_after_edits); several instances '
      'and caller-owned arrays overwritten in place: instances independent, fits and reads by VALUE of the current contents '
      '(C15_fit_by_value, C15_read_by_value). The check executes random real histories on every '
      'estimator class of the package and verifies each of these equalities by deep by-value digests (fresh clone + '
      'fit vs used instance + fit; parameters and input arrays around every call; reads from 3 threads).',
      'The theorems are about the machine, which is simple by design; the assurance is the refinement check on real '
      'histories (sampled). Tolerance instead of bit-equality for KMeans / GaussianMixture / SDP-solver backed '
      'estimators. CPython cannot enumerate interleavings: the theorem covers all of them given that reads do not '
      'write, and the digest-around-every-read check ties that premise to the code. Process state outside the estimator '
      '(warnings filters, numpy error state / global RNG) is varied by the check, not modelled. Known finding F-stop; fixed F-qmc, F-cache.',
      'Lean 4 theorems on a history machine + refinement check of real API histories (digests)',
      'DESIGN.md section 5 C15')

claim('C06', 'proof',
      'Lean 4 theorems C06_* over Matrix R: cost(V) - cost(U) = |(V-U)Psi|^2 + alpha |V-U|^2 for any solution U of the '
      'normal equations, hence optimality for every alpha >= 0, uniqueness (alpha > 0 / invertible Gram), harmless 1/q '
      'scaling, exact recovery on noise-free data with invertible Psi Psi^T, and the untruncated DMDc / DMD SVD formula '
      'solving the same equations; certificate theorem: what the exact-rational driver prints satisfies U H = G in Q; '
      'for EVERY data set: the normal equations are solvable (rank-deficient Psi with alpha = 0 included), a least-squares '
      'solution of a consistent system is exact, so whatever least-squares solution lstsq returns in Edmd._fit_regressor '
      'minimises the documented cost (C06_edmd_lstsq_optimal, in the code\'s H, G, q). '
      'Correspondence: Edmd.coef_ (both call forms, single/multi episode, tall/square/wide) vs the certified rational '
      'solution.',
      'Lean kernel + standard axioms + Mathlib Matrix; scipy.linalg.lstsq / LinearRegression / LAPACK SVD are trusted and '
      'validated (gradient, perturbation, recovery of [A B] for Edmd(0), EdmdMeta(), Dmdc(), Dmd()); EdmdMeta loses '
      'accuracy beyond cond(H) ~ 1e6 (scikit-learn tol): generators keep cond(Psi) <= 100.',
      'Lean 4 proof (trace algebra over Mathlib Matrix) + exact rational correspondence with certificate',
      'DESIGN.md section 5 C06')
claim('C09', 'proof',
      'Lean 4 theorems C09_*: the spectral-radius LMI block forces V(Ax) < rho^2 V(x), hence |mu| < rho for every real or '
      'complex eigenvalue of A (eigen_complex), the DMDc transfer through Q^T Q = 1, and the loop invariant of the '
      'alternating A/B state machine (whatever is returned is 0 or the U of an optimal sub-problem-A answer, for every '
      'solver behaviour, stop timing and budget). Correspondence: the real _create_problem_a/_b evaluated with PICOS at '
      'dyadic points vs the SAME Lean block definitions evaluated over Q; the real fit loop driven by a scripted solver '
      'vs the loop machine. Oracle: cvxopt fits on stable / marginal / unstable data.',
      "Lean kernel + standard axioms + Mathlib; assumed: an 'optimal' solver answer satisfies its constraints up to "
      'tolerance (the oracle measures the spectral radius of every returned A and the monotonicity of the objective log); '
      'PICOS / cvxopt trusted.',
      'Lean 4 proof (quadratic form of the LMI at a chosen block vector; induction over the loop) + PICOS-evaluation and scripted-solver correspondence',
      'DESIGN.md section 5 C09')
claim('C10', 'proof',
      'Lean 4 theorems C10_*: from the 4x4-block LMI alone (P symmetric) the identified weighted system satisfies strict '
      'dissipation with storage x^T P^-1 x, the l2-gain bound sum |y|^2 <= gamma^2 sum |u|^2 over EVERY finite horizon from '
      'rest (induction, no side conditions: positivity and invertibility of P are derived from the LMI), asymptotic '
      'stability (its 2x2 sub-block is the spectral-radius block with rho = 1, reusing C09), and the H-infinity norm ITSELF: '
      'C10_hinf_norm - zI - A is invertible on the unit circle and |G(z)u| <= gamma |u| for every |z| = 1 and every complex u '
      '(dissipation applied to real and imaginary parts; no Parseval). Correspondence: G(z)u at rational points of the unit circle (exact, certified in the driver) vs frequency_response; problem A '
      'and _create_ss (no weight / pre / post) via PICOS evaluation vs the Lean blocks over Q; scripted-solver loop. '
      'Oracle: independently computed H-infinity norm (frequency sweep + refinement) vs gamma_ on cvxopt fits.',
      'Partial on: scipy zpk->ss and '
      "discretisation of LmiHinfZpkMeta trusted; 'optimal' means feasible up to tolerance (measured).",
      'Lean 4 proof (inverse-free bounded-real lemma, telescoping induction) + PICOS-evaluation correspondence + frequency-domain oracle',
      'DESIGN.md section 5 C10')
claim('C11', 'proof',
      'Lean 4 theorems C11_*: the dissipativity LMI implies V(Ax+Bu) - V(x) <= supply for every (x,u), summed over any '
      'horizon; default supply rate = l2 gain at most one; AND C11_first_problem_infeasible: with default arguments the '
      'first sub-problem (P = I) has no feasible point for ANY (A,B), i.e. for every data set - the second clause of the '
      'property fails on the unchanged tree (known finding F-diss, reproduced by the check). Correspondence: LMI '
      'structure via PICOS evaluation (default and random symmetric supply rates) and the scripted-solver loop.',
      "Lean kernel + standard axioms + Mathlib; 'optimal' means feasible up to tolerance (the oracle checks the "
      'dissipation inequality with the returned (coef_, P_) and the frequency-domain gain for gain-bound supply rates).',
      'Lean 4 proof (quadratic form at (x,u,-(Ax+Bu)); closed infeasibility argument) + PICOS-evaluation correspondence',
      'DESIGN.md section 5 C11')

claim('C12', 'proof',
      'Lean 4 theorems C12_* over Matrix R: the epigraph block [[Z, UL],[L^T U^T, I]] >= 0 is Z >= U H U^T (Schur complement, '
      'L L^T = H), every feasible point has tr Z >= tr(U H U^T) with Z = U H U^T feasible, and c - 2 tr(U G^T) + tr(U H U^T) is '
      'exactly the documented quadratic cost; with pure Tikhonov the LMI problem has the EDMD minimiser (C06); the two-norm '
      'block is EXACTLY the epigraph of the matrix two-norm (C12_twonorm_epigraph, both directions) and the nuclear-norm '
      'block exactly the epigraph of the nuclear norm sum sigma_i (C12_nuclear_epigraph, both directions; a singular value '
      'decomposition exists for every U: C12_nuclear_epigraph_exists, from the spectral theorem). Correspondence: objective and blocks of the real problems for all 7 '
      'inv_methods via PICOS evaluation. Oracle: cvxopt fits (both families, all reg methods), competitor search on the '
      'documented cost, agreement with Edmd.',
      'Partial: numeric '
      "factorisations validated (L L^T = H) not proved; 'optimal' = optimal up to solver tolerance (competitor threshold "
      '2e-5 relative). Repaired defect F-dmdc.',
      'Lean 4 proof (Schur complement + trace algebra) + PICOS-evaluation correspondence + competitor-search oracle',
      'DESIGN.md section 5 C12')
claim('C13', 'other',
      'Lean 4 theorems C13_* over Matrix C about the formula A_r = V Lambda V^+: eigenpairs, every mode a non-zero '
      'eigenvector, rank <= number of modes, projected modes give Q A~ Q^H, characteristic polynomial x^(n-r) prod (x - lambda_i) '
      '(non-zero spectrum with multiplicities), and for conjugate-closed eigenpairs the reconstruction with the Moore-Penrose '
      'left inverse is a REAL matrix, so real(..) keeps the published eigenpairs (C13_reconstruction_real, C13_real_part_eigpairs). No exact executable model exists for LAPACK factors, so the tie to the code is a numeric validation '
      'of the hypotheses (left-invertible modes) and of every conclusion (eigenpair residual, rank, spectrum equality, '
      'real coef_) on the fitted attributes of Dmd / Dmdc for every mode type and truncation rule.',
      'scipy.linalg.eig / lstsq / svd trusted and validated; that LAPACK returns conjugate-closed, linearly independent '
      'eigenpairs (the hypotheses of the theorems) is validated numerically on every fit and counted in the evidence, not proved; '
      'known finding F-defective (linearly dependent modes of a defective reduced operator).',
      'Lean 4 theorems about the reconstruction formula + numeric validation of hypotheses and conclusions on the implementation',
      'DESIGN.md section 5 C13')
claim('C17', 'other',
      'Lean 4 theorems C17_*: weight_only inner product = (1/D) sum cos(<x-y, w_j>) and unit norm (exact identities), the '
      'offset-average integral for weight_offset, the KernelApproxLiftingFn layout, and the stream model of the seed '
      'plumbing (RandomState instance: disjoint positions; integer seed: weights and offsets read the same positions - '
      'finding F-rff); C17_gaussian_kernel_mean: for i.i.d. standard normal weights the mean of a feature product IS the Gaussian kernel exp(-shape |x-y|^2) (Mathlib characteristic function), C17_cauchy_kernel_mean: i.i.d. Laplace weights give the product Cauchy kernel prod 1/(1+2 shape (x_i-y_i)^2), C17_laplacian_kernel_mean: i.i.d. Cauchy weights give the Laplacian kernel exp(-sqrt(2 shape) |x-y|_1) (Fourier inversion), all in any dimension; C17_offset_unbiased: weight_offset features are unbiased over an independent uniform offset; C17_concentration_*: for D independent draws the estimate deviates from the kernel by eps with probability <= 2 exp(-D eps^2 / 2) (Hoeffding; weight_offset: <= 4/(D eps^2), Chebyshev), i.e. the O(1/sqrt(D)) clause. Correspondence: transform vs the Lean Float evaluation of the feature-map formula given the '
      'fitted (W, b); output width; kernel -> distribution table; which draws replay RandomState(seed). Oracle: seeded '
      'fixed-size statistical test of unbiasedness against the closed-form kernels.',
      'Not provable here and trusted: scipy samplers have the named distributions and successive draws are independent '
      '(the hypotheses of the kernel-mean and concentration theorems). Known finding F-rff (integer seeds break exactly that independence).',
      'Lean 4 proof of the exact identities + Float correspondence + statistical oracle (partial)',
      'DESIGN.md section 5 C17')
claim('C18', 'proof',
      'Lean 4 theorems C18_* about the exact-rational model of _feature_range (plain / symmetric), linspace, the grid in '
      'meshgrid order (contains exactly the Cartesian product, k^n points, one coordinate per feature), range scaling of '
      'unit-cube samples, the RBF layout (generic rbf kind), the default-offset table and the stream model (finding '
      'F-unif). Correspondence: ranges and GridCenters (values and order) vs the rational model, shapes / range '
      'membership / DataCenters for all 7 generators incl. counts 1, QMC engines, both seed types; RbfLiftingFn.transform '
      'vs the Lean Float formula for all 7 radial functions, offsets incl. None, callables.',
      'Sampling distributions of the random generators trusted; KMeans / GaussianMixture centres checked for shape only; '
      'known finding F-unif (integer seed couples features); repaired F-gauss.',
      'Lean 4 proof over exact rationals + exact / Float correspondence + independence probe',
      'DESIGN.md section 5 C18')

ALL = [f'C{i:02d}' for i in range(1, 21)]


def main():
    checks = []
    for pid in ALL:
        if pid not in CHECKS:
            continue
        c = CHECKS[pid]
        checks.append({
            'property_id': pid,
            'quick_cmd': f'./check {pid} --tier quick',
            'thorough_cmd': f'./check {pid} --tier thorough',
            'evidence_file': f'evidence/{pid}.json',
            'replay_cmd_template': f'./check {pid} --replay {{path}}',
            'engine': 'lean-model+correspondence',
            'level_claimed': {'category': c['category'], 'text': c['text'], 'design_ref': c['design_ref']},
            'level_note': c['note'],
            'technique': c['technique'],
        })
    na = [{'property_id': p, 'reason': NOT_YET.get(p, 'check not built yet (work in progress; see DESIGN.md section 7 build order)')}
          for p in ALL if p not in CHECKS]
    man = {
        'version': 1,
        'setup_cmd': './setup.sh',
        'hooks': {
            'guard': 'PYKOOP_VERIF',
            'enable': 'no source hooks: recording regressors, scripted solvers and write detectors are installed '
                      'in-process by the harness; PYKOOP_VERIF=1 is exported by ./check but nothing in /repo reads it',
            'baseline_off_cmd': 'cd /repo && /venv/bin/python -m pytest -ra -q -p no:cacheprovider --timeout=900 '
                                '--continue-on-collection-errors',
            'source_commits': [],
            'add_only': True,
        },
        'engines': [{
            'name': 'lean-model+correspondence',
            'path': 'lean/ (model, theorems, driver) + harness/ (generators, correspondence, oracles)',
            'serves_properties': sorted(CHECKS),
            'kind_free_text': 'machine-checked proof in Lean 4 about a hand-written executable model; the model is '
                              'tied to /repo on every run by a differential correspondence check; on a break a '
                              'per-property oracle searches the implementation for a failing input',
        }],
        'checks': checks,
        'not_applicable': na,
        'notes': 'Exit codes: 0 held, 1 violation (VIOLATION line), 2 infrastructure failure. VERIF_SEED selects the '
                 'PRNG stream. Known findings: known_findings.json.',
    }
    json.dump(man, open(os.path.join(VERIF, 'MANIFEST.json'), 'w'), indent=1)


if __name__ == '__main__':
    main()
