"""C07 - Trajectory prediction is the iterated one-step prediction."""
import json

import numpy as np

import pykoop
from .. import core, pipes, structural as st

THEOREMS = ['Pk.C07.C07_divergence_rows', 'Pk.C07.C07_divergence_prefix', 'Pk.C07.C07_divergence_pattern',
            'Pk.C07.C07_divergence_local', 'Pk.C07.trajRelift_eq_loopT', 'Pk.C07.C07_ic', 'Pk.C07.C07_rows', 'Pk.C07.C07_step', 'Pk.C07.C07_inputs', 'Pk.C07.C07_norelift_step', 'Pk.C07.C07_norelift_shapes', 'Pk.C07.C07_norelift_inputs',
            'Pk.C07.C07_episodes', 'Pk.C07.C07_predict_def', 'Pk.step_eq_predict', 'Pk.trajRelift_row']
ALG = ['poly', 'bilinear', 'const', 'delay', 'delay']


def gen(ctx, float_data=False):
    rng = ctx.rng
    for _ in range(100):
        # the float oracle quantifies over EVERY pipeline: pre-processors (wrapped scalers, angle features) and the
        # opaque feature kinds too, also inside the branches of a SplitPipeline; the exact correspondence stays algebraic
        kinds = (ALG + ['sk', 'angle', 'rbf', 'kernel', 'sk']) if (float_data and rng.random() < 0.5) else ALG
        c = st.gen_case(rng, kinds, max_depth=2, max_len=2, cap=12, ep=True, extra=3, opaque=float_data)
        if c['spec']['k'] != 'pipe':
            c['spec'] = {'k': 'pipe', 'ss': [c['spec']]}
        if st.degree(c['spec']) > 2:
            continue
        # small integers so that every predicted state stays exactly representable
        if not float_data:
            c['rows'] = [[r[0]] + [rng.choice([-1, 0, 1, 2]) for _ in r[1:]] for r in c['rows']]
        c['rows_lab'] = c['rows']
        c['fit_ep'] = rng.random() < 0.6
        c['call'] = rng.choice([None, None, True, False])
        c['relift'] = rng.random() < 0.6
        c['data_form'] = None if float_data else st.pick_form(rng, integral=True, small=True)
        c['lifted'] = rng.random() < 0.3
        c['inp'] = rng.random() < 0.4
        c['form'] = rng.choice([1, 2])
        return c
    raise RuntimeError('no case')


def systematic_float_cases(rng):
    """pre-processors and opaque kinds at every nesting position (top level, inside the state / input branch of a
    SplitPipeline, before and after algebraic stages), float data"""
    pre = [{'k': 'sk', 'scaler': 'standard'}, {'k': 'sk', 'scaler': 'minmax'}, {'k': 'angle', 'feat': [0]},
           {'k': 'sk', 'scaler': 'robust'}]
    out = []
    for P in pre:
        for nu in (0, 1):
            sk_in = [{'k': 'sk', 'scaler': 'maxabs'}] if nu else []
            specs = [[P], [P, {'k': 'poly', 'order': 2, 'io': False}],
                     [{'k': 'split', 'a': [P], 'b': sk_in}],
                     [{'k': 'split', 'a': [P, {'k': 'poly', 'order': 2, 'io': False}], 'b': sk_in}],
                     [{'k': 'split', 'a': [P, {'k': 'delay', 'dx': 1, 'du': 0}], 'b': ([{'k': 'delay', 'dx': 0, 'du': 1}] if nu else [])}],
                     [{'k': 'split', 'a': [{'k': 'poly', 'order': 2, 'io': False}], 'b': sk_in}]]
            for ss in specs:
                if P['k'] == 'angle' and nu and any(x.get('k') == 'split' for x in ss) is False and len(ss) == 1:
                    pass
                nx = 2
                spec = {'k': 'pipe', 'ss': ss}
                eps, order = pipes.gen_layout(rng, pipes.loss(spec) + 2, extra=3, ep=True)
                rows = [[l] + [round(rng.uniform(-2.0, 2.0), 3) * (1 if j < nx else 1) + (0 if P['k'] == 'angle' else 5 * (j == 0))
                               for j in range(nx + nu)] for (l, t) in order]
                c = {'spec': spec, 'nx': nx, 'nu': nu, 'ep': True, 'rows': rows, 'min_len': pipes.loss(spec) + 2,
                     'form': None, 'degenerate': False, 'systematic': True}
                c['rows_lab'] = c['rows']
                c['fit_ep'] = rng.random() < 0.6
                c['call'] = rng.choice([None, None, True, False])
                c['relift'] = rng.random() < 0.6
                c['data_form'] = None
                c['lifted'] = False
                c['inp'] = rng.random() < 0.4
                c['form'] = rng.choice([1, 2])
                out.append(c)
    return out


def build(c, K=None, rng=None, contractive=False):
    fe = c['fit_ep']
    A = np.array(c['rows_lab'], dtype=float)
    X = A if fe else A[:, 1:]
    spec = c['spec']
    probe = pipes.fit(spec, X, c['nu'], fe)
    pth, pup = probe.n_states_out_, probe.n_inputs_out_
    if K is None:
        if contractive:
            rs = np.random.RandomState(rng.randint(0, 2 ** 31 - 1))
            K = rs.uniform(-1, 1, (pth, pth + pup))
            K[:, :pth] *= 0.5 / max(1e-9, np.max(np.abs(np.linalg.eigvals(K[:, :pth]))) + 0.2)
            K[:, pth:] *= 0.3
        else:
            K = np.array([[rng.choice([-1, 0, 0, 1]) for _ in range(pth + pup)] for _ in range(pth)], dtype=float)
    kp = pykoop.KoopmanPipeline(
        lifting_functions=[(f'p{j}', pipes.build(s)) for j, s in enumerate(spec['ss'])] or None,
        regressor=pykoop.DataRegressor(coef=K.T))
    kp.fit(X, n_inputs=c['nu'], episode_feature=fe)
    return kp, K


def call_args(kp, c):
    """(X0_or_X, U, e) for the case's call flag and form"""
    fe = c['fit_ep']
    e = fe if c['call'] is None else c['call']
    A = np.array(c['rows_lab'], dtype=float)
    X = A if e else A[:, 1:]
    # the (integer-valued) call data in another valid form: integer / single precision dtype, memory layout
    dform = c.get('data_form')
    if c['form'] == 1:
        return st.in_form(X, dform), None, e
    x0 = pykoop.extract_initial_conditions(X, min_samples=kp.min_samples_, n_inputs=c['nu'], episode_feature=e)
    u = pykoop.extract_input(X, n_inputs=c['nu'], episode_feature=e)
    return st.in_form(x0, dform), st.in_form(u, dform), e


def run_impl(kp, c):
    X0, U, e = call_args(kp, c)
    return kp.predict_trajectory(X0, U, relift_state=c['relift'], return_lifted=c['lifted'],
                                 return_input=c['inp'], episode_feature=c['call'])


def raw_mat(A, e):
    return pipes.mat_tokens([[int(v) for v in r] for r in A], e)


def model_line(kp, c, K):
    X0, U, e = call_args(kp, c)
    toks, _ = pipes.tokens(c['spec'], kp)
    kt = f'{K.shape[0]} {K.shape[1]} ' + ' '.join(str(int(v)) for v in K.ravel())
    b = lambda v: 1 if v else 0
    line = (f"traj {b(c['relift'])} {b(c['lifted'])} {b(c['inp'])} {c['nx']} {c['nu']} {toks} {kt} "
            f"{c['form']} {raw_mat(X0, e)}")
    if U is not None:
        line += ' ' + raw_mat(U, e)
    return line, e


def _iteration_diverges(kp, c, e, fe, nx, m):
    """does the explicit iteration of the one-step prediction (predict on the window of the previously predicted states
    and the true inputs) leave the floating-point range on some episode of the case?"""
    A = np.array(c['rows_lab'], dtype=float)
    Xfull = A if e else A[:, 1:]
    for l, Xe in st.episodes(Xfull, e).items():
        S = [row.copy() for row in Xe[:m, :nx]]
        for k in range(m, Xe.shape[0]):
            W = np.hstack((np.array(S[k - m:k]), Xe[k - m:k, nx:]))
            try:
                with np.errstate(all='ignore'):
                    one = kp.predict(st.ref_combine([(l, W)], fe))[-1, (1 if fe else 0):]
            except Exception:
                return True
            if not np.all(np.isfinite(one)) or np.max(np.abs(one)) > 1e150:
                return True
            S.append(one)
    return False


def _oracle(c, rng):
    """the property statement on the implementation, float data, contractive Koopman matrix"""
    if rng.random() < 0.3:
        # integer-valued initial conditions and inputs handed over as integer (or single precision) arrays; the Koopman
        # matrix is not integral, so the predictions are not integers
        c = dict(c)
        c['rows_lab'] = [[r[0]] + [float(round(3 * v)) for v in r[1:]] for r in c['rows_lab']]
        c['rows'] = c['rows_lab']
        c['data_form'] = rng.choice(['int64', 'int32', 'float32'])
    try:
        kp, K = build(c, rng=rng, contractive=True)
    except Exception:
        return None, None
    fe = c['fit_ep']
    e = fe if c['call'] is None else c['call']
    nx, nu, m = c['nx'], c['nu'], kp.min_samples_
    ec = 1 if e else 0
    X0, U, _ = call_args(kp, c)
    tags = {'relift': c['relift'], 'form': c['form']}
    try:
        Xp = kp.predict_trajectory(X0, U, relift_state=True, return_input=True, episode_feature=c['call'])
    except Exception as ex:
        if isinstance(ex, ValueError) and _iteration_diverges(kp, c, e, fe, nx, m):
            # an episode whose overflow first shows inside the lifting chain makes the whole call raise (known finding
            # F-abort, covered by the divergence probe); confirmed here by iterating the one-step prediction
            # independently - a ValueError on a trajectory that stays finite is NOT excused
            return None, None
        return f'predict_trajectory raised {type(ex).__name__}: {ex}', tags
    if not np.all(np.isfinite(Xp)):
        # the prediction left the floating-point range (polynomial liftings grow doubly exponentially): the divergence
        # branch, which the divergence probes and the scripted-divergence correspondence cover, not this oracle
        return None, None
    A = np.array(c['rows_lab'], dtype=float)
    Xfull = A if e else A[:, 1:]
    eps_in = st.episodes(Xfull, e)
    eps_p = st.episodes(Xp, e)
    for l, Xe in eps_in.items():
        if l not in eps_p:
            return f'episode {l} missing from the prediction', tags
        P = eps_p[l]
        if P.shape[0] != Xe.shape[0]:
            return f'episode {l}: {Xe.shape[0]} input samples, {P.shape[0]} predicted rows', tags
        if not np.array_equal(P[:m, :nx], Xe[:m, :nx]):
            return f'episode {l}: initial conditions not reproduced verbatim', tags
        if not np.array_equal(P[:, nx:], Xe[:, nx:]):
            return f'episode {l}: inputs not passed through unchanged', tags
        # k-th state = one-step prediction from the previously predicted states and the true inputs
        for k in range(m, Xe.shape[0]):
            W = np.hstack((P[k - m:k, :nx], Xe[k - m:k, nx:]))
            Wm = st.ref_combine([(l, W)], fe)      # as the fitted pipeline sees it
            one = kp.predict(Wm)
            one = one[-1, (1 if fe else 0):]
            if not np.allclose(one, P[k, :nx], rtol=1e-7, atol=1e-9):
                return (f'episode {l}: predicted state {k} is not the one-step prediction from states {k - m}..{k - 1} '
                        f'(difference {np.max(np.abs(one - P[k, :nx])):.3g}, magnitude {np.max(np.abs(P[k, :nx])):.3g})'), tags
        # independence of the other episodes
        alone = st.ref_combine([(l, Xe)], e)
        Pa = kp.predict_trajectory(alone, None, relift_state=True, return_input=True, episode_feature=c['call'])
        if not np.allclose(Pa[:, ec:], P, rtol=1e-12, atol=0):
            return f'episode {l}: prediction depends on the other episodes', tags
    # without re-lifting: theta[k+1] = A theta[k] + B upsilon[k]
    try:
        L = kp.predict_trajectory(X0, U, relift_state=False, return_lifted=True, return_input=True,
                                  episode_feature=c['call'])
    except Exception as ex:
        return f'predict_trajectory(relift_state=False) raised {type(ex).__name__}: {ex}', tags
    pth = kp.n_states_out_
    if not np.all(np.isfinite(L)):
        return None, None
    for l, Le in st.episodes(L, e).items():
        Th, Up = Le[:, :pth], Le[:, pth:]
        for k in range(Le.shape[0] - 1):
            nxt = K[:, :pth] @ Th[k] + K[:, pth:] @ Up[k]
            if not np.allclose(nxt, Th[k + 1], rtol=1e-9, atol=1e-12):
                return f'episode {l}: lifted trajectory violates theta[k+1] = A theta[k] + B upsilon[k] at k={k}', tags
    # without re-lifting, unlifted output: IC verbatim, inputs passed through, one row per input sample, and every
    # later state is the retraction of the lifted state of its time step
    try:
        Xn = kp.predict_trajectory(X0, U, relift_state=False, return_input=True, episode_feature=c['call'])
    except Exception as ex:
        return f'predict_trajectory(relift_state=False) raised {type(ex).__name__}: {ex}', tags
    eps_n = st.episodes(Xn, e)
    eps_L = st.episodes(L, e)
    for l, Xe in eps_in.items():
        if l not in eps_n:
            return f'episode {l} missing from the prediction without re-lifting', tags
        Pn = eps_n[l]
        if Pn.shape[0] != Xe.shape[0]:
            return f'episode {l} (no re-lifting): {Xe.shape[0]} input samples, {Pn.shape[0]} predicted rows', tags
        if not np.array_equal(Pn[:m, :nx], Xe[:m, :nx]):
            return f'episode {l} (no re-lifting): initial conditions not reproduced verbatim', tags
        if not np.array_equal(Pn[:, nx:], Xe[:, nx:]):
            return f'episode {l} (no re-lifting): inputs not passed through unchanged', tags
        Th = eps_L[l][:, :pth]
        Up = eps_L[l][:, pth:]
        if Th.shape[0] != Xe.shape[0] - m + 1:
            return (f'episode {l} (no re-lifting): {Xe.shape[0]} input samples give {Th.shape[0]} lifted rows, '
                    f'expected {Xe.shape[0] - m + 1}'), tags
        # every lifted-input row, the last one included, is the lifting of the supplied inputs (and predicted
        # states) of its window
        for j in range(Up.shape[0]):
            W = np.hstack((Pn[j:j + m, :nx], Xe[j:j + m, nx:]))
            ur = kp.lift_input(W, episode_feature=False)[-1]
            if not np.allclose(ur, Up[j], rtol=1e-9, atol=1e-12):
                return (f'episode {l} (no re-lifting): lifted input row {j} is not lift_input of the supplied '
                        f'inputs of samples {j}..{j + m - 1}'), tags
        for j in range(1, Th.shape[0]):
            xr = kp.retract_state(Th[[j], :], episode_feature=False)[-1]
            if not np.allclose(xr, Pn[j + m - 1, :nx], rtol=1e-9, atol=1e-12):
                return (f'episode {l} (no re-lifting): predicted state {j + m - 1} is not the retraction of the lifted '
                        f'state of its time step'), tags
    if rng.random() < 0.5:
        # HISTORY: the fitted regressor is updated AFTER trajectories were predicted (regressor_ re-fitted on the lifted
        # data with another Koopman matrix, or its coef_ replaced); prediction must follow the regressor it has now
        rs = np.random.RandomState(rng.randint(0, 2 ** 31 - 1))
        pup = kp.n_inputs_out_
        K2 = rs.uniform(-1, 1, (pth, pth + pup))
        K2[:, :pth] *= 0.5 / max(1e-9, np.max(np.abs(np.linalg.eigvals(K2[:, :pth]))) + 0.2)
        K2[:, pth:] *= 0.3
        how = rng.choice(['regressor_.fit', 'coef_ replaced'])
        tags = dict(tags, history=how)
        Afit = np.array(c['rows_lab'], dtype=float)
        Xfit = Afit if fe else Afit[:, 1:]
        if how == 'regressor_.fit':
            kp.regressor_.set_params(coef=K2.T)
            kp.regressor_.fit(kp.transform(Xfit), n_inputs=pup, episode_feature=fe)
        else:
            kp.regressor_.coef_ = K2.T.copy()
        P2 = kp.predict_trajectory(X0, U, relift_state=True, return_input=True, episode_feature=c['call'])
        if not np.all(np.isfinite(P2)):
            return None, None
        eps_2 = st.episodes(P2, e)
        for l, Xe in eps_in.items():
            P = eps_2[l]
            for k in range(m, Xe.shape[0]):
                W = np.hstack((P[k - m:k, :nx], Xe[k - m:k, nx:]))
                one = kp.predict(st.ref_combine([(l, W)], fe))[-1, (1 if fe else 0):]
                if not np.allclose(one, P[k, :nx], rtol=1e-7, atol=1e-9):
                    return (f'after {how}: episode {l}: predicted state {k} is not the one-step prediction (predict) from states '
                            f'{k - m}..{k - 1}'), tags
        L2 = kp.predict_trajectory(X0, U, relift_state=False, return_lifted=True, return_input=True, episode_feature=c['call'])
        for l, Le in st.episodes(L2, e).items():
            Th, Up = Le[:, :pth], Le[:, pth:]
            for k in range(Le.shape[0] - 1):
                nxt = K2[:, :pth] @ Th[k] + K2[:, pth:] @ Up[k]
                if not np.allclose(nxt, Th[k + 1], rtol=1e-9, atol=1e-12):
                    return (f'after {how}: episode {l}: lifted trajectory violates theta[k+1] = A theta[k] + B upsilon[k] for the '
                            f'current regressor_.coef_ at k={k}'), tags
    return None, None


def divergence_probe(rng, relift, which=None):
    """one episode of a call diverges (a finite but huge initial condition whose lifting overflows); the OTHER episodes of
    the same call must be predicted exactly as if they were predicted alone - episodes are independent"""
    import logging
    import warnings
    rs = np.random.RandomState(rng.randint(0, 2 ** 31 - 1))
    A = np.array([[0.9, 0.2], [-0.1, 0.8]])
    B = np.array([[0.0], [0.5]])
    blocks = []
    for l in range(2):
        n = 30
        x = np.zeros((n, 2)); u = rs.randn(n, 1); x[0] = rs.randn(2)
        for k in range(n - 1):
            x[k + 1] = A @ x[k] + B @ u[k]
        blocks.append((l, np.hstack((x, u))))
    X = st.ref_combine(blocks, True)
    d = rng.choice([0, 1])
    lfs = [('pl', pykoop.PolynomialLiftingFn(order=2))] + ([('dl', pykoop.DelayLiftingFn(d, d))] if d else [])
    kp = pykoop.KoopmanPipeline(lifting_functions=lfs, regressor=pykoop.Edmd(alpha=1e-6))
    kp.fit(X, n_inputs=1, episode_feature=True)
    m = kp.min_samples_
    n = rng.randint(m + 3, m + 12)
    labels = rng.sample(range(0, 9), rng.randint(2, 3))
    bad = min(labels) if rng.random() < 0.7 else rng.choice(labels)        # usually the first one processed
    if which is not None:                     # swept: the first / the last / a middle episode of the call diverges
        bad = [min(labels), max(labels), sorted(labels)[len(labels) // 2]][which % 3]
    x0, U = [], []
    for l in labels:
        ic = rs.randn(m, 2) * (1e200 if l == bad else 1.0)
        x0.append((l, ic))
        U.append((l, rs.randn(n, 1)))
    X0m, Um = st.ref_combine(x0, True), st.ref_combine(U, True)
    tag = {'relift': relift, 'probe': 'divergence'}
    case = {'labels': labels, 'diverging': bad, 'min_samples': m, 'relift': relift, 'X0': X0m.tolist(), 'U': Um.tolist()}
    lvl = logging.root.manager.disable
    logging.disable(logging.CRITICAL)
    try:
        with warnings.catch_warnings():
            warnings.simplefilter('ignore')
            try:
                both = kp.predict_trajectory(X0m, Um, relift_state=relift)
            except Exception as ex:
                return (f'predict_trajectory(relift_state={relift}) raises {type(ex).__name__} for the whole call because ONE '
                        f'episode diverges ({ex}); the other episodes have ordinary predictions'), case, \
                    dict(tag, outcome='call-raises-' + type(ex).__name__, min_samples='1' if m == 1 else '>=2')
            for l in labels:
                if l == bad:
                    continue
                alone = kp.predict_trajectory(st.ref_combine([(l, dict(x0)[l])], True), st.ref_combine([(l, dict(U)[l])], True),
                                              relift_state=relift)
                got = both[both[:, 0] == l]
                if got.shape != alone.shape or not np.array_equal(got, alone, equal_nan=True):
                    return (f'relift_state={relift}: the prediction of episode {l} changes when episode {bad} of the same call '
                            f'diverges ({int(np.sum(~np.isfinite(got)))} non-finite entries instead of '
                            f'{int(np.sum(~np.isfinite(alone)))})'), case, dict(tag, outcome='other-episode-changed')
    finally:
        logging.disable(lvl)
    return None, case, tag


MARK = 0.42424242424242      # an ordinary magnitude (the marked sample takes part in the prediction like any other)


def scripted_divergence_case(rng):
    """a call in which chosen episodes DIVERGE at a chosen loop iteration (scripted: `lift_input` of a marked window
    returns a non-finite row, so the next retraction raises a ValueError with a non-finite intermediate - the situation
    the divergence handler of predict_trajectory is written for); returns the observation and the model request"""
    import logging
    import warnings
    rs = np.random.RandomState(rng.randint(0, 2 ** 31 - 1))
    nx, nu = rng.randint(1, 2), rng.randint(1, 2)
    d = rng.choice([0, 1, 2])
    lfs = ([('pl', pykoop.PolynomialLiftingFn(order=2))] if rng.random() < 0.5 else []) \
        + ([('dl', pykoop.DelayLiftingFn(d, d))] if d else [])
    fit_blocks = [(l, rs.uniform(-1, 1, (8, nx + nu))) for l in (0, 1)]
    kp0 = pykoop.KoopmanPipeline(lifting_functions=lfs or None, regressor=pykoop.DataRegressor(coef=np.zeros((1, 1))))
    probe = pykoop.KoopmanPipeline(lifting_functions=lfs or None, regressor=pykoop.Edmd(alpha=1.0))
    probe.fit(st.ref_combine(fit_blocks, True), n_inputs=nu, episode_feature=True)
    pth, pup = probe.n_states_out_, probe.n_inputs_out_
    K = rs.uniform(0.1, 0.4, (pth, pth + pup)) / (pth + pup)
    kp = pykoop.KoopmanPipeline(lifting_functions=lfs or None, regressor=pykoop.DataRegressor(coef=K.T))
    kp.fit(st.ref_combine(fit_blocks, True), n_inputs=nu, episode_feature=True)
    m = kp.min_samples_
    relift = rng.random() < 0.5
    lifted = rng.random() < 0.5
    labels = sorted(rng.sample(range(0, 9), rng.randint(1, 3)))
    eps, marks = [], {}
    for l in labels:
        n = rng.randint(m + 3, m + 7)
        E = rs.uniform(-0.5, 0.5, (n, nx + nu))
        if rng.random() < 0.6:
            r = rng.randint(m - 1, n - 2)
            E[r, -1] = MARK
            marks[l] = r
        eps.append((l, E))
    X = st.ref_combine(eps, True)
    clean = kp.predict_trajectory(X, relift_state=relift, return_lifted=lifted)
    orig = kp.lift_input

    def poisoned(Xw, episode_feature=None):
        out = orig(Xw, episode_feature=episode_feature)
        if np.asarray(Xw)[-1, -1] == MARK:
            out = np.array(out, dtype=float)
            out[-1, :] = np.inf
        return out
    kp.lift_input = poisoned
    lvl = logging.root.manager.disable
    logging.disable(logging.CRITICAL)
    try:
        with warnings.catch_warnings():
            warnings.simplefilter('ignore')
            try:
                got = ('ok', kp.predict_trajectory(X, relift_state=relift, return_lifted=lifted))
            except Exception as ex:
                got = ('err', f'{type(ex).__name__}: {ex}')
    finally:
        logging.disable(lvl)
        del kp.lift_input
    parts = []
    for l, E in eps:
        n = E.shape[0]
        k = None if l not in marks else (marks[l] + 1 if relift else marks[l] - m + 2)
        parts.append(f"{n} {m} {'n' if k is None else k}")
    line = f"divpat {len(eps)} " + ' '.join(parts)
    case = {'nx': nx, 'nu': nu, 'delay': d, 'poly': len(lfs) - (1 if d else 0), 'relift': relift, 'lifted': lifted, 'min_samples': m,
            'labels': labels, 'marked_rows': {str(k): v for k, v in marks.items()}, 'X': X.tolist(), 'K': K.tolist()}
    return line, case, got, clean, eps, marks


def scripted_divergence_compare(case, got, clean, eps, marks, reply):
    """model: crash index and NaN pattern per episode; plus the prefix / locality clauses against the un-scripted run"""
    if got[0] != 'ok':
        return 'mismatch', f'predict_trajectory raised {got[1]} (model: NaN rows from the crash index on, every episode returned)'
    out = got[1]
    t = reply.split()
    if t[0] != 'ok' or len(t) != 1 + 3 * len(eps):
        return 'mismatch', 'model reply ' + reply[:60]
    for j, (l, E) in enumerate(eps):
        c, patX, patL = int(t[1 + 3 * j]), t[2 + 3 * j], t[3 + 3 * j]
        rows = out[out[:, 0] == l][:, 1:]
        ref = clean[clean[:, 0] == l][:, 1:]
        want = patL if case['lifted'] else patX
        if rows.shape[0] != len(want):
            return 'mismatch', f'episode {l}: {rows.shape[0]} rows returned, model {len(want)}'
        nan_rows = ''.join('1' if np.all(np.isnan(r)) else ('0' if np.all(np.isfinite(r)) else '?') for r in rows)
        if nan_rows != want:
            return 'mismatch', (f'episode {l} (diverging at marked row {marks.get(l)}): NaN rows {nan_rows}, model {want} '
                                f'(crash index {c})')
        keep = [i for i, ch in enumerate(want) if ch == '0']
        if l in marks and case['lifted'] and case['relift']:
            # with re-lifting the lifted rows are re-computed from the states AFTER the rows from the crash index on were
            # cleared: a lifted row whose delay window reaches the crash index is not a prediction (and not claimed to be)
            keep = [i for i in keep if i + case['min_samples'] - 1 < c]
        if not np.array_equal(rows[keep], ref[keep]):
            return 'fail', (f'episode {l}: rows reported before the crash index differ from the prediction that does not diverge'
                            if l in marks else
                            f'episode {l} does not diverge, but its prediction changes when another episode of the call diverges')
    return None, None


def frame_probe(rng):
    """a pipeline fitted on a pandas DataFrame (named columns) is a fitted pipeline like any other: predict / score on the
    same frame and predict / predict_trajectory on the plain array must work and give what a twin fitted on the plain
    array gives (for which the iterated-one-step clauses are checked by the main oracle)"""
    import pandas
    rs = np.random.RandomState(rng.randint(0, 2 ** 31 - 1))
    nx, nu = rng.randint(1, 3), rng.randint(0, 2)
    ep = rng.random() < 0.6
    blocks = [(l, rs.uniform(-1, 1, (rng.randint(6, 9), nx + nu))) for l in rng.sample(range(6), rng.randint(1, 3) if ep else 1)]
    X = st.ref_combine(blocks, ep)
    names = (['episode'] if ep else []) + [f's{j}' for j in range(nx)] + [f'in{j}' for j in range(nu)]
    df = pandas.DataFrame(X, columns=names)

    def make():
        lf = []
        if rng_choice[0]:
            lf.append(('pl', pykoop.PolynomialLiftingFn(order=2)))
        if rng_choice[1]:
            lf.append(('dl', pykoop.DelayLiftingFn(rng_choice[2], rng_choice[2] if nu else 0)))
        return pykoop.KoopmanPipeline(lifting_functions=lf or None, regressor=pykoop.Edmd(alpha=1.0))
    rng_choice = (rng.random() < 0.6, rng.random() < 0.6, rng.randint(1, 2))
    case = {'nx': nx, 'nu': nu, 'ep': ep, 'X': X.tolist(), 'names': names, 'poly': rng_choice[0],
            'delay': rng_choice[2] if rng_choice[1] else 0}
    tags = {'probe': 'frame'}
    try:
        kf = make().fit(df, n_inputs=nu, episode_feature=ep)
        ka = make().fit(X, n_inputs=nu, episode_feature=ep)
    except Exception as ex:
        return f'fit on a DataFrame raised {type(ex).__name__}: {ex}', case, tags
    calls = [('predict(frame)', lambda: kf.predict(df), lambda: ka.predict(X)),
             ('predict(array)', lambda: kf.predict(X), lambda: ka.predict(X)),
             ('predict_trajectory(array)', lambda: kf.predict_trajectory(X), lambda: ka.predict_trajectory(X)),
             ('predict_trajectory(array, relift_state=False)', lambda: kf.predict_trajectory(X, relift_state=False),
              lambda: ka.predict_trajectory(X, relift_state=False)),
             ('score(frame)', lambda: np.array([kf.score(df)]), lambda: np.array([ka.score(X)]))]
    for name, f, g in calls:
        want = g()
        try:
            got = f()
        except Exception as ex:
            return (f'a KoopmanPipeline fitted on a DataFrame cannot {name}: {type(ex).__name__}: {ex} (the twin fitted on the '
                    f'plain array predicts normally)'), case, dict(tags, call=name.split('(')[0])
        if np.shape(got) != np.shape(want) or not np.allclose(got, want, rtol=1e-12, atol=1e-12, equal_nan=True):
            return f'{name} of a pipeline fitted on a DataFrame differs from the twin fitted on the plain array', case, tags
    return None, case, tags


# ----------------------------------------------------------------------------- numerical edge values
# Valid inputs at the ends of the floating-point range: huge but finite magnitudes (squares overflow, the values do not),
# tiny / subnormal magnitudes, signed zeros, badly scaled Koopman matrices.  The lifting chains used here are SELECTIONS
# (no lifting functions, delay coordinates, chains and split pipelines of them): lifting and retraction only copy entries,
# so the only arithmetic on the way is theta+ = A theta + B upsilon, which the oracle does itself in float64 from coef_.

EDGE_PALETTE = [0.0, -0.0, 5e-324, -5e-324, 1e-310, 2.2250738585072014e-308, -3e-300, 1e-200, 1.0, -1.0, 7e99, -1e154,
                1.4e154, 3e180, -1e200, 2.5e250, 1e300, -1e300]


def _edge_specs(rng, nu):
    d = lambda: {'k': 'delay', 'dx': rng.randint(0, 2), 'du': rng.randint(0, 2) if nu else 0}
    kind = rng.choice(['none', 'delay', 'delay', 'delay-chain', 'split', 'split'])
    if kind == 'none':
        return kind, []
    if kind == 'delay':
        return kind, [d()]
    if kind == 'delay-chain':
        return kind, [d(), d()]
    a = [{'k': 'delay', 'dx': rng.randint(0, 2), 'du': 0}]
    b = [{'k': 'delay', 'dx': 0, 'du': rng.randint(0, 2)}] if (nu and rng.random() < 0.7) else []
    return kind, [{'k': 'split', 'a': a, 'b': b}] + ([d()] if rng.random() < 0.3 else [])


def _edge_number(rng, rs, mode):
    sgn = -1.0 if rng.random() < 0.5 else 1.0
    if mode == 'huge':
        r = rng.random()
        if r < 0.65:
            return sgn * 10.0 ** rng.uniform(154.5, 300)
        if r < 0.8:
            return sgn * 10.0 ** rng.uniform(140, 154.5)
        return sgn * rng.uniform(0.1, 2)
    if mode == 'tiny':
        r = rng.random()
        if r < 0.25:
            return sgn * 0.0
        if r < 0.5:
            return sgn * 5e-324 * rng.randint(1, 1000)
        return sgn * 10.0 ** rng.uniform(-322, -290)
    if mode == 'palette':
        return rng.choice(EDGE_PALETTE)
    return sgn * rng.uniform(0.1, 2)        # 'scaled': ordinary numbers, the scales are applied per column


def edge_value_case(rng):
    """a fully explicit (JSON-able) case: selection lifting chain, Koopman matrix with absolute row sums <= 0.9 (so every
    true intermediate is bounded by the largest supplied magnitude), edge-valued initial conditions / inputs"""
    rs = np.random.RandomState(rng.randint(0, 2 ** 31 - 1))
    nx, nu = rng.randint(1, 3), rng.choice([0, 1, 1, 2])
    kind, ss = _edge_specs(rng, nu)
    spec = {'k': 'pipe', 'ss': ss}
    fe = rng.random() < 0.6
    mloss = pipes.loss(spec)
    fit_blocks = [(l, rs.uniform(-1, 1, (mloss + 4, nx + nu))) for l in ((0, 1) if fe else (0,))]
    Xfit = st.ref_combine(fit_blocks, fe)
    mode = rng.choice(['huge', 'huge', 'huge', 'tiny', 'palette', 'palette', 'scaled'])
    call = rng.choice([None, None, True, False])
    e = fe if call is None else call
    labels = sorted(rng.sample(range(0, 9), rng.randint(1, 3))) if e else [0]
    # per-column scales (mode 'scaled': states / inputs / Koopman matrix rescaled by a diagonal with exponents +-150)
    sc = [10.0 ** rng.choice([-150, -100, -7, 0, 0, 30, 100, 150]) if mode == 'scaled' else 1.0 for _ in range(nx + nu)]
    blocks = []
    for l in labels:
        n = mloss + 1 + rng.randint(2, 8)
        emode = mode if (len(labels) == 1 or rng.random() < 0.75) else 'ordinary'
        E = np.array([[_edge_number(rng, rs, emode) * sc[j] for j in range(nx + nu)] for _ in range(n)])
        if emode == 'huge' and rng.random() < 0.5:
            E[:, nx:] = rs.uniform(-1, 1, (n, nu))      # huge initial conditions, ordinary inputs
        blocks.append((l, E))
    X = st.ref_combine(blocks, e)
    return {'probe': 'edge-values', 'kind': kind, 'mode': mode, 'spec': spec, 'nx': nx, 'nu': nu, 'fit_ep': fe, 'call': call,
            'form': rng.choice([1, 2]), 'Xfit': Xfit.tolist(), 'X': X.tolist(), 'scales': sc,
            'K_seed': rng.randint(0, 2 ** 31 - 1)}


def _selection(M):
    """M is a 0/1 matrix with at most one 1 per row -> index vector (-1: constant zero), else None"""
    if not np.all((M == 0) | (M == 1)) or np.any(M.sum(axis=1) > 1):
        return None
    return np.array([int(np.argmax(r)) if r.any() else -1 for r in M], dtype=int)


def _take(sel, v):
    out = np.zeros(sel.shape[0])
    out[sel >= 0] = v[sel[sel >= 0]]
    return out


def _bits_equal(a, b):
    a, b = np.ascontiguousarray(a, dtype=float), np.ascontiguousarray(b, dtype=float)
    return a.shape == b.shape and np.array_equal(a.view(np.int64), b.view(np.int64))


def edge_value_check(case):
    """(why | None, tags, status): the property clauses on an edge-valued call, expected values computed here"""
    import logging
    import warnings
    nx, nu, fe, call = case['nx'], case['nu'], case['fit_ep'], case['call']
    tags = {'probe': 'edge-values', 'mode': case['mode']}
    spec = case['spec']
    Xfit = np.array(case['Xfit'], dtype=float)
    probe = pipes.fit(spec, Xfit, nu, fe)
    pth, pup = probe.n_states_out_, probe.n_inputs_out_
    m = probe.min_samples_
    # the lifting structure, measured at ordinary magnitudes: which window entry each lifted coordinate copies
    w = m * (nx + nu)
    Ms, Mu = np.zeros((pth, w)), np.zeros((pup, w))
    for j in range(w):
        W = np.zeros(w); W[j] = 1.0
        W = W.reshape(m, nx + nu)
        lw = probe.lift(W, episode_feature=False)
        if lw.shape != (1, pth + pup):
            return None, tags, 'rejected:window shape'
        Ms[:, j], Mu[:, j] = lw[-1, :pth], lw[-1, pth:]
    Mr = np.zeros((nx, pth))
    for j in range(pth):
        T = np.zeros((1, pth)); T[0, j] = 1.0
        Mr[:, j] = probe.retract_state(T, episode_feature=False)[-1]
    Ss, Su, Sr = _selection(Ms), _selection(Mu), _selection(Mr)
    if Ss is None or Su is None or Sr is None or np.any(Sr < 0):
        return None, tags, 'rejected:lifting is not a selection'
    # Koopman matrix: absolute row sums <= 0.9, rescaled by the column scales of the case (D K D^-1)
    rs = np.random.RandomState(case['K_seed'])
    K = rs.uniform(-1, 1, (pth, pth + pup))
    K *= 0.9 / np.max(np.sum(np.abs(K), axis=1))
    sc = np.array(case['scales'], dtype=float)
    col_of = lambda sel: np.array([sc[i % (nx + nu)] if i >= 0 else 1.0 for i in sel])
    ds, du = col_of(Ss), col_of(Su)
    K = (ds[:, None] * K) / np.concatenate((ds, du))[None, :]
    if not np.all(np.isfinite(K)):
        return None, tags, 'rejected:scaled Koopman matrix overflows'
    A, B = K[:, :pth], K[:, pth:]
    kp = pykoop.KoopmanPipeline(
        lifting_functions=[(f'p{j}', pipes.build(s)) for j, s in enumerate(spec['ss'])] or None,
        regressor=pykoop.DataRegressor(coef=K.T))
    kp.fit(Xfit, n_inputs=nu, episode_feature=fe)
    K = np.array(kp.regressor_.coef_, dtype=float).T
    A, B = K[:, :pth], K[:, pth:]
    e = fe if call is None else call
    ec = 1 if e else 0
    X = np.array(case['X'], dtype=float)
    eps_in = st.episodes(X, e)
    tiny = 64 * (pth + pup) * 5e-324

    def step(theta, ups):
        """(A theta + B upsilon, elementwise bound on its rounding error scale); None if a true intermediate can overflow"""
        with np.errstate(all='ignore'):
            mag = np.abs(A) @ np.abs(theta) + (np.abs(B) @ np.abs(ups) if pup else 0.0)
            nxt = A @ theta + (B @ ups if pup else 0.0)
        if not np.all(np.isfinite(mag)) or np.max(mag, initial=0.0) > 1e305:
            return None, None
        return nxt, 1e-12 * mag + tiny

    def window(Srows, Urows):
        return np.hstack((Srows, Urows)).ravel()

    # the expected trajectories (with and without re-lifting), iterated here from the supplied initial conditions
    expected, expected_nr = {}, {}
    for l, Xe in eps_in.items():
        n = Xe.shape[0]
        S = np.array(Xe[:, :nx]); S[m:] = 0.0
        for k in range(m, n):
            wv = window(S[k - m:k], Xe[k - m:k, nx:])
            nxt, _ = step(_take(Ss, wv), _take(Su, wv))
            if nxt is None:
                return None, tags, 'rejected:a true intermediate leaves the floating-point range'
            S[k] = _take(Sr, nxt)
        expected[l] = S
        Sn = np.array(Xe[:, :nx]); Sn[m:] = 0.0
        wv = window(Sn[:m], Xe[:m, nx:])
        th = _take(Ss, wv)
        for k in range(m, n):
            wv = window(Sn[k - m:k], Xe[k - m:k, nx:])
            nxt, _ = step(th, _take(Su, wv))
            if nxt is None:
                return None, tags, 'rejected:a true intermediate leaves the floating-point range'
            th = nxt
            Sn[k] = _take(Sr, th)
        expected_nr[l] = Sn
    if case['form'] == 1:
        # single-matrix form: only the first min_samples_ state rows of an episode are initial conditions; the later
        # state rows are (edge-valued) filler that must not matter
        X0, U = X, None
    else:
        X0 = st.ref_combine([(l, Xe[:m, :nx]) for l, Xe in eps_in.items()], e)
        U = st.ref_combine([(l, Xe[:, nx:]) for l, Xe in eps_in.items()], e)
    lvl = logging.root.manager.disable
    logging.disable(logging.CRITICAL)
    try:
        with warnings.catch_warnings():
            warnings.simplefilter('ignore')
            outs = {}
            for name, kw in (('relift', dict(relift_state=True)), ('norelift', dict(relift_state=False)),
                             ('lifted', dict(relift_state=False, return_lifted=True))):
                try:
                    outs[name] = np.array(kp.predict_trajectory(X0, U, return_input=True, episode_feature=call, **kw), dtype=float)
                except Exception as ex:
                    return (f'predict_trajectory({kw}) raised {type(ex).__name__}: {ex} on finite edge-valued initial conditions / '
                            f'inputs whose iterated one-step prediction is finite at every step'), dict(tags, relift=kw['relift_state']), 'checked'
    finally:
        logging.disable(lvl)
    for name, exp in (('relift', expected), ('norelift', expected_nr)):
        t = dict(tags, relift=name == 'relift')
        eps_p = st.episodes(outs[name], e)
        if outs[name].shape[1] != ec + nx + nu or sorted(eps_p) != sorted(eps_in):
            return f'{name}: output has shape {outs[name].shape} / episodes {sorted(eps_p)}', t, 'checked'
        for l, Xe in eps_in.items():
            P = eps_p[l]
            what = f'{name}, episode {l} ({case["mode"]} values, min_samples_={m})'
            if P.shape[0] != Xe.shape[0]:
                return f'{what}: {Xe.shape[0]} input samples, {P.shape[0]} predicted rows', t, 'checked'
            if not _bits_equal(P[:m, :nx], Xe[:m, :nx]):
                return (f'{what}: initial conditions not reproduced verbatim: supplied {Xe[:m, :nx].tolist()}, returned '
                        f'{P[:m, :nx].tolist()}'), t, 'checked'
            if not _bits_equal(P[:, nx:], Xe[:, nx:]):
                return f'{what}: inputs not passed through unchanged', t, 'checked'
            if not np.all(np.isfinite(P)):
                bad = int(np.argmax(~np.all(np.isfinite(P), axis=1)))
                return (f'{what}: predicted state is not finite from row {bad} on, but the iterated one-step prediction '
                        f'A theta + B upsilon is finite at every step (largest magnitude {np.max(np.abs(exp[l])):.3g})'), t, 'checked'
            if name == 'relift':
                # k-th state = one-step prediction from the previously PREDICTED states and the true inputs
                for k in range(m, Xe.shape[0]):
                    wv = window(P[k - m:k, :nx], Xe[k - m:k, nx:])
                    nxt, tol = step(_take(Ss, wv), _take(Su, wv))
                    if nxt is None:
                        return f'{what}: predicted state {k - 1} is beyond every supplied magnitude', t, 'checked'
                    if np.any(np.abs(_take(Sr, nxt) - P[k, :nx]) > tol[Sr]):
                        return (f'{what}: predicted state {k} = {P[k, :nx].tolist()} is not the one-step prediction '
                                f'{_take(Sr, nxt).tolist()} computed from states {k - m}..{k - 1} and coef_'), t, 'checked'
            # and the whole trajectory is the one iterated here from the initial conditions (the map is a contraction in
            # the maximum norm of the scaled coordinates, so rounding differences do not grow)
            bound = 1e-9 * max(np.max(np.abs(Xe[:m, :nx] / sc[:nx]), initial=0.0), np.max(np.abs(Xe[:, nx:] / sc[nx:]), initial=0.0))
            err = np.abs(P[:, :nx] - exp[l]) / sc[:nx]
            if np.any(err > bound + tiny / np.min(sc)):
                k = int(np.argmax(np.any(err > bound + tiny / np.min(sc), axis=1)))
                return (f'{what}: predicted state {k} = {P[k, :nx].tolist()} differs from the iterated one-step prediction '
                        f'{exp[l][k].tolist()}'), t, 'checked'
    # without re-lifting: theta[0] is the lifted initial window, theta[k+1] = A theta[k] + B upsilon[k], states are the
    # retraction of theta, lifted inputs are the lifting of the supplied inputs
    t = dict(tags, relift=False)
    eps_L = st.episodes(outs['lifted'], e)
    eps_n = st.episodes(outs['norelift'], e)
    for l, Xe in eps_in.items():
        what = f'no re-lifting, episode {l} ({case["mode"]} values, min_samples_={m})'
        Le = eps_L.get(l)
        if Le is None or Le.shape != (Xe.shape[0] - m + 1, pth + pup):
            return f'{what}: lifted output has shape {None if Le is None else Le.shape}, expected {(Xe.shape[0] - m + 1, pth + pup)}', t, 'checked'
        if not np.all(np.isfinite(Le)):
            return f'{what}: lifted trajectory is not finite, but A theta + B upsilon is finite at every step', t, 'checked'
        Th, Up = Le[:, :pth], Le[:, pth:]
        Pn = eps_n[l]
        wv = window(Xe[:m, :nx], Xe[:m, nx:])
        if not np.array_equal(Th[0], _take(Ss, wv)):
            return f'{what}: theta[0] is not the lifted initial window', t, 'checked'
        for k in range(Th.shape[0]):
            wv = window(Pn[k:k + m, :nx], Xe[k:k + m, nx:])
            if pup and not np.array_equal(Up[k], _take(Su, wv)):
                return f'{what}: lifted input row {k} is not the lifting of the supplied inputs', t, 'checked'
            if k and not np.array_equal(_take(Sr, Th[k]), Pn[k + m - 1, :nx]):
                return f'{what}: predicted state {k + m - 1} is not the retraction of theta[{k}]', t, 'checked'
            if k + 1 < Th.shape[0]:
                nxt, tol = step(Th[k], Up[k])
                if nxt is None or np.any(np.abs(nxt - Th[k + 1]) > tol):
                    return (f'{what}: lifted trajectory violates theta[k+1] = A theta[k] + B upsilon[k] at k={k}: '
                            f'theta[k+1] = {Th[k + 1].tolist()}, A theta[k] + B upsilon[k] = {None if nxt is None else nxt.tolist()}'), t, 'checked'
    return None, tags, 'checked'


def edge_value_probe(case):
    try:
        return edge_value_check(case)
    except Exception as ex:
        return (f'edge-valued call raised {type(ex).__name__}: {ex}', {'probe': 'edge-values', 'mode': case.get('mode'), 'raised': True},
                'checked')


def oracle(c, rng):
    try:
        return _oracle(c, rng)
    except Exception as ex:
        return f'predict / predict_trajectory raised {type(ex).__name__}: {ex}', {'raised': True}


def population_search(ctx):
    """failing-input search over a fresh population (also used when an exception raised inside the implementation
    ended the correspondence run early)"""
    for i in range(300):
        fc = gen(ctx, float_data=True)
        w, tags = oracle(fc, ctx.rng)
        if w:
            ctx.fail(w, fc, tags)
            return


def run(ctx):
    ctx.rule = ('random algebraic pipelines (poly<=2, bilinear, const, delays incl. unequal, splits) with a '
                'DataRegressor holding a small integer Koopman matrix, tagged integer data in {-1,0,1,2}; fitted '
                'with/without episode feature; call flag None/True/False; both call forms; relift on/off; all '
                'return_lifted x return_input shapes; cases whose values leave the exactly representable range are '
                'rejected; a malformed stream (wrong IC length, short inputs) compares error behaviour; scripted divergence '
                '(chosen episodes diverge at a chosen loop iteration): NaN pattern, row counts, prefix and locality vs the loop skeleton; '
                'numerical edge values on selection liftings (none, delays, delay chains, split pipelines of delays): initial '
                'conditions / inputs of 1e140..1e300 (squares overflow, values do not), subnormal / tiny values, signed zeros, a '
                'palette mixing all of them, Koopman matrices rescaled by diag(1e-150..1e150); absolute row sums of the '
                '(unscaled) matrix <= 0.9 so every true intermediate stays finite')
    ctx.explanation = ('theorems C07_* about the executable model of predict / predict_trajectory; correspondence: '
                       'the whole output matrix of predict_trajectory and predict compared exactly with the model; '
                       'oracle: iterated predict() vs predict_trajectory on float data with contractive Koopman '
                       'matrices, IC / input pass-through / row count / episode independence / lifted recursion; edge-value oracle: '
                       'the lifting structure is measured at ordinary magnitudes, A theta + B upsilon is computed here in float64 '
                       'from coef_, and with / without re-lifting the output must be finite, reproduce IC and inputs bit for bit '
                       '(signed zeros, subnormals), satisfy the one-step recursion and equal the trajectory iterated here')
    ctx.proof_obligations('Properties.C07', THEOREMS)
    drv = ctx.get_driver()
    n = ctx.n(150, 1800)
    lines, meta = [], []
    for i in range(n):
        c = gen(ctx)
        try:
            kp, K = build(c, rng=ctx.rng)
        except Exception as ex:
            ctx.count('rejected:' + st.err_enum(ex))
            continue
        malformed = i % 12 == 11
        try:
            if malformed:
                c['form'] = 2
                X0, U, e = call_args(kp, c)
                kind = ctx.rng.choice(['ic_short', 'u_short'])
                lab = X0[:, 0] if e else None
                if kind == 'ic_short':
                    X0 = X0[1:, :]
                else:
                    # keep fewer than min_samples_ input rows of the first episode
                    keep = np.ones(U.shape[0], dtype=bool)
                    first = U[0, 0] if e else 0
                    idx = [j for j in range(U.shape[0]) if (U[j, 0] if e else 0) == first]
                    for j in idx[max(0, kp.min_samples_ - 1):]:
                        keep[j] = False
                    U = U[keep]
                c['malformed'] = kind
                try:
                    out = kp.predict_trajectory(X0, U, relift_state=c['relift'], return_lifted=c['lifted'],
                                                return_input=c['inp'], episode_feature=c['call'])
                    obs = ('ok', out)
                except ValueError:
                    obs = ('err', 'ValueError')
                except Exception as ex:
                    obs = ('err', type(ex).__name__)
                toks, _ = pipes.tokens(c['spec'], kp)
                kt = f'{K.shape[0]} {K.shape[1]} ' + ' '.join(str(int(v)) for v in K.ravel())
                b = lambda v: 1 if v else 0
                if X0.shape[0] == 0 or U.shape[0] == 0:
                    continue
                line = (f"traj {b(c['relift'])} {b(c['lifted'])} {b(c['inp'])} {c['nx']} {c['nu']} {toks} {kt} 2 "
                        f"{raw_mat(X0, e)} {raw_mat(U, e)}")
            else:
                out = run_impl(kp, c)
                obs = ('ok', out)
                line, e = model_line(kp, c, K)
        except Exception as ex:
            if 'infinity' in str(ex) or 'NaN' in str(ex):
                # the integer trajectory left the floating-point range (quadratic pipelines grow doubly exponentially):
                # outside the exactly representable domain of this correspondence, and the divergence handling of the
                # code is floating-point behaviour (see C20 / F-diverge)
                ctx.count('rejected:values overflow')
                continue
            ctx.mismatch(f'predict_trajectory raised {type(ex).__name__}: {ex}', c, None, None)
            continue
        if obs[0] == 'ok' and (not np.all(np.isfinite(obs[1])) or np.max(np.abs(obs[1])) > 2 ** 50):
            ctx.count('rejected:values too large for exact comparison')
            continue
        # predict() on the same data
        Xfull = np.array(c['rows_lab'], dtype=float)
        Xfit = Xfull if c['fit_ep'] else Xfull[:, 1:]
        pr = kp.predict(Xfit)
        toks, _ = pipes.tokens(c['spec'], kp)
        kt = f'{K.shape[0]} {K.shape[1]} ' + ' '.join(str(int(v)) for v in K.ravel())
        pl = f"predict {c['nx']} {c['nu']} {toks} {kt} {raw_mat(Xfit, c['fit_ep'])}"
        lines += [line, pl]
        meta.append((c, obs, e, pr))
    replies = drv.ask(lines)
    bad = []
    for j, (c, obs, e, pr) in enumerate(meta):
        rep, rep2 = replies[2 * j], replies[2 * j + 1]
        for key in ('relift', 'lifted', 'inp'):
            if c[key]:
                ctx.count(key)
        ctx.count(f"form{c['form']}")
        ctx.count(f"call={c['call']}/fit={c['fit_ep']}")
        if 'malformed' in c:
            ctx.count('malformed:' + c['malformed'])
        if pipes.has_unequal_delay(c['spec']):
            ctx.count('unequal_delay')
        ctx.record_case({k: c[k] for k in ('spec', 'nx', 'nu', 'fit_ep', 'call', 'relift', 'lifted', 'inp', 'form')},
                        True)
        t = rep.split()
        why = None
        if obs[0] == 'err':
            if t[0] != 'err' or t[1] != obs[1]:
                why = f'impl raises {obs[1]}, model says {rep[:60]}'
        elif t[0] != 'ok':
            why = f'impl returns a matrix, model says {rep[:60]}'
        else:
            rows, _ = pipes.parse_mat(t, 1)
            why = st.cmp_int_rows(st.impl_rows(obs[1], e), rows)
        if why:
            ctx.mismatch('predict_trajectory: ' + why, c, None, None)
            bad.append(c)
        t2 = rep2.split()
        if t2[0] != 'ok':
            ctx.mismatch('predict: model says ' + rep2[:60], c, None, None)
        else:
            rows, _ = pipes.parse_mat(t2, 1)
            why = st.cmp_int_rows(st.impl_rows(pr, c['fit_ep']), rows)
            if why:
                ctx.mismatch('predict: ' + why, c, None, None)
                bad.append(c)
        if 'malformed' not in c:
            fc = dict(c)
            fc['rows_lab'] = [[r[0]] + [ctx.rng.uniform(-1, 1) for _ in r[1:]] for r in c['rows_lab']]
            w, tags = oracle(fc, ctx.rng)
            if w:
                ctx.fail(w, fc, tags)

    # the same oracle over pipelines with pre-processors / opaque kinds (the exact model above is algebraic only)
    extra = systematic_float_cases(ctx.rng) + [gen(ctx, float_data=True) for _ in range(ctx.n(25, 400))]
    for fc in extra:
        ctx.count('float oracle:' + ('systematic pre-processor placement' if fc.get('systematic') else 'random, all kinds'))
        w, tags = oracle(fc, ctx.rng)
        if w:
            ctx.fail(w, fc, tags)
    sd = [scripted_divergence_case(ctx.rng) for _ in range(ctx.n(30, 400))]
    for (line, case, got, clean, eps, marks), rep in zip(sd, drv.ask([x[0] for x in sd])):
        ctx.count('scripted divergence:' + ('relift' if case['relift'] else 'no-relift') + ('/lifted' if case['lifted'] else ''))
        ctx.count(f"scripted divergence:{len(marks)} of {len(eps)} episodes diverge")
        ctx.record_case({k: v for k, v in case.items() if k not in ('X', 'K')}, True)
        kind, why = scripted_divergence_compare(case, got, clean, eps, marks, rep)
        if kind == 'mismatch':
            ctx.mismatch('divergence bookkeeping: ' + why, case, None, rep[:80])
        elif kind == 'fail':
            ctx.fail(why, case, {'probe': 'scripted-divergence', 'relift': case['relift']})
    for _ in range(ctx.n(6, 60)):
        w, case, tags = frame_probe(ctx.rng)
        ctx.count('frame probe')
        if w:
            ctx.fail(w, case, tags)
            break
    for _ in range(ctx.n(60, 700)):
        case = edge_value_case(ctx.rng)
        w, tags, status = edge_value_probe(case)
        ctx.count('edge values:' + (status if status != 'checked' else f"{case['mode']}/{case['kind']}"))
        if status == 'checked':
            ctx.record_case({k: v for k, v in case.items() if k not in ('X', 'Xfit')}, True)
        if w:
            ctx.fail(w, case, tags)
            break
    for relift in (True, False):
        for j in range(ctx.n(4, 20)):
            w, case, tags = divergence_probe(ctx.rng, relift, which=j)
            ctx.count('divergence probe')
            if w:
                ctx.fail(w, case, tags)

    def search(ctx):
        for c in bad[:40]:
            if 'malformed' in c:
                continue
            for _ in range(3):
                fc = dict(c)
                fc['rows_lab'] = [[r[0]] + [ctx.rng.uniform(-1, 1) for _ in r[1:]] for r in c['rows_lab']]
                w, tags = oracle(fc, ctx.rng)
                if w:
                    ctx.fail(w, fc, tags)
                    return
        population_search(ctx)
    return ctx.finish('proof', search)


def replay(ctx, path):
    obj = json.load(open(path))
    case = obj.get('case') or (obj.get('first_disagreement') or {}).get('case')
    if isinstance(case, dict) and case.get('probe') == 'edge-values':
        w, tags, status = edge_value_probe(case)
        print('edge-value oracle:', w, tags, status)
        return 1 if w else 0
    w, tags = oracle(case, ctx.rng)
    print('oracle:', w, tags)
    return 1 if w else 0
