"""C20 - Skipping validation never changes results; config is per-thread."""
import asyncio
import concurrent.futures
import contextvars
import functools
import json
import queue
import sys
import threading
import time

import numpy as np

import pykoop
from .. import core, pipes, structural as st

THEOREMS = ['Pk.C20.C20_context_restores', 'Pk.C20.C20_nested_restores', 'Pk.C20.C20_context_sets',
            'Pk.C20.C20_thread_isolation', 'Pk.C20.C20_fresh_thread_default', 'Pk.C20.C20_compile_sound']
KINDS = ['poly', 'bilinear', 'const', 'delay', 'sk', 'angle', 'rbf', 'kernel']


# ------------------------------------------------------------------ config machine vs real threads

class Worker(threading.Thread):
    """executes config atoms on command, so that the main thread realises a chosen interleaving"""

    def __init__(self):
        super().__init__(daemon=True)
        self.q = queue.Queue()
        self.r = queue.Queue()
        self.cms = []

    def run(self):
        while True:
            a = self.q.get()
            if a is None:
                return
            kind, v = a
            out = None
            if kind == 'g':
                out = pykoop.get_config()['skip_validation']
            elif kind == 's':
                pykoop.set_config(skip_validation=v)
            elif kind == 'e':
                cm = pykoop.config_context(skip_validation=v)
                cm.__enter__()
                self.cms.append(cm)
            elif kind == 'x':
                if self.cms:
                    self.cms.pop().__exit__(None, None, None)
            self.r.put(out)

    def do(self, a):
        self.q.put(a)
        return self.r.get(timeout=20)


def gen_schedule(rng, n_threads, n_atoms):
    depth = [0] * n_threads
    sched = []
    for _ in range(n_atoms):
        t = rng.randrange(n_threads)
        k = rng.choice(['g', 'g', 's', 'e', 'x'])
        if k == 'x' and depth[t] == 0:
            k = 'g'
        v = rng.choice([None, True, False])
        if k == 'e':
            depth[t] += 1
        if k == 'x':
            depth[t] -= 1
        sched.append((t, k, v if k in ('s', 'e') else None))
    return sched


def vtok(v):
    return 'n' if v is None else ('1' if v else '0')


def sched_line(sched):
    parts = []
    for t, k, v in sched:
        parts.append(f'{t} {k}' + (f' {vtok(v)}' if k in ('s', 'e') else ''))
    return f'config {len(sched)} ' + ' '.join(parts)


class Inline:
    """thread 0 of a schedule is the harness's own (importing) thread: some defects only show when the thread that
    imported the package changes its setting before another thread first touches the configuration"""

    def __init__(self):
        self.cms = []

    def do(self, a):
        kind, v = a
        if kind == 'g':
            return pykoop.get_config()['skip_validation']
        if kind == 's':
            pykoop.set_config(skip_validation=v)
        elif kind == 'e':
            cm = pykoop.config_context(skip_validation=v)
            cm.__enter__()
            self.cms.append(cm)
        elif kind == 'x' and self.cms:
            self.cms.pop().__exit__(None, None, None)
        return None

    def close(self):
        while self.cms:
            self.cms.pop().__exit__(None, None, None)
        pykoop.set_config(skip_validation=False)


def run_schedule(sched, n_threads, main_is_zero=False):
    ws = [Inline() if (main_is_zero and i == 0) else Worker() for i in range(n_threads)]
    for w in ws:
        if isinstance(w, Worker):
            w.start()
    log = []
    try:
        for t, k, v in sched:
            out = ws[t].do((k, v))
            if k == 'g':
                log.append(f'{t}:{1 if out else 0}')
    finally:
        for w in ws:
            if isinstance(w, Worker):
                w.q.put(None)
            else:
                w.close()
    return log


def gen_prog(rng, depth=3, length=4):
    """structured program as nested tuples"""
    if length == 0:
        return ('k',)
    r = rng.random()
    if r < 0.3:
        return ('g', gen_prog(rng, depth, length - 1))
    if r < 0.5:
        return ('s', rng.choice([None, True, False]), gen_prog(rng, depth, length - 1))
    if r < 0.58:
        return ('r',)
    if depth > 0:
        return ('c', rng.choice([None, True, False]), gen_prog(rng, depth - 1, rng.randint(0, 3)),
                gen_prog(rng, depth, length - 1))
    return ('g', gen_prog(rng, depth, length - 1))


def prog_tokens(p):
    if p[0] == 'k':
        return 'k'
    if p[0] == 'g':
        return 'g ' + prog_tokens(p[1])
    if p[0] == 's':
        return f's {vtok(p[1])} ' + prog_tokens(p[2])
    if p[0] == 'r':
        return 'r'
    return f'c {vtok(p[1])} {prog_tokens(p[2])} {prog_tokens(p[3])}'


class Boom(Exception):
    pass


def exec_prog(p, outs):
    if p[0] == 'k':
        return
    if p[0] == 'g':
        outs.append(pykoop.get_config()['skip_validation'])
        return exec_prog(p[1], outs)
    if p[0] == 's':
        pykoop.set_config(skip_validation=p[1])
        return exec_prog(p[2], outs)
    if p[0] == 'r':
        raise Boom()
    with pykoop.config_context(skip_validation=p[1]):
        exec_prog(p[2], outs)
    return exec_prog(p[3], outs)


def run_prog_in_thread(p, start):
    res = {}

    def body():
        pykoop.set_config(skip_validation=start)
        outs = []
        raised = False
        try:
            exec_prog(p, outs)
        except Boom:
            raised = True
        res['v'] = (pykoop.get_config()['skip_validation'], raised, outs)
    th = threading.Thread(target=body)
    th.start()
    th.join(30)
    return res.get('v')


# ------------------------------------------------------------------ one context object entered many times
#
# Every public way of using a config_context object: `with` block, function decorator (contextlib decorator protocol),
# the same object entered again while it is active (decorated functions calling each other, recursion, exceptions
# inside), one object / decorated function shared by several threads.  The expected setting is computed here, by a
# plain stack discipline that does not look at the implementation: entering a block with value v saves the current
# setting and (v not None) makes v current, leaving it by any route makes the saved setting current again; a thread
# only sees what it set itself.  An implementation may refuse an entry (an object that cannot be entered again raises
# at entry): then nothing may change.

class Abort(Exception):
    """a discrepancy was found; unwinds the program (not caught by the program's own handlers)"""


_PROBE = {}


def validation_active():
    """behavioural reading of the flag: with validation on, a NaN input is rejected"""
    if 'lf' not in _PROBE:
        _PROBE['lf'] = pykoop.PolynomialLiftingFn(order=2).fit(np.array([[1.0, 2.0], [3.0, 4.0], [5.0, 6.0]]))
        _PROBE['bad'] = np.array([[1.0, np.nan]])
    try:
        with np.errstate(all='ignore'):
            _PROBE['lf'].transform(_PROBE['bad'])
    except ValueError:
        return True
    return False


def _call_a(thunk):
    return thunk()


def _call_b(thunk):
    thunk()
    return None


def gen_reprog(rng, npool, depth=4, length=5):
    """structured program over a pool of context objects, as nested lists"""
    if length == 0:
        return ['k']
    r = rng.random()

    def rest():
        return gen_reprog(rng, npool, depth, length - 1)

    def body():
        return gen_reprog(rng, npool, depth - 1, rng.randint(0, 3))
    if r < 0.20:
        return ['g', rest()]
    if r < 0.25:
        return ['v', rest()]
    if r < 0.36:
        return ['s', rng.choice([None, True, False]), rest()]
    if r < 0.42:
        return ['r']
    if depth <= 0:
        return ['g', rest()]
    if r < 0.70:
        return ['d', rng.randrange(npool), rng.randrange(2), body(), rest()]
    if r < 0.78:
        return ['n', rng.randrange(npool), rng.randint(1, 3), body(), rest()]
    if r < 0.84:
        return ['w', npool - 1, body(), rest()]       # the last pool object is used both ways
    if r < 0.92:
        return ['f', rng.choice([None, True, False]), body(), rest()]
    return ['t', body(), rest()]


class Reentry:
    """runs a program on the implementation and on the stack discipline in lockstep"""

    def __init__(self, vals, start):
        self.vals = list(vals)
        self.start = start
        self.cms = [pykoop.config_context(skip_validation=v) for v in self.vals]
        # two different functions decorated by the same object, per object
        self.fns = [[cm(_call_a), cm(_call_b)] for cm in self.cms]
        self.cur = None
        self.bad = None
        self.reads = 0
        self.refused = 0
        self.exit_errors = 0
        self.entered = 0
        self.active = [0] * len(self.vals)
        self.max_same = 0
        self.path = []

    def check(self, where):
        real = pykoop.get_config().get('skip_validation')
        self.reads += 1
        if real is not self.cur:
            self.bad = {'at': where, 'path': ' > '.join(self.path), 'expected': self.cur, 'observed': real}
            raise Abort()

    def probe(self, where):
        act = validation_active()
        self.reads += 1
        if act is not (not self.cur):
            self.bad = {'at': where + ' (NaN input ' + ('rejected' if act else 'accepted') + ')',
                        'path': ' > '.join(self.path), 'expected': self.cur, 'observed': not act}
            raise Abort()

    def _block(self, k, v, enter, inner, where):
        """one entry of a context (k: pool index or None for a fresh object); `enter(thunk)` runs thunk inside"""
        saved = self.cur
        ran = [False]

        def thunk():
            ran[0] = True
            self.entered += 1
            if k is not None:
                self.active[k] += 1
                self.max_same = max(self.max_same, self.active[k])
            if v is not None:
                self.cur = v
            self.path.append(where)
            try:
                self.check('inside ' + where)
                inner()
            finally:
                # the implementation restores right after this frame is left
                self.path.pop()
                self.cur = saved
                if k is not None:
                    self.active[k] -= 1
        try:
            enter(thunk)
        except Abort:
            raise
        except Boom:
            self.check('after ' + where + ' left by an exception')
            raise
        except Exception:
            if ran[0]:
                self.exit_errors += 1
            else:
                self.refused += 1
                self.check('after refused entry of ' + where)
                return
        self.check('after ' + where)

    def _with(self, cm):
        def enter(thunk):
            with cm:
                thunk()
        return enter

    def ex(self, p):
        while True:
            op = p[0]
            if op == 'k':
                return
            if op == 'g':
                self.check('get_config')
                p = p[1]
            elif op == 'v':
                self.probe('validation probe')
                p = p[1]
            elif op == 's':
                pykoop.set_config(skip_validation=p[1])
                if p[1] is not None:
                    self.cur = p[1]
                self.check('after set_config')
                p = p[2]
            elif op == 'r':
                raise Boom()
            elif op == 'd':
                k, j, body = p[1], p[2], p[3]
                self._block(k, self.vals[k], self.fns[k][j], lambda: self.ex(body), f'call of function {j} decorated by object {k}')
                p = p[4]
            elif op == 'n':
                k, n, body = p[1], p[2], p[3]

                def level(m):
                    if m == 0:
                        return self.ex(body)
                    self._block(k, self.vals[k], self.fns[k][0], lambda: level(m - 1),
                                f'recursive call (level {n - m + 1}) of the function decorated by object {k}')
                level(n)
                p = p[4]
            elif op == 'w':
                k, body = p[1], p[2]
                self._block(k, self.vals[k], self._with(self.cms[k]), lambda: self.ex(body), f'with-block on object {k}')
                p = p[3]
            elif op == 'f':
                v, body = p[1], p[2]
                self._block(None, v, self._with(pykoop.config_context(skip_validation=v)), lambda: self.ex(body),
                            'with-block on a fresh object')
                p = p[3]
            elif op == 't':
                try:
                    self.ex(p[1])
                except Boom:
                    self.check('in the handler of an exception raised inside')
                p = p[2]
            else:
                raise ValueError(op)

    def run(self, prog):
        pykoop.set_config(skip_validation=self.start)
        self.cur = self.start
        raised = False
        try:
            try:
                self.check('start')
                self.ex(prog)
            except Boom:
                raised = True
            self.check('after the whole program' + (' (left by an exception)' if raised else ''))
            self.probe('validation probe after the whole program')
        except Abort:
            pass
        return self.bad


def run_reprog(vals, start, prog, in_thread):
    """-> (Reentry object or None on timeout)"""
    box = {}

    def body():
        r = Reentry(vals, start)
        r.run(prog)
        box['r'] = r
    if in_thread:
        th = threading.Thread(target=body, daemon=True)
        th.start()
        th.join(30)
    else:
        try:
            body()
        finally:
            pykoop.set_config(skip_validation=False)
    return box.get('r')


class RWorker(threading.Thread):
    """executes atoms on command; decorated calls are real call frames that stay open until the 'X' / 'R' atom"""

    def __init__(self, cms, fns):
        super().__init__(daemon=True)
        self.q = queue.Queue()
        self.r = queue.Queue()
        self.cms = cms
        self.fns = fns
        self.stop = False
        self.entries = 0

    def cfg(self):
        return pykoop.get_config().get('skip_validation')

    def run(self):
        self.loop(False)

    def loop(self, inner):
        held = []
        if inner:
            self.entries += 1
            self.r.put(('ok', self.cfg()))
        while True:
            a = self.q.get()
            if a is None:
                self.stop = True
                return
            kind, arg = a
            status = 'ok'
            try:
                if kind == 's':
                    pykoop.set_config(skip_validation=arg)
                elif kind == 'v':
                    status = 'on' if validation_active() else 'off'
                elif kind == 'D':
                    n0 = self.entries
                    try:
                        self.fns[arg](self)
                    except Boom:
                        pass
                    except Exception:
                        status = 'refused' if self.entries == n0 else 'exit-error'
                    if self.stop:
                        return
                elif kind in ('W', 'F'):
                    cm = self.cms[arg] if kind == 'W' else pykoop.config_context(skip_validation=arg)
                    try:
                        cm.__enter__()
                        held.append(cm)
                    except Exception:
                        status = 'refused'
                elif kind in ('X', 'R'):
                    if held:
                        cm = held.pop()
                        if kind == 'X':
                            cm.__exit__(None, None, None)
                        else:
                            try:
                                raise Boom()
                            except Boom:
                                cm.__exit__(*sys.exc_info())
                    elif inner:
                        if kind == 'X':
                            return
                        raise Boom()
            except Boom:
                raise
            except Exception:
                status = 'exit-error'
            self.r.put((status, self.cfg()))

    def do(self, a):
        self.q.put(a)
        return self.r.get(timeout=20)


def _enter_loop(w):
    w.loop(True)


def gen_resched(rng, n_threads, npool, n_atoms, overlap=False):
    kinds = ['g', 'g', 's', 's', 'D', 'D', 'D', 'D', 'W', 'F', 'X', 'X', 'X', 'R', 'v']
    sched = []
    if overlap:
        # every thread makes its own setting, then all of them are inside a block of the same shared decorated
        # function at the same time and leave it in a random order
        k = rng.randrange(npool)
        order = list(range(n_threads))
        rng.shuffle(order)
        for t in order:
            sched.append([t, 's', rng.choice([True, False, None])])
        rng.shuffle(order)
        for t in order:
            if rng.random() < 0.3:
                sched.append([t, 'F', rng.choice([True, False, None])])
            sched.append([t, 'D', k])
            if rng.random() < 0.3:
                kk = rng.choice(['g', 's', 'D'])
                sched.append([rng.randrange(n_threads), kk,
                              rng.choice([True, False]) if kk == 's' else (k if kk == 'D' else None)])
        rng.shuffle(order)
        for t in order:
            sched.append([t, rng.choice(['X', 'X', 'R']), None])
            sched.append([t, rng.choice(['g', 'v']), None])
        n_atoms = rng.randint(0, 6)
    for _ in range(n_atoms):
        k = rng.choice(kinds)
        arg = None
        if k in ('s', 'F'):
            arg = rng.choice([None, True, False])
        elif k in ('D', 'W'):
            arg = rng.randrange(npool)
        sched.append([rng.randrange(n_threads), k, arg])
    return sched


def run_resched(vals, sched, n_threads):
    """-> (discrepancy or None, stats).  Expected values: per-thread stack discipline, nothing shared between threads."""
    cms = [pykoop.config_context(skip_validation=v) for v in vals]
    fns = [cm(_enter_loop) for cm in cms]                  # one decorated function per object, shared by all threads
    wcms = [pykoop.config_context(skip_validation=v) for v in vals]   # objects entered with __enter__ / __exit__
    ws = [RWorker(wcms, fns) for _ in range(n_threads)]
    for w in ws:
        w.start()
    cur = [False] * n_threads                               # a fresh thread starts from the default
    stack = [[] for _ in range(n_threads)]                  # (saved value, object id or None)
    stats = {'refused': 0, 'entered': 0, 'concurrent': 0, 'nested_same': 0, 'replies': 0}
    bad = None
    try:
        for i, (t, k, arg) in enumerate(sched):
            rep = ws[t].do((k, arg))
            stats['replies'] += 1
            status, got = rep
            if k == 's':
                if arg is not None:
                    cur[t] = arg
            elif k in ('D', 'W', 'F'):
                if status == 'ok':
                    oid = None if k == 'F' else (k, arg)
                    v = arg if k == 'F' else vals[arg]
                    if oid is not None:
                        if any(o == oid for u in range(n_threads) if u != t for _, o in stack[u]):
                            stats['concurrent'] += 1
                        if any(o == oid for _, o in stack[t]):
                            stats['nested_same'] += 1
                    stack[t].append((cur[t], oid))
                    stats['entered'] += 1
                    if v is not None:
                        cur[t] = v
                elif status == 'refused':
                    stats['refused'] += 1
            elif k in ('X', 'R'):
                if stack[t]:
                    cur[t] = stack[t].pop()[0]
            if k == 'v' and status != ('off' if cur[t] else 'on'):
                bad = {'atom': i, 'thread': t, 'expected': cur[t], 'observed': status == 'off',
                       'at': 'validation probe (NaN input ' + ('accepted' if status == 'off' else 'rejected') + ')'}
                break
            if got is not cur[t]:
                bad = {'atom': i, 'thread': t, 'expected': cur[t], 'observed': got, 'at': f'after atom {k} {arg}',
                       'status': status}
                break
    finally:
        for w in ws:
            w.q.put(None)
    return bad, stats


def reentry_part(ctx):
    """direct oracle (no model in between): fails with the concrete program / schedule"""
    validation_active()                                     # fitted once, here, before any thread uses it
    for i in range(ctx.n(150, 1500)):
        npool = ctx.rng.randint(1, 3)
        vals = [ctx.rng.choice([None, True, False, True, False]) for _ in range(npool)]
        start = ctx.rng.random() < 0.5
        prog = gen_reprog(ctx.rng, npool)
        in_thread = (i % 2 == 1)
        r = run_reprog(vals, start, prog, in_thread)
        case = {'reentry_prog': prog, 'pool': vals, 'start': start, 'thread': 'worker' if in_thread else 'main'}
        ctx.record_case(case, True)
        ctx.count('reentry:programs')
        if r is None:
            ctx.fail('a program of config_context blocks did not finish within 30 s', case, {'part': 'config'})
            continue
        ctx.count('reentry:settings_compared', r.reads)
        ctx.count('reentry:blocks_entered', r.entered)
        ctx.count('reentry:refused_entries', r.refused)
        if r.exit_errors:
            ctx.count('reentry:exit_errors', r.exit_errors)
        if r.max_same >= 2:
            ctx.count('reentry:same_object_active_twice')
        if r.bad is not None:
            ctx.fail(f"config_context used as with-block / decorator, also re-entered while active: {r.bad['at']}: "
                     f"skip_validation is {r.bad['observed']}, the setting of this thread at this point is "
                     f"{r.bad['expected']} (previous setting not restored on exit)",
                     dict(case, **r.bad), {'part': 'config', 'route': 'reentry'})
    for i in range(ctx.n(80, 800)):
        nt = ctx.rng.randint(2, 3)
        npool = ctx.rng.randint(1, 2)
        vals = [ctx.rng.choice([None, True, False, True, False]) for _ in range(npool)]
        sched = gen_resched(ctx.rng, nt, npool, ctx.rng.randint(8, 22 if ctx.tier == 'quick' else 40),
                            overlap=(i % 3 == 0))
        bad, stats = run_resched(vals, sched, nt)
        case = {'reentry_schedule': sched, 'pool': vals, 'threads': nt}
        ctx.record_case(case, True)
        ctx.count('reentry:schedules')
        ctx.count('reentry:settings_compared', stats['replies'])
        ctx.count('reentry:blocks_entered', stats['entered'])
        ctx.count('reentry:refused_entries', stats['refused'])
        if stats['concurrent']:
            ctx.count('reentry:object_active_in_two_threads')
        if stats['nested_same']:
            ctx.count('reentry:same_object_active_twice')
        if bad is not None:
            ctx.fail(f"one config_context object / decorated function shared by {nt} threads: thread {bad['thread']} "
                     f"{bad['at']}: skip_validation is {bad['observed']}, the setting this thread made itself is "
                     f"{bad['expected']} (a thread got another thread's setting, or an exit did not restore)",
                     dict(case, **bad), {'part': 'config', 'route': 'reentry-threads'})


# ------------------------------------------------------------------ every way of starting a thread
#
# "Per thread" must hold for every way a program can get a second thread, not only for `threading.Thread(target=f)`:
# thread pools (whose threads are re-used by later work), and all the routes that run the worker inside a COPY of the
# starter's `contextvars` context - `asyncio.to_thread`, `loop.run_in_executor(None, copy_context().run, f)` (the
# wrapper anyio / starlette use), `threading.Thread(target=copy_context().run, args=(f,))`, `pool.submit(copy_context()
# .run, f)` - started by a thread that has (or has not yet) used the configuration itself, from plain code or from
# inside a coroutine of a running event loop, by the importing thread or by a worker, to any depth.  The starter and its
# workers then execute a stepped schedule of config atoms; expected values are computed here by the plain rule "a
# thread only sees what was set in that very thread" (per-thread save/restore stack; a thread that never ran anything
# starts from the default False; work that runs on a re-used pool thread starts from what earlier work left in that
# thread).  Nothing of the implementation is consulted for the expected values.

SPAWN_MODES = ['thread', 'pool', 'ctx_thread', 'ctx_pool', 'to_thread', 'loop_executor']
SPAWN_BODIES = ['sync', 'sync', 'aio']
MAX_AGENTS = 5


def probe_unique_episodes():
    """behavioural reading of the flag through an episode utility: a fractional episode feature is rejected"""
    try:
        pykoop.unique_episodes(np.array([0.0, 0.5, 1.0]))
    except ValueError:
        return True
    return False


def probe_pipeline():
    """behavioural reading of the flag through a fitted pipeline: a NaN sample is rejected by transform"""
    if 'kp' not in _PROBE:
        rs = np.random.RandomState(7)
        X = rs.uniform(-1, 1, (12, 2))
        _PROBE['kp'] = pykoop.KoopmanPipeline(lifting_functions=[('p', pykoop.PolynomialLiftingFn(order=2))],
                                              regressor=pykoop.Edmd()).fit(X)
        Xb = X.copy()
        Xb[3, 1] = np.nan
        _PROBE['kp_bad'] = Xb
    try:
        with np.errstate(all='ignore'):
            _PROBE['kp'].transform(_PROBE['kp_bad'])
    except ValueError:
        return True
    return False


PROBES = {'v': (validation_active, 'lifting function transform, NaN input'),
          'u': (probe_unique_episodes, 'unique_episodes, fractional episode feature'),
          'k': (probe_pipeline, 'KoopmanPipeline.transform, NaN sample')}


class SAgent:
    """one thread of a spawn schedule: executes atoms on command (also the atoms that start / end further threads)"""

    def __init__(self, ident, body):
        self.id = ident
        self.body = body                  # 'inline' (the harness thread), 'sync', 'aio' (inside asyncio.run)
        self.q = queue.Queue()
        self.r = queue.Queue()
        self.started = threading.Event()
        self.done = threading.Event()
        self.thread_obj = None
        self.held = []
        self.kids = {}
        self.loop = None
        self.pool = None
        self.error = None

    # -- the thread body
    def serve(self):
        self.thread_obj = threading.current_thread()
        self.started.set()
        try:
            if self.body == 'aio':
                asyncio.run(self._aserve())
            else:
                self._serve()
        except BaseException as ex:     # reported through the missing reply
            self.error = repr(ex)
        finally:
            self.done.set()

    def _next(self):
        try:
            return self.q.get(timeout=60)
        except queue.Empty:
            return None

    def _serve(self):
        try:
            while True:
                a = self._next()
                if a is None:
                    return
                self.r.put(self.step(a))
        finally:
            self.cleanup()

    async def _aserve(self):
        try:
            while True:
                a = self._next()        # blocks the loop of this thread only; its workers run in executor threads
                if a is None:
                    return
                if self._is_aio_op(a):
                    try:
                        status = await self._aio_op(a)
                    except Exception as ex:
                        status = 'error:' + type(ex).__name__
                    self.r.put((status, pykoop.get_config().get('skip_validation')))
                else:
                    self.r.put(self.step(a))
        finally:
            futs = [h for how, h in self.kids.values() if how == 'aio']
            if futs:
                await asyncio.wait(futs, timeout=10)
            self.cleanup()

    def cleanup(self):
        """a thread that ends leaves its open blocks in order"""
        while self.held:
            try:
                self.held.pop().__exit__(None, None, None)
            except Exception:
                pass
        if self.pool is not None:
            self.pool.shutdown(wait=False)
        if self.loop is not None:
            try:
                futs = [h for how, h in self.kids.values() if how == 'aio']
                if futs:
                    self.loop.run_until_complete(asyncio.wait(futs, timeout=10))
                self.loop.close()
            except Exception:
                pass
            self.loop = None

    # -- atoms
    def _is_aio_op(self, a):
        kind, arg = a
        if kind == 'P':
            return arg[0] in ('to_thread', 'loop_executor')
        if kind == 'J':
            return self.kids.get(arg.id, ('', None))[0] == 'aio'
        return False

    async def _aio_op(self, a):
        kind, arg = a
        loop = asyncio.get_running_loop()
        if kind == 'P':
            mode, child = arg
            if mode == 'to_thread':
                fut = asyncio.ensure_future(asyncio.to_thread(child.serve))
            else:
                fut = loop.run_in_executor(None, functools.partial(contextvars.copy_context().run, child.serve))
            self.kids[child.id] = ('aio', fut)
            end = time.monotonic() + 15
            while not child.started.is_set() and time.monotonic() < end:
                await asyncio.sleep(0.001)
            return 'ok' if child.started.is_set() else 'nostart'
        child = arg
        child.q.put(None)
        fut = self.kids.pop(child.id)[1]
        try:
            await asyncio.wait_for(fut, 20)
        except asyncio.TimeoutError:
            return 'nojoin'
        return 'ok'

    def _sync_op(self, a):
        kind, arg = a
        if kind == 'P':
            mode, child = arg
            if mode in ('pool', 'ctx_pool') and self.pool is None:
                self.pool = concurrent.futures.ThreadPoolExecutor(max_workers=MAX_AGENTS)
            if mode == 'thread':
                h = threading.Thread(target=child.serve, daemon=True)
                h.start()
            elif mode == 'ctx_thread':
                h = threading.Thread(target=contextvars.copy_context().run, args=(child.serve, ), daemon=True)
                h.start()
            elif mode == 'pool':
                h = self.pool.submit(child.serve)
            elif mode == 'ctx_pool':
                h = self.pool.submit(contextvars.copy_context().run, child.serve)
            else:
                raise ValueError(mode)
            self.kids[child.id] = ('thread' if isinstance(h, threading.Thread) else 'cf', h)
            return 'ok' if child.started.wait(15) else 'nostart'
        child = arg
        child.q.put(None)
        how, h = self.kids.pop(child.id)
        if how == 'thread':
            h.join(20)
            return 'nojoin' if h.is_alive() else 'ok'
        try:
            h.result(timeout=20)
        except concurrent.futures.TimeoutError:
            return 'nojoin'
        return 'ok'

    def step(self, a):
        kind, arg = a
        status = 'ok'
        try:
            if kind == 's':
                pykoop.set_config(skip_validation=arg)
            elif kind in PROBES:
                status = 'on' if PROBES[kind][0]() else 'off'
            elif kind == 'E':
                cm = pykoop.config_context(skip_validation=arg)
                cm.__enter__()
                self.held.append(cm)
            elif kind in ('X', 'R'):
                if self.held:
                    cm = self.held.pop()
                    if kind == 'X':
                        cm.__exit__(None, None, None)
                    else:
                        try:
                            raise Boom()
                        except Boom:
                            cm.__exit__(*sys.exc_info())
            elif kind in ('P', 'J'):
                if self._is_aio_op(a):
                    # plain code that owns an event loop and runs it only to start / await its workers
                    if self.loop is None:
                        self.loop = asyncio.new_event_loop()
                    status = self.loop.run_until_complete(self._aio_op(a))
                else:
                    status = self._sync_op(a)
        except Exception as ex:
            status = 'error:' + type(ex).__name__
        return status, pykoop.get_config().get('skip_validation')

    def do(self, a):
        if self.body == 'inline':
            return self.step(a)
        self.q.put(a)
        return self.r.get(timeout=45)


def gen_spawn_sched(rng, n_atoms, directed=False):
    """atoms [agent, kind, arg]; 'P' [mode, body] starts the next agent from `agent`, 'J' c ends agent c (a leaf) and
    waits for it in its starter"""
    kinds = ['g', 'g', 's', 's', 's', 'E', 'E', 'X', 'X', 'R', 'v', 'u', 'k', 'P', 'P', 'J']
    alive, parent, nkids, nxt = [0], {}, {0: 0}, 1
    sched = []

    def spawn(t):
        nonlocal nxt
        sched.append([t, 'P', [rng.choice(SPAWN_MODES), rng.choice(SPAWN_BODIES)]])
        alive.append(nxt)
        parent[nxt] = t
        nkids[nxt] = 0
        nkids[t] += 1
        nxt += 1

    def setting():
        return rng.choice([True, True, False, None])
    # the starter has (usually) used the configuration before it starts its first worker
    for _ in range(rng.choice([0, 1, 1, 2, 3])):
        k = rng.choice(['g', 's', 'E', 'v', 'k'])
        sched.append([0, k, setting() if k in ('s', 'E') else None])
    spawn(0)
    if directed:
        # both directions while the two overlap: the worker changes its setting and the starter reads / computes, the
        # worker goes back, the starter changes its setting and the worker reads / computes
        a, b = (0, 1) if rng.random() < 0.5 else (1, 0)
        for x, y in ((a, b), (b, a)):
            k = rng.choice(['s', 'E'])
            sched.append([x, k, True])
            sched.append([y, rng.choice(['g', 'v', 'u', 'k']), None])
            sched.append([x, 'X', None] if k == 'E' else [x, 's', False])
            if rng.random() < 0.5:
                sched.append([y, rng.choice(['g', 'v', 'u', 'k']), None])
    for _ in range(n_atoms):
        t = rng.choice(alive)
        k = rng.choice(kinds)
        if k == 'P':
            if nxt >= MAX_AGENTS:
                k = 's'
            else:
                spawn(t)
                continue
        if k == 'J':
            leaves = [c for c in alive if c != 0 and nkids[c] == 0]
            if not leaves:
                k = 'g'
            else:
                c = rng.choice(leaves)
                sched.append([parent[c], 'J', c])
                alive.remove(c)
                nkids[parent[c]] -= 1
                # what the starter reads / computes after its worker has ended
                sched.append([parent[c], rng.choice(['g', 'v', 'u', 'k']), None])
                continue
        sched.append([t, k, setting() if k in ('s', 'E') else None])
    return sched


def run_spawn(sched, root):
    """-> (discrepancy or None, stats).  root: 'inline' (the harness thread is agent 0), 'sync' or 'aio' (agent 0 is a
    plain thread started by the harness)"""
    agents = {0: SAgent(0, root)}
    how = {0: 'the harness thread' if root == 'inline' else 'plain thread' + (' running asyncio.run' if root == 'aio' else '')}
    parent = {}
    stats = {'replies': 0, 'modes': [], 'ended': 0, 'reused': 0, 'aborted': None, 'agents': 1, 'aio_worker': 0,
             'from_coroutine': 0, 'from_worker': 0}
    keep = []                                               # thread objects stay referenced: their id() is a key
    left = {}                                               # id(thread object) -> setting left behind in that thread
    root_thread = None
    if root == 'inline':
        pykoop.set_config(skip_validation=False)
        agents[0].thread_obj = threading.current_thread()
    else:
        root_thread = threading.Thread(target=agents[0].serve, daemon=True)
        root_thread.start()
        agents[0].started.wait(15)
    cur = {0: False}
    stack = {0: []}
    alive = [0]
    bad = None

    def describe(t):
        return f'thread {t} ({how[t]}' + (f', started by thread {parent[t]}' if t in parent else '') + ')'
    todo = [list(a) for a in sched]
    i = -1
    try:
        while True:
            i += 1
            if i >= len(todo):
                # every worker that still runs is ended by its starter (leaf first), and the starter reads again
                rest = [c for c in alive if c != 0]
                if not rest:
                    break
                todo.append([parent[max(rest)], 'J', max(rest)])
            t, k, arg = todo[i]
            if t not in alive:
                stats['aborted'] = f'atom {i} addresses a thread that is not running'
                break
            a = (k, arg)
            child = None
            if k == 'P':
                child = SAgent(len(agents), arg[1])
                a = ('P', (arg[0], child))
            elif k == 'J':
                if arg not in alive or parent.get(arg) != t:
                    stats['aborted'] = f'atom {i} ends a thread that this thread did not start'
                    break
                a = ('J', agents[arg])
            try:
                status, got = agents[t].do(a)
            except queue.Empty:
                stats['aborted'] = f'no reply to atom {i} ({agents[t].error})'
                break
            stats['replies'] += 1
            if status in ('nostart', 'nojoin') or status.startswith('error:'):
                stats['aborted'] = f'atom {i} {k}: {status}'
                break
            if k == 's':
                if arg is not None:
                    cur[t] = arg
            elif k == 'E':
                stack[t].append(cur[t])
                if arg is not None:
                    cur[t] = arg
            elif k in ('X', 'R'):
                if stack[t]:
                    cur[t] = stack[t].pop()
            elif k == 'P':
                c = child.id
                agents[c] = child
                parent[c] = t
                alive.append(c)
                how[c] = arg[0] + (' running asyncio.run' if arg[1] == 'aio' else '')
                stats['modes'].append(arg[0])
                stats['aio_worker'] += 1 if arg[1] == 'aio' else 0
                stats['from_coroutine'] += 1 if agents[t].body == 'aio' else 0
                stats['from_worker'] += 1 if t != 0 else 0
                stats['agents'] += 1
                keep.append(child.thread_obj)
                key = id(child.thread_obj)
                if key in left:
                    stats['reused'] += 1                    # work on a re-used pool thread: same thread, same setting
                cur[c] = left.get(key, False)
                stack[c] = []
            elif k == 'J':
                c = arg
                alive.remove(c)
                stats['ended'] += 1
                # the ending thread left its open blocks in order
                left[id(agents[c].thread_obj)] = stack[c][0] if stack[c] else cur[c]
            if k in PROBES and status != ('off' if cur[t] else 'on'):
                bad = {'atom': i, 'thread': t, 'expected': cur[t], 'observed': status == 'off',
                       'at': f'computation ({PROBES[k][1]}: ' + ('accepted' if status == 'off' else 'rejected') + ')'}
            elif got is not cur[t]:
                bad = {'atom': i, 'thread': t, 'expected': cur[t], 'observed': got,
                       'at': ('(closing the schedule) ' if i >= len(sched) else '') + 'get_config after ' + {'P': f'starting thread {len(agents) - 1}',
                                                    'J': f'thread {arg} has ended'}.get(k, f'atom {k} {arg}')}
            if bad is not None:
                bad['threads'] = '; '.join(describe(u) for u in sorted(agents))
                break
    finally:
        # leaf first; nobody waits long here
        for c in sorted(agents, reverse=True):
            if c in alive and c != 0:
                agents[c].q.put(None)
        if root == 'inline':
            agents[0].cleanup()
            pykoop.set_config(skip_validation=False)
        else:
            agents[0].q.put(None)
        for c in sorted(agents, reverse=True):
            if c != 0 or root != 'inline':
                agents[c].done.wait(5 if (bad or stats['aborted']) else 20)
    return bad, stats


def spawn_part(ctx):
    """direct oracle: fails with the concrete schedule"""
    validation_active()
    probe_pipeline()                                        # fitted once, here, before any thread uses it
    for i in range(ctx.n(70, 700)):
        sched = gen_spawn_sched(ctx.rng, ctx.rng.randint(6, 18 if ctx.tier == 'quick' else 36), directed=(i % 3 == 0))
        root = ['inline', 'sync', 'inline', 'aio'][i % 4]
        bad, stats = run_spawn(sched, root)
        case = {'spawn_schedule': sched, 'root': root}
        ctx.record_case(case, True)
        ctx.count('spawn:schedules')
        ctx.count('spawn:settings_compared', stats['replies'])
        ctx.count('spawn:workers_ended_then_starter_read', stats['ended'])
        for m in stats['modes']:
            ctx.count('spawn:start:' + m)
        ctx.count('spawn:worker_runs_an_event_loop', stats['aio_worker'])
        ctx.count('spawn:started_from_a_coroutine', stats['from_coroutine'])
        ctx.count('spawn:started_by_a_worker', stats['from_worker'])
        if stats['reused']:
            ctx.count('spawn:work_on_reused_pool_thread', stats['reused'])
        if stats['aborted']:
            ctx.count('spawn:aborted')
            ctx.notes.append('spawn schedule aborted: ' + str(stats['aborted']))
        if bad is not None:
            ctx.fail(f"threads started in every way (plain, pool, inside a copy of the starter's contextvars context: "
                     f"asyncio.to_thread, run_in_executor, copy_context().run): thread {bad['thread']} {bad['at']}: "
                     f"skip_validation is {bad['observed']}, the setting made in this very thread is {bad['expected']} "
                     f"(a change made in another thread is observed) [{bad['threads']}]",
                     dict(case, **bad), {'part': 'config', 'route': 'spawn'})


# ------------------------------------------------------------------ flag irrelevance

def computations(case, est, kp, K):
    """every public computation on the case's data, as a list of (name, array)"""
    X = st.X_of(case)
    ep, nu = case['ep'], case['nu']
    out = []
    Xt = est.transform(X)
    out.append(('transform', Xt))
    out.append(('inverse_transform', est.inverse_transform(Xt)))
    out.append(('lift', est.lift(X)))
    out.append(('lift_state', est.lift_state(X[:, :X.shape[1] - nu])))
    out.append(('lift_input', est.lift_input(X)))
    un, sh = pykoop.shift_episodes(X, n_inputs=nu, episode_feature=ep)
    out += [('shift_un', un), ('shift_sh', sh)]
    out.append(('extract_ic', pykoop.extract_initial_conditions(X, est.min_samples_, nu, ep)))
    out.append(('extract_input', pykoop.extract_input(X, nu, ep)))
    out.append(('strip_ic', pykoop.strip_initial_conditions(X, est.min_samples_, ep)))
    out.append(('split_combine', pykoop.combine_episodes(pykoop.split_episodes(X, ep), ep)))
    if kp is not None:
        out.append(('predict', kp.predict(X)))
        out.append(('predict_trajectory', kp.predict_trajectory(X)))
        out.append(('predict_trajectory_norelift', kp.predict_trajectory(X, relift_state=False)))
    return out


def flag_case(ctx, overflow=False):
    c = st.gen_case(ctx.rng, KINDS, max_depth=2, cap=25, opaque=True)
    return c


def check_flag(ctx, c, big=False):
    """returns (failure description or None, tags, nonfinite seen)"""
    if ctx.rng.random() < 0.35:
        # implementation against itself: any valid form of the data will do, also genuinely single / half precision
        c = dict(c, form=ctx.rng.choice(['float32!', 'float32!', 'float16!', 'fortran', 'strided', 'readonly']))
    try:
        est = st.fit_case(c)
    except Exception:
        return None, None, False
    kp = None
    if c['spec']['k'] == 'pipe':
        rs = np.random.RandomState(ctx.rng.randint(0, 2 ** 31 - 1))
        pth, pup = est.n_states_out_, est.n_inputs_out_
        K = rs.uniform(-1, 1, (pth, pth + pup)) * (30.0 if big else 0.3)
        kp = pykoop.KoopmanPipeline(
            lifting_functions=[(f'p{j}', pipes.build(s)) for j, s in enumerate(c['spec']['ss'])] or None,
            regressor=pykoop.DataRegressor(coef=K.T))
        try:
            kp.fit(st.X_of(c), n_inputs=c['nu'], episode_feature=c['ep'])
        except Exception:
            kp = None
    res = {}
    for flag in (False, True):
        with pykoop.config_context(skip_validation=flag):
            try:
                res[flag] = computations(c, est, kp, None)
            except Exception as ex:
                res[flag] = ('raised', type(ex).__name__, str(ex)[:100])
    a, b = res[False], res[True]
    if isinstance(a, tuple) or isinstance(b, tuple):
        if isinstance(a, tuple) and not isinstance(b, tuple):
            return None, None, False     # validation rejected the input: not a valid input, out of the property's domain
        if isinstance(b, tuple) and not isinstance(a, tuple):
            # which validated computation already shows a diverged (NaN-filled) prediction?  then this is the divergence
            # class (finding F-diverge): validation is what detects the overflow, without it a later stage raises
            nf = [n for n, A in a if not np.all(np.isfinite(A))]
            if nf:
                comp = 'predict_trajectory' if nf[0].startswith('predict_trajectory') else nf[0]
                return (f'{comp}: a diverging prediction is NaN-filled with validation and raises with skip_validation=True: {b}',
                        {'nonfinite': True, 'computation': comp}, True)
            return f'raises only with skip_validation=True: {b}', {'nonfinite': False}, False
        return None, None, False
    nonfinite = False
    for (n1, A), (n2, B) in zip(a, b):
        fin = np.all(np.isfinite(A)) and np.all(np.isfinite(B))
        nonfinite = nonfinite or not fin
        if A.shape != B.shape or np.asarray(A).dtype != np.asarray(B).dtype or not np.array_equal(A, B, equal_nan=True):
            return (f'{n1}: results differ between skip_validation=False and True',
                    {'nonfinite': not fin, 'computation': n1}, nonfinite)
    return None, None, nonfinite


def diverge_probe(rng):
    """order-3 polynomial pipeline with a large Koopman matrix: the prediction overflows after a few steps"""
    rs = np.random.RandomState(rng.randint(0, 2 ** 31 - 1))
    n = 40
    X = np.hstack((rs.uniform(-1, 1, (n, 2)), rs.uniform(-1, 1, (n, 1))))
    kp0 = pykoop.KoopmanPipeline(lifting_functions=[('p', pykoop.PolynomialLiftingFn(order=3))],
                                 regressor=pykoop.DataRegressor())
    kp0.fit(X, n_inputs=1)
    pth, pup = kp0.n_states_out_, kp0.n_inputs_out_
    K = rs.uniform(-1, 1, (pth, pth + pup)) * 50.0
    kp = pykoop.KoopmanPipeline(lifting_functions=[('p', pykoop.PolynomialLiftingFn(order=3))],
                                regressor=pykoop.DataRegressor(coef=K.T))
    kp.fit(X, n_inputs=1)
    out = {}
    for flag in (False, True):
        with pykoop.config_context(skip_validation=flag):
            try:
                with np.errstate(all='ignore'):
                    out[flag] = kp.predict_trajectory(X)
            except Exception as ex:
                out[flag] = None
    a, b = out[False], out[True]
    case = {'probe': 'divergence', 'X': X.tolist(), 'K_scale': 50.0}
    if a is None or b is None:
        if (a is None) != (b is None):
            return ('predict_trajectory raises under only one skip_validation setting on a diverging prediction',
                    {'nonfinite': True, 'computation': 'predict_trajectory'}, case)
        return None, None, case
    fin = bool(np.all(np.isfinite(a)) and np.all(np.isfinite(b)))
    if not np.array_equal(a, b, equal_nan=True):
        return ('predict_trajectory: results differ between skip_validation=False and True once the prediction '
                'becomes non-finite (divergence is detected through validation errors)',
                {'nonfinite': not fin, 'computation': 'predict_trajectory'}, case)
    return None, {'nonfinite': not fin}, case


def population_search(ctx):
    """failing-input search over a fresh population (also used when an exception raised inside the implementation
    ended the correspondence run early)"""
    for i in range(300):
        c = flag_case(ctx)
        why, tags, nf = check_flag(ctx, c)
        if why:
            ctx.fail(why, c, tags)
            return


def run(ctx):
    ctx.rule = ('(a) random schedules of get/set/enter/exit atoms over 1..3 real threads, stepped deterministically so '
                'that the chosen interleaving is realised, and random structured programs with nested with-blocks and '
                'exceptions: every get_config() value compared with the config machine; (b) random fitted pipelines of '
                'all kinds: every public computation run with skip_validation off and on must be bit-identical, and '
                'transform / round trip under skip_validation=True are compared with the Lean model as well; '
                '(c) one config_context OBJECT used in every public way - with-block, function decorator (two functions '
                'decorated by the same object calling each other, recursion), entered again while it is active, left by '
                'exceptions caught further out, mixed with set_config and fresh blocks, in the importing thread and in '
                'worker threads - and one object / decorated function shared by 2..3 threads under a stepped '
                'interleaving (a block stays open in one thread while another enters / leaves the same object): after '
                'every step get_config() (and, at probes, whether a NaN input is rejected) must equal the setting given '
                'by a plain per-thread save/restore stack computed by the harness; an entry the implementation refuses '
                '(an object that cannot be entered again) must leave the setting unchanged; (d) every way of getting '
                'a second thread: threading.Thread, thread-pool work (also on a re-used pool thread), and workers that '
                'run inside a COPY of the starter\'s contextvars context - asyncio.to_thread, loop.run_in_executor(None, '
                'copy_context().run, f), Thread(target=copy_context().run), pool.submit(copy_context().run, f) - started '
                'by the importing thread or by a worker, from plain code or from a coroutine of a running event loop, '
                'before or after the starter has used the configuration, workers starting further workers: starter and '
                'workers execute a stepped schedule of set_config / config_context enter / exit (normal, by exception) '
                'atoms; after every atom get_config() in the acting thread, and at probes three computations '
                '(lifting-function transform and KoopmanPipeline.transform of a NaN sample, unique_episodes of a '
                'fractional episode feature: rejected iff validation is on), must show the setting made in that very '
                'thread - in both directions, while the threads overlap, and in the starter after a worker has ended '
                '(every worker is ended by its starter, which then reads again)')
    ctx.explanation = ('theorems C20_* about the config machine (context restore incl. exceptions, thread isolation for '
                       'every interleaving, fresh-thread default, compile soundness); correspondence with real threads; '
                       'flag irrelevance is a correspondence/oracle result under the guard that all values stay finite; '
                       'the machine has one saved value per ENTRY of a block - that the implementation keeps it per '
                       'entry and not per context object (re-entry through the decorator protocol, sharing between '
                       'threads) is a direct oracle on the implementation (coverage keys reentry:*); the machine '
                       'identifies a thread by its index - that the implementation keys its store by the THREAD and '
                       'not by something a new thread can inherit from its starter (a copied contextvars context, as '
                       'made by asyncio.to_thread / run_in_executor wrappers) is a direct oracle as well (coverage keys '
                       'spawn:*; expected values from a per-thread save/restore stack kept by the harness, a never-used '
                       'thread starts from the default, work on a re-used pool thread from what was left in that thread)')
    ctx.proof_obligations('Properties.C20', THEOREMS)
    drv = ctx.get_driver()
    lines, meta = [], []
    for i in range(ctx.n(60, 600)):
        nt = ctx.rng.randint(1, 3)
        sched = gen_schedule(ctx.rng, nt, ctx.rng.randint(4, 14 if ctx.tier == 'quick' else 30))
        log = run_schedule(sched, nt, main_is_zero=(i % 2 == 0))
        lines.append(sched_line(sched))
        meta.append(('sched', sched, log))
    for i in range(ctx.n(60, 600)):
        p = gen_prog(ctx.rng)
        start = ctx.rng.random() < 0.5
        v = run_prog_in_thread(p, start)
        lines.append(f'cprog {1 if start else 0} ' + prog_tokens(p))
        meta.append(('prog', [start, p], v))
    # model comparison under skip_validation=True
    vcases = []
    for i in range(ctx.n(40, 500)):
        c = st.gen_case(ctx.rng, KINDS, max_depth=2, cap=30, opaque=(i % 2 == 0))
        try:
            est = st.fit_case(c)
            with pykoop.config_context(skip_validation=True):
                Xt = est.transform(st.X_of(c))
                Xr = est.inverse_transform(Xt)
        except Exception as ex:
            ctx.count('rejected:' + st.err_enum(ex))
            continue
        l1, cells, reg = st.value_line('tr', c, est)
        l2, _, _ = st.value_line('rt', c, est)
        lines += [l1, l2]
        meta.append(('tr', c, (Xt, cells, reg, est)))
        meta.append(('rt', c, (Xr, cells, reg, est)))
    replies = drv.ask(lines)
    for (kind, c, obs), rep in zip(meta, replies):
        ctx.count('obs:' + kind)
        if kind == 'sched':
            ctx.record_case({'schedule': [list(x) for x in c]}, True)
            got = rep.split()[1:]
            if rep.split()[0] != 'ok' or got != obs:
                ctx.mismatch('get_config values along the schedule', {'schedule': [list(x) for x in c]}, obs, got)
                ctx.fail('config observed by real threads differs from the per-thread machine '
                         '(a thread saw a setting it did not make, or a context did not restore)',
                         {'schedule': [list(x) for x in c], 'impl': obs, 'model': got}, {'part': 'config'})
        elif kind == 'prog':
            ctx.record_case({'start': c[0], 'prog': prog_tokens(c[1])}, True)
            t = rep.split()
            want = (t[1] == '1', t[2] == '1', [x == '1' for x in t[3:]]) if t[0] == 'ok' else None
            if obs is None or want is None or (obs[0], obs[1], list(obs[2])) != (want[0], want[1], want[2]):
                ctx.mismatch('structured config program', {'start': c[0], 'prog': prog_tokens(c[1])},
                             None if obs is None else [obs[0], obs[1], list(obs[2])], rep)
                # direct statement: a program that only uses with-blocks must end where it started
                ctx.fail('config_context / set_config program ends in a state the machine does not predict',
                         {'start': c[0], 'prog': prog_tokens(c[1]), 'impl': str(obs), 'model': rep}, {'part': 'config'})
        else:
            A, cells, reg, est_c = obs
            st.count_dist(ctx, c)
            ctx.record_case({k: c[k] for k in ('spec', 'nx', 'nu', 'ep')}, True)

            def same_call(Z, est_c=est_c, kind=kind):
                with pykoop.config_context(skip_validation=True):
                    T = est_c.transform(Z)
                    return T if kind == 'tr' else est_c.inverse_transform(T)
            why = st.compare_values_guarded(A, rep, c, cells, reg, same_call, count=ctx.count)
            if why:
                ctx.mismatch(f'{kind} under skip_validation=True: {why}', c, None, None)
    n_nonfinite = 0
    for i in range(ctx.n(80, 900)):
        c = flag_case(ctx)
        why, tags, nf = check_flag(ctx, c, big=(i % 8 == 7))
        n_nonfinite += 1 if nf else 0
        ctx.record_case({k: c[k] for k in ('spec', 'nx', 'nu', 'ep')}, True)
        ctx.count('flag_pairs')
        if why:
            ctx.fail(why, c, tags)
    # deliberate divergence probes: valid finite inputs whose *prediction* overflows
    for i in range(ctx.n(3, 12)):
        why, tags, case = diverge_probe(ctx.rng)
        n_nonfinite += 1 if tags and tags.get('nonfinite') else 0
        if why:
            ctx.fail(why, case, tags)
    ctx.extra['nonfinite_cases_seen'] = n_nonfinite
    # every public way of using one config_context object (with / decorator / re-entered while active / shared by threads)
    reentry_part(ctx)
    # every way of getting a second thread (plain / pool / copy of the starter's contextvars context / asyncio)
    spawn_part(ctx)

    def search(ctx):

        population_search(ctx)
    return ctx.finish('proof', search)


def replay(ctx, path):
    obj = json.load(open(path))
    print(json.dumps(obj, indent=1)[:3000])
    case = obj.get('case') if isinstance(obj, dict) else None
    if isinstance(case, dict) and 'reentry_prog' in case:
        r = run_reprog(case['pool'], case['start'], case['reentry_prog'], case.get('thread') == 'worker')
        print('re-run:', 'no result' if r is None else (r.bad or 'settings as expected'))
        return 1 if (r is None or r.bad) else 0
    if isinstance(case, dict) and 'spawn_schedule' in case:
        validation_active()
        probe_pipeline()
        bad, stats = run_spawn(case['spawn_schedule'], case['root'])
        print('re-run:', bad or stats['aborted'] or 'settings as expected')
        return 1 if bad else 0
    if isinstance(case, dict) and 'reentry_schedule' in case:
        bad, _ = run_resched(case['pool'], [tuple(a) for a in case['reentry_schedule']], case['threads'])
        print('re-run:', bad or 'settings as expected')
        return 1 if bad else 0
    return 1
