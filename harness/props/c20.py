"""C20 - Skipping validation never changes results; config is per-thread."""
import json
import queue
import threading

import numpy as np

import pykoop
from .. import core, pipes, structural as st

THEOREMS = ['Pk.C20.C20_context_restores', 'Pk.C20.C20_nested_restores', 'Pk.C20.C20_context_sets',
            'Pk.C20.C20_thread_isolation', 'Pk.C20.C20_fresh_thread_default', 'Pk.C20.C20_compile_sound']
KINDS = ['poly', 'bilinear', 'const', 'delay', 'sk', 'angle', 'rbf', 'kernel']


# ------------------------------------------------------------------ config machine vs real threads

class Worker(threading.Thread):
    """executes config atoms on command, so that the main thread realises a chosen interleaving"""

    def __init__(self):
        super().__init__(daemon=True)
        self.q = queue.Queue()
        self.r = queue.Queue()
        self.cms = []

    def run(self):
        while True:
            a = self.q.get()
            if a is None:
                return
            kind, v = a
            out = None
            if kind == 'g':
                out = pykoop.get_config()['skip_validation']
            elif kind == 's':
                pykoop.set_config(skip_validation=v)
            elif kind == 'e':
                cm = pykoop.config_context(skip_validation=v)
                cm.__enter__()
                self.cms.append(cm)
            elif kind == 'x':
                if self.cms:
                    self.cms.pop().__exit__(None, None, None)
            self.r.put(out)

    def do(self, a):
        self.q.put(a)
        return self.r.get(timeout=20)


def gen_schedule(rng, n_threads, n_atoms):
    depth = [0] * n_threads
    sched = []
    for _ in range(n_atoms):
        t = rng.randrange(n_threads)
        k = rng.choice(['g', 'g', 's', 'e', 'x'])
        if k == 'x' and depth[t] == 0:
            k = 'g'
        v = rng.choice([None, True, False])
        if k == 'e':
            depth[t] += 1
        if k == 'x':
            depth[t] -= 1
        sched.append((t, k, v if k in ('s', 'e') else None))
    return sched


def vtok(v):
    return 'n' if v is None else ('1' if v else '0')


def sched_line(sched):
    parts = []
    for t, k, v in sched:
        parts.append(f'{t} {k}' + (f' {vtok(v)}' if k in ('s', 'e') else ''))
    return f'config {len(sched)} ' + ' '.join(parts)


class Inline:
    """thread 0 of a schedule is the harness's own (importing) thread: some defects only show when the thread that
    imported the package changes its setting before another thread first touches the configuration"""

    def __init__(self):
        self.cms = []

    def do(self, a):
        kind, v = a
        if kind == 'g':
            return pykoop.get_config()['skip_validation']
        if kind == 's':
            pykoop.set_config(skip_validation=v)
        elif kind == 'e':
            cm = pykoop.config_context(skip_validation=v)
            cm.__enter__()
            self.cms.append(cm)
        elif kind == 'x' and self.cms:
            self.cms.pop().__exit__(None, None, None)
        return None

    def close(self):
        while self.cms:
            self.cms.pop().__exit__(None, None, None)
        pykoop.set_config(skip_validation=False)


def run_schedule(sched, n_threads, main_is_zero=False):
    ws = [Inline() if (main_is_zero and i == 0) else Worker() for i in range(n_threads)]
    for w in ws:
        if isinstance(w, Worker):
            w.start()
    log = []
    try:
        for t, k, v in sched:
            out = ws[t].do((k, v))
            if k == 'g':
                log.append(f'{t}:{1 if out else 0}')
    finally:
        for w in ws:
            if isinstance(w, Worker):
                w.q.put(None)
            else:
                w.close()
    return log


def gen_prog(rng, depth=3, length=4):
    """structured program as nested tuples"""
    if length == 0:
        return ('k',)
    r = rng.random()
    if r < 0.3:
        return ('g', gen_prog(rng, depth, length - 1))
    if r < 0.5:
        return ('s', rng.choice([None, True, False]), gen_prog(rng, depth, length - 1))
    if r < 0.58:
        return ('r',)
    if depth > 0:
        return ('c', rng.choice([None, True, False]), gen_prog(rng, depth - 1, rng.randint(0, 3)),
                gen_prog(rng, depth, length - 1))
    return ('g', gen_prog(rng, depth, length - 1))


def prog_tokens(p):
    if p[0] == 'k':
        return 'k'
    if p[0] == 'g':
        return 'g ' + prog_tokens(p[1])
    if p[0] == 's':
        return f's {vtok(p[1])} ' + prog_tokens(p[2])
    if p[0] == 'r':
        return 'r'
    return f'c {vtok(p[1])} {prog_tokens(p[2])} {prog_tokens(p[3])}'


class Boom(Exception):
    pass


def exec_prog(p, outs):
    if p[0] == 'k':
        return
    if p[0] == 'g':
        outs.append(pykoop.get_config()['skip_validation'])
        return exec_prog(p[1], outs)
    if p[0] == 's':
        pykoop.set_config(skip_validation=p[1])
        return exec_prog(p[2], outs)
    if p[0] == 'r':
        raise Boom()
    with pykoop.config_context(skip_validation=p[1]):
        exec_prog(p[2], outs)
    return exec_prog(p[3], outs)


def run_prog_in_thread(p, start):
    res = {}

    def body():
        pykoop.set_config(skip_validation=start)
        outs = []
        raised = False
        try:
            exec_prog(p, outs)
        except Boom:
            raised = True
        res['v'] = (pykoop.get_config()['skip_validation'], raised, outs)
    th = threading.Thread(target=body)
    th.start()
    th.join(30)
    return res.get('v')


# ------------------------------------------------------------------ flag irrelevance

def computations(case, est, kp, K):
    """every public computation on the case's data, as a list of (name, array)"""
    X = st.X_of(case)
    ep, nu = case['ep'], case['nu']
    out = []
    Xt = est.transform(X)
    out.append(('transform', Xt))
    out.append(('inverse_transform', est.inverse_transform(Xt)))
    out.append(('lift', est.lift(X)))
    out.append(('lift_state', est.lift_state(X[:, :X.shape[1] - nu])))
    out.append(('lift_input', est.lift_input(X)))
    un, sh = pykoop.shift_episodes(X, n_inputs=nu, episode_feature=ep)
    out += [('shift_un', un), ('shift_sh', sh)]
    out.append(('extract_ic', pykoop.extract_initial_conditions(X, est.min_samples_, nu, ep)))
    out.append(('extract_input', pykoop.extract_input(X, nu, ep)))
    out.append(('strip_ic', pykoop.strip_initial_conditions(X, est.min_samples_, ep)))
    out.append(('split_combine', pykoop.combine_episodes(pykoop.split_episodes(X, ep), ep)))
    if kp is not None:
        out.append(('predict', kp.predict(X)))
        out.append(('predict_trajectory', kp.predict_trajectory(X)))
        out.append(('predict_trajectory_norelift', kp.predict_trajectory(X, relift_state=False)))
    return out


def flag_case(ctx, overflow=False):
    c = st.gen_case(ctx.rng, KINDS, max_depth=2, cap=25, opaque=True)
    return c


def check_flag(ctx, c, big=False):
    """returns (failure description or None, tags, nonfinite seen)"""
    if ctx.rng.random() < 0.35:
        # implementation against itself: any valid form of the data will do, also genuinely single / half precision
        c = dict(c, form=ctx.rng.choice(['float32!', 'float32!', 'float16!', 'fortran', 'strided', 'readonly']))
    try:
        est = st.fit_case(c)
    except Exception:
        return None, None, False
    kp = None
    if c['spec']['k'] == 'pipe':
        rs = np.random.RandomState(ctx.rng.randint(0, 2 ** 31 - 1))
        pth, pup = est.n_states_out_, est.n_inputs_out_
        K = rs.uniform(-1, 1, (pth, pth + pup)) * (30.0 if big else 0.3)
        kp = pykoop.KoopmanPipeline(
            lifting_functions=[(f'p{j}', pipes.build(s)) for j, s in enumerate(c['spec']['ss'])] or None,
            regressor=pykoop.DataRegressor(coef=K.T))
        try:
            kp.fit(st.X_of(c), n_inputs=c['nu'], episode_feature=c['ep'])
        except Exception:
            kp = None
    res = {}
    for flag in (False, True):
        with pykoop.config_context(skip_validation=flag):
            try:
                res[flag] = computations(c, est, kp, None)
            except Exception as ex:
                res[flag] = ('raised', type(ex).__name__, str(ex)[:100])
    a, b = res[False], res[True]
    if isinstance(a, tuple) or isinstance(b, tuple):
        if isinstance(a, tuple) and not isinstance(b, tuple):
            return None, None, False     # validation rejected the input: not a valid input, out of the property's domain
        if isinstance(b, tuple) and not isinstance(a, tuple):
            # which validated computation already shows a diverged (NaN-filled) prediction?  then this is the divergence
            # class (finding F-diverge): validation is what detects the overflow, without it a later stage raises
            nf = [n for n, A in a if not np.all(np.isfinite(A))]
            if nf:
                comp = 'predict_trajectory' if nf[0].startswith('predict_trajectory') else nf[0]
                return (f'{comp}: a diverging prediction is NaN-filled with validation and raises with skip_validation=True: {b}',
                        {'nonfinite': True, 'computation': comp}, True)
            return f'raises only with skip_validation=True: {b}', {'nonfinite': False}, False
        return None, None, False
    nonfinite = False
    for (n1, A), (n2, B) in zip(a, b):
        fin = np.all(np.isfinite(A)) and np.all(np.isfinite(B))
        nonfinite = nonfinite or not fin
        if A.shape != B.shape or np.asarray(A).dtype != np.asarray(B).dtype or not np.array_equal(A, B, equal_nan=True):
            return (f'{n1}: results differ between skip_validation=False and True',
                    {'nonfinite': not fin, 'computation': n1}, nonfinite)
    return None, None, nonfinite


def diverge_probe(rng):
    """order-3 polynomial pipeline with a large Koopman matrix: the prediction overflows after a few steps"""
    rs = np.random.RandomState(rng.randint(0, 2 ** 31 - 1))
    n = 40
    X = np.hstack((rs.uniform(-1, 1, (n, 2)), rs.uniform(-1, 1, (n, 1))))
    kp0 = pykoop.KoopmanPipeline(lifting_functions=[('p', pykoop.PolynomialLiftingFn(order=3))],
                                 regressor=pykoop.DataRegressor())
    kp0.fit(X, n_inputs=1)
    pth, pup = kp0.n_states_out_, kp0.n_inputs_out_
    K = rs.uniform(-1, 1, (pth, pth + pup)) * 50.0
    kp = pykoop.KoopmanPipeline(lifting_functions=[('p', pykoop.PolynomialLiftingFn(order=3))],
                                regressor=pykoop.DataRegressor(coef=K.T))
    kp.fit(X, n_inputs=1)
    out = {}
    for flag in (False, True):
        with pykoop.config_context(skip_validation=flag):
            try:
                with np.errstate(all='ignore'):
                    out[flag] = kp.predict_trajectory(X)
            except Exception as ex:
                out[flag] = None
    a, b = out[False], out[True]
    case = {'probe': 'divergence', 'X': X.tolist(), 'K_scale': 50.0}
    if a is None or b is None:
        if (a is None) != (b is None):
            return ('predict_trajectory raises under only one skip_validation setting on a diverging prediction',
                    {'nonfinite': True, 'computation': 'predict_trajectory'}, case)
        return None, None, case
    fin = bool(np.all(np.isfinite(a)) and np.all(np.isfinite(b)))
    if not np.array_equal(a, b, equal_nan=True):
        return ('predict_trajectory: results differ between skip_validation=False and True once the prediction '
                'becomes non-finite (divergence is detected through validation errors)',
                {'nonfinite': not fin, 'computation': 'predict_trajectory'}, case)
    return None, {'nonfinite': not fin}, case


def population_search(ctx):
    """failing-input search over a fresh population (also used when an exception raised inside the implementation
    ended the correspondence run early)"""
    for i in range(300):
        c = flag_case(ctx)
        why, tags, nf = check_flag(ctx, c)
        if why:
            ctx.fail(why, c, tags)
            return


def run(ctx):
    ctx.rule = ('(a) random schedules of get/set/enter/exit atoms over 1..3 real threads, stepped deterministically so '
                'that the chosen interleaving is realised, and random structured programs with nested with-blocks and '
                'exceptions: every get_config() value compared with the config machine; (b) random fitted pipelines of '
                'all kinds: every public computation run with skip_validation off and on must be bit-identical, and '
                'transform / round trip under skip_validation=True are compared with the Lean model as well')
    ctx.explanation = ('theorems C20_* about the config machine (context restore incl. exceptions, thread isolation for '
                       'every interleaving, fresh-thread default, compile soundness); correspondence with real threads; '
                       'flag irrelevance is a correspondence/oracle result under the guard that all values stay finite')
    ctx.proof_obligations('Properties.C20', THEOREMS)
    drv = ctx.get_driver()
    lines, meta = [], []
    for i in range(ctx.n(60, 600)):
        nt = ctx.rng.randint(1, 3)
        sched = gen_schedule(ctx.rng, nt, ctx.rng.randint(4, 14 if ctx.tier == 'quick' else 30))
        log = run_schedule(sched, nt, main_is_zero=(i % 2 == 0))
        lines.append(sched_line(sched))
        meta.append(('sched', sched, log))
    for i in range(ctx.n(60, 600)):
        p = gen_prog(ctx.rng)
        start = ctx.rng.random() < 0.5
        v = run_prog_in_thread(p, start)
        lines.append(f'cprog {1 if start else 0} ' + prog_tokens(p))
        meta.append(('prog', [start, p], v))
    # model comparison under skip_validation=True
    vcases = []
    for i in range(ctx.n(40, 500)):
        c = st.gen_case(ctx.rng, KINDS, max_depth=2, cap=30, opaque=(i % 2 == 0))
        try:
            est = st.fit_case(c)
            with pykoop.config_context(skip_validation=True):
                Xt = est.transform(st.X_of(c))
                Xr = est.inverse_transform(Xt)
        except Exception as ex:
            ctx.count('rejected:' + st.err_enum(ex))
            continue
        l1, cells, reg = st.value_line('tr', c, est)
        l2, _, _ = st.value_line('rt', c, est)
        lines += [l1, l2]
        meta.append(('tr', c, (Xt, cells, reg)))
        meta.append(('rt', c, (Xr, cells, reg)))
    replies = drv.ask(lines)
    for (kind, c, obs), rep in zip(meta, replies):
        ctx.count('obs:' + kind)
        if kind == 'sched':
            ctx.record_case({'schedule': [list(x) for x in c]}, True)
            got = rep.split()[1:]
            if rep.split()[0] != 'ok' or got != obs:
                ctx.mismatch('get_config values along the schedule', {'schedule': [list(x) for x in c]}, obs, got)
                ctx.fail('config observed by real threads differs from the per-thread machine '
                         '(a thread saw a setting it did not make, or a context did not restore)',
                         {'schedule': [list(x) for x in c], 'impl': obs, 'model': got}, {'part': 'config'})
        elif kind == 'prog':
            ctx.record_case({'start': c[0], 'prog': prog_tokens(c[1])}, True)
            t = rep.split()
            want = (t[1] == '1', t[2] == '1', [x == '1' for x in t[3:]]) if t[0] == 'ok' else None
            if obs is None or want is None or (obs[0], obs[1], list(obs[2])) != (want[0], want[1], want[2]):
                ctx.mismatch('structured config program', {'start': c[0], 'prog': prog_tokens(c[1])},
                             None if obs is None else [obs[0], obs[1], list(obs[2])], rep)
                # direct statement: a program that only uses with-blocks must end where it started
                ctx.fail('config_context / set_config program ends in a state the machine does not predict',
                         {'start': c[0], 'prog': prog_tokens(c[1]), 'impl': str(obs), 'model': rep}, {'part': 'config'})
        else:
            A, cells, reg = obs
            st.count_dist(ctx, c)
            ctx.record_case({k: c[k] for k in ('spec', 'nx', 'nu', 'ep')}, True)
            why = st.compare_values(A, rep, c, cells, reg)
            if why:
                ctx.mismatch(f'{kind} under skip_validation=True: {why}', c, None, None)
    n_nonfinite = 0
    for i in range(ctx.n(80, 900)):
        c = flag_case(ctx)
        why, tags, nf = check_flag(ctx, c, big=(i % 8 == 7))
        n_nonfinite += 1 if nf else 0
        ctx.record_case({k: c[k] for k in ('spec', 'nx', 'nu', 'ep')}, True)
        ctx.count('flag_pairs')
        if why:
            ctx.fail(why, c, tags)
    # deliberate divergence probes: valid finite inputs whose *prediction* overflows
    for i in range(ctx.n(3, 12)):
        why, tags, case = diverge_probe(ctx.rng)
        n_nonfinite += 1 if tags and tags.get('nonfinite') else 0
        if why:
            ctx.fail(why, case, tags)
    ctx.extra['nonfinite_cases_seen'] = n_nonfinite

    def search(ctx):

        population_search(ctx)
    return ctx.finish('proof', search)


def replay(ctx, path):
    obj = json.load(open(path))
    print(json.dumps(obj, indent=1)[:3000])
    return 1
