"""C05 - Regressors train on exactly the within-episode consecutive pairs."""
import json

import numpy as np

import pykoop
import pykoop.lmi_regressors
from .. import core, pipes, structural as st

THEOREMS = ['Pk.C05.C05_pairs', 'Pk.C05.C05_count', 'Pk.C05.C05_consecutive', 'Pk.C05.C05_aligned',
            'Pk.C05.C05_shifted_has_no_inputs', 'Pk.C05.C05_explicit_eq', 'Pk.C05.C05_relabel',
            'Pk.C05.C05_relabel_perm', 'Pk.C05.C05_gram_perm']
ALG = ['poly', 'bilinear', 'const', 'delay']


class Recorder(pykoop.KoopmanRegressor):
    """records exactly what reaches _fit_regressor"""

    def __init__(self, sink=None):
        self.sink = sink

    def _fit_regressor(self, X_unshifted, X_shifted):
        rec.append((np.array(X_unshifted), np.array(X_shifted)))
        return np.zeros((X_unshifted.shape[1], X_shifted.shape[1]))

    def _validate_parameters(self):
        pass


rec = []


def gen(ctx, bare):
    rng = ctx.rng
    if bare:
        nx, nu = rng.randint(1, 3), rng.choice([0, 1, 2])
        ep = rng.random() < 0.75
        # lengths include 1 and 2
        # (one case in twelve: many episodes - 17 or 24 - with gapped labels, beyond any small-count fast path)
        eps, order = pipes.gen_layout(rng, 1, extra=4, ep=ep, n_eps=(rng.choice([17, 24]) if ep and rng.random() < 0.08 else None))
        rows = pipes.tagged_matrix(rng, order, nx + nu, 2, 60)
        if not ep:
            rows = [r[1:] for r in rows]
        if len(rows) < 2:
            rows = rows + rows
        return {'spec': None, 'nx': nx, 'nu': nu, 'ep': ep, 'rows': rows, 'min_len': 1}
    c = st.gen_case(rng, ALG, max_depth=2, cap=25, extra=3)
    return c


def regressors(rng, nu, thorough):
    alpha = rng.choice([0, 0.1, 1.0])
    out = [('Edmd', lambda: pykoop.Edmd(alpha=alpha)),
           ('EdmdMeta', lambda: pykoop.EdmdMeta()),
           ('Dmdc', lambda: pykoop.Dmdc()),
           ('DataRegressor', lambda: pykoop.DataRegressor())]
    if nu == 0:
        out.append(('Dmd', lambda: pykoop.Dmd()))
    if thorough:
        out.append(('LmiEdmd', lambda: pykoop.lmi_regressors.LmiEdmd(alpha=0.1, solver_params={'solver': 'cvxopt'})))
    return out


def relayout(rng, X, ep):
    """same episodes, new labels (order-preserving or not) and a new block order"""
    if not ep:
        return X
    eps = st.ref_split(X, True)
    labels = rng.sample(range(0, 20), len(eps))
    blocks = [(l, Xe) for l, (_, Xe) in zip(labels, eps)]
    rng.shuffle(blocks)
    return st.ref_combine(blocks, True)


def oracle(case, rng, thorough=False):
    try:
        return _oracle(case, rng, thorough)
    except Exception as ex:
        return f'shift_episodes / fit raised {type(ex).__name__}: {ex}', {'raised': True}


class _Rec(pykoop.KoopmanRegressor):
    """records what reaches the concrete solver"""

    def _fit_regressor(self, X_unshifted, X_shifted):
        self.seen_ = (np.array(X_unshifted), np.array(X_shifted))
        return np.zeros((X_unshifted.shape[1], X_shifted.shape[1]))

    def _validate_parameters(self):
        pass


def _pairs_on(X, nx, nu, ep):
    """direct statement of the property on one matrix: pairs produced by shift_episodes / seen by a regressor vs the
    independent per-label reference (compared as multisets per label, since only the pairing matters)"""
    X = np.asarray(X, dtype=float)
    ref_u = np.vstack([Xe[:-1] for _, Xe in st.ref_split(X, ep)] or [np.zeros((0, nx + nu))])
    ref_s = np.vstack([Xe[1:, :nx] for _, Xe in st.ref_split(X, ep)] or [np.zeros((0, nx))])
    ref = sorted(map(tuple, np.hstack((ref_u, ref_s)).tolist()))
    if not ref:
        return None
    e = 1 if ep else 0
    Xu, Xs = pykoop.shift_episodes(X, n_inputs=nu, episode_feature=ep)
    got = sorted(map(tuple, np.hstack((Xu[:, e:], Xs[:, e:])).tolist())) if Xu.shape[0] == Xs.shape[0] else None
    if got != ref:
        return ('shift_episodes(X) does not return exactly the within-episode consecutive pairs of X '
                '(a pair straddles two episodes, is dropped or duplicated)')
    r = _Rec().fit(X, n_inputs=nu, episode_feature=ep)
    su, ss = r.seen_
    got = sorted(map(tuple, np.hstack((su, ss)).tolist())) if su.shape[0] == ss.shape[0] else None
    if got != ref:
        return 'the pairs a regressor hands to its solver are not the within-episode consecutive pairs of X'
    return None


def _pipeline_routes(case):
    """a regressor at the end of a pipeline, through fit AND through fit_transform: the pairs reaching the solver are the
    within-episode consecutive pairs of the pipeline's own lifted data, shifted side = lifted states only"""
    spec = case['spec'] if case['spec']['k'] == 'pipe' else {'k': 'pipe', 'ss': [case['spec']]}
    X = st.X_of(case)
    ep, nu = case['ep'], case['nu']
    for route in ('fit', 'fit_transform'):
        kp = pykoop.KoopmanPipeline(
            lifting_functions=[(f'p{j}', pipes.build(s)) for j, s in enumerate(spec['ss'])] or None, regressor=_Rec())
        try:
            getattr(kp, route)(X, n_inputs=nu, episode_feature=ep)
        except Exception:
            return None
        if not hasattr(kp.regressor_, 'seen_'):
            return None
        Xt = kp.transform(X)
        pth = kp.n_states_out_
        ref_u = np.vstack([Xe[:-1] for _, Xe in st.ref_split(Xt, ep)] or [np.zeros((0, Xt.shape[1]))])
        ref_s = np.vstack([Xe[1:, :pth] for _, Xe in st.ref_split(Xt, ep)] or [np.zeros((0, pth))])
        su, ss = kp.regressor_.seen_
        if su.shape != ref_u.shape or ss.shape != ref_s.shape:
            return (f'KoopmanPipeline.{route}: the regressor receives matrices of shape {su.shape} / {ss.shape}, the '
                    f'within-episode pairs of the lifted data have shape {ref_u.shape} / {ref_s.shape} '
                    f'(shifted side = the {pth} lifted states only)')
        ref = sorted(map(tuple, np.hstack((ref_u, ref_s)).tolist()))
        got = sorted(map(tuple, np.hstack((su, ss)).tolist()))
        if got != ref:
            return f'KoopmanPipeline.{route}: the pairs reaching the regressor are not the within-episode consecutive pairs of the lifted data'
    return None



# ----------------------------------------------------------------------------- the caller's array re-used as a buffer

BUF_ROUTES = ['split', 'shift', 'rec_new', 'rec_same', 'reg_new', 'reg_same', 'pipe_new', 'pipe_same', 'pipe_reg', 'pipe_poly']


def _partition(labels):
    d = {}
    for i, l in enumerate(labels):
        d.setdefault(l, []).append(i)
    return sorted(map(tuple, d.values()))


def _buf_labels(rng, n):
    """an episode column for n rows: 1..5 episodes of any lengths >= 1, contiguous ascending or arbitrary labels,
    blocks in any label order or interleaved rows"""
    k = rng.randint(1, min(5, n // 2))
    cuts = sorted(rng.sample(range(1, n), k - 1))
    lens = [b - a for a, b in zip([0] + cuts, cuts + [n])]
    labels = list(range(k)) if rng.random() < 0.5 else rng.sample(range(0, 20), k)
    if rng.random() < 0.75:
        return [l for l, m in zip(labels, lens) for _ in range(m)]
    left = dict(zip(labels, lens))
    col = []
    while len(col) < n:
        l = rng.choice([l for l in labels if left[l] > 0])
        col.append(l)
        left[l] -= 1
    return col


def gen_buffer(rng):
    """a HISTORY on one array object: contents of the same shape written into it in place, one after the other (only the
    episode column, only the data, or everything), and after each rewrite the array is handed to pykoop again"""
    nx, nu = rng.randint(1, 3), rng.choice([0, 1, 2])
    ep = rng.random() < 0.85
    w = nx + nu
    n = rng.randint(max(3 * w + 4, w + 8), 30)
    data = lambda: [[rng.uniform(-1, 1) for _ in range(w)] for _ in range(n)]
    cur_l, cur_d = (_buf_labels(rng, n) if ep else None), data()
    stages = []
    for s in range(rng.randint(2, 4)):
        kind = 'all' if s == 0 else rng.choice(['labels', 'labels', 'all', 'data'] if ep else ['data'])
        if s > 0 and kind in ('labels', 'all'):
            force = rng.random() < 0.85      # the partition into episodes changes (else possibly a pure relabelling)
            for _ in range(20):
                new_l = _buf_labels(rng, n)
                if not force or _partition(new_l) != _partition(cur_l):
                    break
            cur_l = new_l
        if s > 0 and kind in ('data', 'all'):
            cur_d = data()
        rows = [([float(l)] if ep else []) + list(d) for l, d in zip(cur_l or [0] * n, cur_d)]
        routes = rng.sample(BUF_ROUTES, rng.randint(1, 4))
        stages.append({'kind': kind, 'rows': rows, 'routes': routes})
    names = ['Edmd', 'EdmdMeta', 'Dmdc', 'DataRegressor'] + (['Dmd'] if nu == 0 else [])
    return {'spec': None, 'nx': nx, 'nu': nu, 'ep': ep, 'rows': stages[0]['rows'], 'min_len': 1,
            'buffer': {'stages': stages, 'mem': rng.choice(['C', 'C', 'F', 'view']), 'reg': rng.choice(names),
                       'alpha': rng.choice([0, 0.1, 1.0])}}


def _ref_pairs(C, nx, ep):
    """within-episode consecutive pairs of the matrix C, straight from the definition (no pykoop): per label in
    ascending order, rows of that label in matrix order, (row k, states of row k+1); label column kept iff ep"""
    e = 1 if ep else 0
    labs = [C[i, 0] for i in range(C.shape[0])] if ep else [0.0] * C.shape[0]
    U, S = [], []
    for l in sorted(set(labs)):
        idx = [i for i in range(C.shape[0]) if labs[i] == l]
        for a, b in zip(idx[:-1], idx[1:]):
            U.append(C[a, :])
            S.append(C[b, :e + nx])
    return (np.array(U).reshape(len(U), C.shape[1]), np.array(S).reshape(len(S), e + nx))


def _bag(U, S):
    return sorted(map(tuple, np.hstack((U, S)).tolist())) if U.shape[0] == S.shape[0] else None


def _mk_reg(name, alpha, thorough_lmi=False):
    if name == 'Edmd':
        return pykoop.Edmd(alpha=alpha)
    if name == 'EdmdMeta':
        return pykoop.EdmdMeta()
    if name == 'Dmdc':
        return pykoop.Dmdc()
    if name == 'Dmd':
        return pykoop.Dmd()
    if name == 'LmiEdmd':
        return pykoop.lmi_regressors.LmiEdmd(alpha=0.1, solver_params={'solver': 'cvxopt'})
    return pykoop.DataRegressor()


def _buffer_oracle(case, thorough=False):
    """the training pairs are those of the CURRENT contents of the matrix passed in: one ndarray object is rewritten in
    place between calls and handed to split_episodes / shift_episodes / regressors (same or new objects) / pipelines again.
    During the history only that one array is given to pykoop; expected values are computed afterwards from copies of the
    contents, without pykoop (explicit-pair fits for coef_ are done on fresh arrays at the very end)."""
    b = case['buffer']
    nx, nu, ep = case['nx'], case['nu'], case['ep']
    e = 1 if ep else 0
    n, wd = len(case['rows']), len(case['rows'][0])
    if b['mem'] == 'F':
        B = np.empty((n, wd), order='F')
    elif b['mem'] == 'view':
        B = np.full((n + 4, wd + 1), 3.0)[2:2 + n, :wd]
    else:
        B = np.empty((n, wd))
    reg_name = 'LmiEdmd' if thorough else b['reg']
    kept = {}
    obs = []         # (stage index, route, observed value)
    contents = []
    for si, stg in enumerate(b['stages']):
        new = np.array(stg['rows'], dtype=float)
        if stg['kind'] == 'labels':
            B[:, 0] = new[:, 0]
        elif stg['kind'] == 'data':
            B[:, e:] = new[:, e:]
        else:
            B[:] = new
        contents.append(np.array(B, order='C', copy=True))
        for route in stg['routes']:
            if route == 'split':
                val = [(l, np.array(Xe)) for l, Xe in pykoop.split_episodes(B, episode_feature=ep)]
            elif route == 'shift':
                Xu, Xs = pykoop.shift_episodes(B, n_inputs=nu, episode_feature=ep)
                val = (np.array(Xu), np.array(Xs))
            elif route in ('rec_new', 'rec_same'):
                r = kept.setdefault('rec', _Rec()) if route == 'rec_same' else _Rec()
                r.fit(B, n_inputs=nu, episode_feature=ep)
                val = r.seen_
            elif route in ('reg_new', 'reg_same'):
                try:
                    r = kept.setdefault('reg', _mk_reg(reg_name, b['alpha'])) if route == 'reg_same' else _mk_reg(reg_name, b['alpha'])
                    val = np.array(r.fit(B, n_inputs=nu, episode_feature=ep).coef_)
                except Exception:
                    continue
            elif route in ('pipe_new', 'pipe_same'):
                mk = lambda: pykoop.KoopmanPipeline(lifting_functions=None, regressor=_Rec())
                kp = kept.setdefault('pipe', mk()) if route == 'pipe_same' else mk()
                kp.fit(B, n_inputs=nu, episode_feature=ep)
                val = kp.regressor_.seen_
            elif route == 'pipe_reg':
                try:
                    kp = pykoop.KoopmanPipeline(lifting_functions=None, regressor=_mk_reg(reg_name, b['alpha']))
                    val = np.array(kp.fit(B, n_inputs=nu, episode_feature=ep).regressor_.coef_)
                except Exception:
                    continue
            else:
                kp = pykoop.KoopmanPipeline(lifting_functions=[('p', pykoop.PolynomialLiftingFn(order=2))], regressor=_Rec())
                kp.fit(B, n_inputs=nu, episode_feature=ep)
                val = (kp, kp.regressor_.seen_)
            obs.append((si, route, val))
    # -- the history is over; compare with the definition applied to the contents the array had at each call
    for si, route, val in obs:
        C = contents[si]
        stg = b['stages'][si]
        tags = {'buffer_reuse': True, 'route': route, 'rewrite': stg['kind'], 'stage': si}
        hist = (f"call {si + 1} on the same ndarray object" + (f" (after its {'episode column' if stg['kind'] == 'labels' else 'data columns' if stg['kind'] == 'data' else 'whole contents'}"
                                                                f" had been rewritten in place)" if si else ''))
        U, S = _ref_pairs(C, nx, ep)
        if route == 'split':
            labs = sorted(set(C[:, 0].tolist())) if ep else [0.0]
            got = {float(l): Xe for l, Xe in val}
            if len(val) != len(got) or sorted(got) != labs:
                return (f'{hist}: split_episodes returns episodes {[float(l) for l, _ in val]}, the episode column now holds {labs}'), tags
            for l in labs:
                if not np.array_equal(got[l], C[C[:, 0] == l][:, 1:] if ep else C):
                    return f'{hist}: split_episodes: episode {l:g} is not the rows the array now carries under that label', tags
        elif route == 'shift':
            Xu, Xs = val
            if Xs.shape[1] != e + nx or _bag(Xu, Xs) != _bag(U, S):
                return (f'{hist}: shift_episodes does not return exactly the within-episode consecutive pairs of the '
                        f'array\'s CURRENT contents (a pair straddles two current episodes, is dropped or duplicated)'), tags
        elif route in ('rec_new', 'rec_same', 'pipe_new', 'pipe_same'):
            who = {'rec_new': 'a new regressor', 'rec_same': 'the same regressor fitted again',
                   'pipe_new': 'a new KoopmanPipeline without lifting functions',
                   'pipe_same': 'the same KoopmanPipeline (no lifting functions) fitted again'}[route]
            su, ss = val
            if ss.shape[1] != nx or _bag(su, ss) != _bag(U[:, e:], S[:, e:]):
                return (f'{hist}: {who} hands its solver pairs that are not the within-episode consecutive pairs of the '
                        f'array\'s CURRENT contents'), tags
        elif route == 'pipe_poly':
            kp, (su, ss) = val
            Xt = np.asarray(kp.transform(C.copy()), dtype=float)
            Ut, St = _ref_pairs(Xt, kp.n_states_out_, ep)
            if ss.shape[1] != kp.n_states_out_ or _bag(su, ss) != _bag(Ut[:, e:], St[:, e:]):
                return (f'{hist}: the regressor at the end of a KoopmanPipeline (polynomial lifting) receives pairs that are '
                        f'not the within-episode consecutive pairs of the lifted CURRENT contents'), tags
        else:
            if np.linalg.cond(U[:, e:]) > 1e3:
                continue
            try:
                ref = _mk_reg(reg_name, b['alpha']).fit(U.copy(), S.copy(), n_inputs=nu, episode_feature=ep).coef_
            except Exception:
                continue
            tags['regressor'] = reg_name
            tol = (1e-6 if reg_name.startswith('Lmi') else 1e-8) * max(1.0, np.max(np.abs(ref)))
            if val.shape != ref.shape or not np.max(np.abs(val - ref)) <= tol:
                who = {'reg_new': 'a new regressor', 'reg_same': 'the same regressor fitted again',
                       'pipe_reg': 'a new KoopmanPipeline without lifting functions'}[route]
                return (f'{hist}: {reg_name} ({who}): coef_ of fit(X) differs from the fit on the explicitly supplied '
                        f'within-episode consecutive pairs of the array\'s CURRENT contents'), tags
    return None, None


def _oracle(case, rng, thorough=False):
    """coef_ of fit(X) == fit(Xu, Xs) == fit(relabelled / reordered X), on well-conditioned float data"""
    if case.get('buffer'):
        return _buffer_oracle(case, thorough)
    nx, nu, ep = case['nx'], case['nu'], case['ep']
    e = 1 if ep else 0
    rs = np.random.RandomState(rng.randint(0, 2 ** 31 - 1))
    X = st.X_of(case).copy()
    # (0) the case's OWN matrix (its exact episode lengths and layout): shift_episodes and the arguments a bare
    # regressor hands to its solver must be the within-episode consecutive pairs
    w0 = _pairs_on(X, nx, nu, ep)
    if w0:
        return w0, {'own_layout': True}
    if case.get('spec'):
        w1 = _pipeline_routes(case)
        if w1:
            return w1, {'own_layout': True, 'pipeline': True}
    # random linear system so that the regression problem is well posed
    A = rs.uniform(-0.6, 0.6, (nx, nx))
    B = rs.uniform(-1, 1, (nx, nu))
    out = []
    for l, Xe in st.ref_split(X, ep):
        n = max(Xe.shape[0], nx + nu + 3)
        x = np.zeros((n, nx))
        u = rs.uniform(-1, 1, (n, nu))
        x[0] = rs.uniform(-1, 1, nx)
        for k in range(n - 1):
            x[k + 1] = A @ x[k] + B @ u[k] + 0.01 * rs.randn(nx)
        out.append((l, np.hstack((x, u))))
    X = st.ref_combine(out, ep)
    if ep and len(out) > 1 and rng.random() < 0.6:
        # interleave the episodes' rows (each episode keeps its own time order)
        cursors = {l: 0 for l, _ in out}
        blocks = dict(out)
        rows = []
        while any(cursors[l] < blocks[l].shape[0] for l in cursors):
            l = rng.choice([l for l in cursors if cursors[l] < blocks[l].shape[0]])
            rows.append(np.concatenate(([l], blocks[l][cursors[l]])))
            cursors[l] += 1
        X = np.array(rows)
    Xu, Xs = pykoop.shift_episodes(X, n_inputs=nu, episode_feature=ep)
    # independent reference: the within-episode consecutive pairs, per label
    Xu_ref = st.ref_combine([(l, Xe[:-1]) for l, Xe in st.ref_split(X, ep)], ep)
    Xs_ref = st.ref_combine([(l, Xe[1:, :nx]) for l, Xe in st.ref_split(X, ep)], ep)
    # the shifted side never contains inputs / the pairs are within-episode consecutive
    if Xs.shape[1] != e + nx:
        return 'shifted matrix contains input columns', {}
    for l, Xe in st.ref_split(X, ep):
        ue = [Ue for ll, Ue in st.ref_split(Xu, ep) if ll == l]
        se = [Se for ll, Se in st.ref_split(Xs, ep) if ll == l]
        if Xe.shape[0] >= 2:
            if len(ue) != 1 or len(se) != 1:
                return f'episode {l}: shift_episodes returns {len(ue)} / {len(se)} blocks for this label, expected one each', {}
            if not (np.array_equal(ue[0], Xe[:-1]) and np.array_equal(se[0], Xe[1:, :nx])):
                return f'episode {l}: shift_episodes is not (rows 0..n-2, states of rows 1..n-1)', {}
    for name, mk in regressors(rng, nu, thorough):
        try:
            # (the flag sometimes as a numpy bool, n_inputs as a numpy integer: what reductions over the data return)
            r1 = mk().fit(X, n_inputs=(np.int64(nu) if rng.random() < 0.3 else nu),
                          episode_feature=(np.bool_(ep) if rng.random() < 0.4 else ep))
            r2 = mk().fit(Xu, Xs, n_inputs=nu, episode_feature=ep)
            r3 = mk().fit(relayout(rng, X, ep), n_inputs=nu, episode_feature=ep)
            r4 = mk().fit(Xu_ref, Xs_ref, n_inputs=nu, episode_feature=ep)
        except Exception as ex:
            continue
        scale = max(1.0, np.max(np.abs(r1.coef_)))
        tol = 1e-6 if name.startswith('Lmi') else 1e-8
        if r1.coef_.shape != r2.coef_.shape or np.max(np.abs(r1.coef_ - r2.coef_)) > tol * scale:
            return f'{name}: fit(X) differs from fit(X_unshifted, X_shifted)', {'regressor': name}
        if r1.coef_.shape != r4.coef_.shape or np.max(np.abs(r1.coef_ - r4.coef_)) > tol * scale:
            return (f'{name}: fit(X) differs from a fit on the within-episode consecutive pairs '
                    f'(some pair dropped, duplicated or straddling episodes)'), {'regressor': name}
        if np.max(np.abs(r1.coef_ - r3.coef_)) > tol * scale:
            return f'{name}: coef_ changes when episodes are relabelled / reordered', {'regressor': name}
    return None, None


def population_search(ctx):
    """failing-input search over a fresh population (also used when an exception raised inside the implementation
    ended the correspondence run early)"""
    for i in range(300):
        c = gen(ctx, True) if i % 3 else gen_buffer(ctx.rng)
        w, tags = oracle(c, ctx.rng)
        if w:
            ctx.fail(w, c, tags)
            return


def run(ctx):
    ctx.rule = ('bare regressors on multi-episode tagged-integer matrices (episode lengths incl. 1 and 2, arbitrary '
                'labels, interleaved rows, n_inputs 0..2) and regressors at the end of random algebraic pipelines '
                '(lifted widths n_inputs_out_ matter); a recording KoopmanRegressor captures the exact arguments of '
                '_fit_regressor; non-trivial = at least two rows; plus buffer histories: ONE ndarray object (C / F order or '
                'a non-contiguous view) whose episode column, data columns or whole contents are rewritten in place 1-3 '
                'times (the partition into episodes changes: other lengths, labels, block order, interleaving) and which '
                'is handed again, after every rewrite, to split_episodes / shift_episodes / the same or a new regressor / '
                'the same or a new KoopmanPipeline (no lifting, polynomial lifting)')
    ctx.explanation = ('theorems C05_* about shift_episodes in the model (pairs are exactly the within-episode '
                       'consecutive ones; row alignment; no inputs on the shifted side; relabel/reorder invariance as a '
                       'permutation); correspondence: recorded (X_unshifted, X_shifted) compared verbatim with the model; '
                       'oracle: coef_ of fit(X) vs fit(Xu, Xs) vs relabelled X for Edmd, EdmdMeta, Dmd, Dmdc, '
                       'DataRegressor (+LmiEdmd in thorough); buffer histories (oracle only): after each in-place rewrite of '
                       'the caller\'s array the episodes / pairs returned, the pairs recorded at _fit_regressor and coef_ of '
                       'real regressors are compared with the within-episode consecutive pairs of the CURRENT contents, '
                       'computed from a copy by definition (and explicit-pair fits on fresh arrays) after the history ended')
    ctx.proof_obligations('Properties.C05', THEOREMS)
    drv = ctx.get_driver()
    n = ctx.n(160, 2000)
    lines, meta = [], []
    for i in range(n):
        bare = i % 2 == 0
        c = gen(ctx, bare)
        X = st.X_of(c)
        rec.clear()
        try:
            if bare:
                # (the flag as a numpy bool in some cases: what a reduction such as `X[:, 0].max() > 0` returns)
                Recorder().fit(X, n_inputs=c['nu'], episode_feature=(np.bool_(c['ep']) if i % 4 == 0 else c['ep']))
                body = pipes.mat_tokens([[int(v) for v in r] for r in c['rows']], c['ep'])
                line = f"util shift {c['nu']} {body}"
            else:
                spec = c['spec'] if c['spec']['k'] == 'pipe' else {'k': 'pipe', 'ss': [c['spec']]}
                c['spec'] = spec
                kp = pykoop.KoopmanPipeline(
                    lifting_functions=[(f'p{j}', pipes.build(s)) for j, s in enumerate(spec['ss'])] or None,
                    regressor=Recorder())
                # nested pipelines inside use DataRegressor, only the outer regressor records
                # both public routes that fit the regressor: fit, and fit_transform (fits, then lifts the same data)
                c['route'] = 'fit_transform' if i % 6 == 3 else 'fit'
                if c['route'] == 'fit_transform':
                    kp.fit_transform(X, n_inputs=c['nu'], episode_feature=c['ep'])
                else:
                    kp.fit(X, n_inputs=c['nu'], episode_feature=(np.bool_(c['ep']) if i % 4 == 1 else c['ep']))
                toks, _ = pipes.tokens(spec, kp)
                body = pipes.mat_tokens([[int(v) for v in r] for r in c['rows']], c['ep'])
                line = f"regargs {c['nx']} {c['nu']} {toks} {body}"
        except Exception as ex:
            ctx.count('rejected:' + st.err_enum(ex))
            continue
        if not rec:
            ctx.count('rejected:no-call')
            continue
        lines.append(line)
        meta.append((c, rec[-1], bare))
    replies = drv.ask(lines)
    bad = []
    for (c, (Xu, Xs), bare), rep in zip(meta, replies):
        ctx.count('bare' if bare else 'pipeline')
        if c['ep']:
            ctx.count('episode_feature')
        if c['nu'] == 0:
            ctx.count('n_inputs=0')
        ctx.record_case({k: c[k] for k in ('spec', 'nx', 'nu', 'ep', 'rows')}, len(c['rows']) >= 2)
        t = rep.split()
        ok = t[0] == 'ok'
        why = None
        if ok:
            ru, pos = pipes.parse_mat(t, 1)
            rs_, _ = pipes.parse_mat(t, pos + 1)
            for name, A, rows in (('X_unshifted', Xu, ru), ('X_shifted', Xs, rs_)):
                impl = [(0, [float(v) for v in r]) for r in A]
                mod = [(0, v) for _, v in rows]
                w = st.cmp_int_rows(impl, mod)
                if w:
                    why = f'{name}: {w}'
                    break
        else:
            why = 'model: ' + rep[:100]
        if why:
            ctx.mismatch('arguments of _fit_regressor: ' + why, c, None, None)
            bad.append(c)
        if len(meta) < 400 or ctx.rng.random() < 0.2:
            w, tags = oracle(c, ctx.rng, ctx.tier == 'thorough' and ctx.rng.random() < 0.1)
            if w:
                ctx.fail(w, c, tags)

    # the caller's array re-used as a buffer between calls: the pairs are those of its CURRENT contents
    for j in range(ctx.n(60, 600)):
        c = gen_buffer(ctx.rng)
        ctx.count('buffer-reuse')
        for stg in c['buffer']['stages'][1:]:
            ctx.count('buffer-reuse:rewrite=' + stg['kind'])
        ctx.record_case({k: c[k] for k in ('nx', 'nu', 'ep', 'buffer')}, True)
        w, tags = oracle(c, ctx.rng, ctx.tier == 'thorough' and ctx.rng.random() < 0.05)
        if w:
            ctx.fail(w, c, tags)
            break

    def search(ctx):
        for c in bad[:60]:
            w, tags = oracle(c, ctx.rng)
            if w:
                ctx.fail(w, c, tags)
                return
        population_search(ctx)
    return ctx.finish('proof', search)


def replay(ctx, path):
    obj = json.load(open(path))
    case = obj.get('case') or (obj.get('first_disagreement') or {}).get('case')
    w, tags = oracle(case, ctx.rng)
    print('oracle:', w, tags)
    return 1 if w else 0
