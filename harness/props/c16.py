"""C16 - lift/retract helpers agree with transform for every episode flag."""
import json

import numpy as np

import pykoop
from .. import core, pipes, structural as st

THEOREMS = ['Pk.C16.C16_none_is_fit_value', 'Pk.C16.C16_retract_state_inv', 'Pk.C16.C16_retract_input_inv', 'Pk.C16.C16_lift_same_flag', 'Pk.C16.C16_lift_padded',
            'Pk.C16.C16_lift_per_episode', 'Pk.C16.C16_lift_state_block', 'Pk.C16.C16_lift_input_block',
            'Pk.C16.C16_retract_state_block', 'Pk.C16.C16_retract_input_block']
ALG = ['poly', 'bilinear', 'const', 'delay', 'delay']
HELPERS = ['lift', 'retract', 'lift_state', 'retract_state', 'lift_input', 'retract_input']
FLAGS = [None, True, False]


def data_for(case, e):
    """the case's rows as the call sees them: with the label column iff e"""
    rows = case['rows_lab']
    A = np.array(rows, dtype=float)
    return A if e else A[:, 1:]


def fit_est(case):
    X = data_for(case, case['fit_ep'])
    return pipes.fit(case['spec'], X, case['nu'], case['fit_ep'])


def inputs_for(est, case, helper, call):
    """argument of each helper for a call flag (resolved e), built with the real API"""
    e = case['fit_ep'] if call is None else call
    X = data_for(case, e)
    c = 1 if e else 0
    nx = case['nx']
    if helper == 'lift':
        return X
    if helper == 'retract':
        return est.lift(X, episode_feature=e)
    if helper == 'lift_state':
        return X[:, :c + nx]
    if helper == 'retract_state':
        return est.lift_state(X[:, :c + nx], episode_feature=e)
    if helper == 'lift_input':
        return X
    if helper == 'retract_input':
        return est.lift_input(X, episode_feature=e)
    raise ValueError(helper)


def raw_tokens(A):
    return f'{A.shape[0]} {A.shape[1]} ' + ' '.join(str(int(v)) for v in A.ravel())


def parse_raw(reply):
    t = reply.split()
    if t[0] != 'ok':
        return None
    r, c = int(t[1]), int(t[2])
    vals = [int(x) for x in t[3:3 + r * c]]
    return np.array(vals, dtype=float).reshape(r, c) if r * c else np.zeros((r, c))


def _oracle(case, est=None):
    """the property statement on the implementation (float or integer data)"""
    try:
        if est is None:
            est = fit_est(case)
    except Exception:
        return None, None
    fe = case['fit_ep']
    nx, nu = case['nx'], case['nu']
    for call in FLAGS:
        e = fe if call is None else call
        c = 1 if e else 0
        X = data_for(case, e)
        tag = {'call': 'None' if call is None else call, 'fit_ep': fe}
        # None behaves like the fit-time value, for all six helpers
        if call is None:
            for h in HELPERS:
                a = getattr(est, h)(inputs_for(est, case, h, None), episode_feature=None)
                b = getattr(est, h)(inputs_for(est, case, h, fe), episode_feature=fe)
                if a.shape != b.shape or not np.array_equal(a, b):
                    return f'{h}(episode_feature=None) differs from {h}(episode_feature={fe})', dict(tag, helper=h)
        # lift / retract equal transform / inverse_transform on padded or stripped data
        for h, core_f in (('lift', est.transform), ('retract', est.inverse_transform)):
            Y = inputs_for(est, case, h, call)
            got = getattr(est, h)(Y, episode_feature=call)
            if e == fe:
                want = core_f(Y)
            elif fe:
                want = core_f(np.hstack((np.zeros((Y.shape[0], 1)), Y)))[:, 1:]
            else:
                want = st.ref_combine(
                    [(l, core_f(Ye)) for l, Ye in st.ref_split(Y, True)], True)
            if got.shape != want.shape or not np.allclose(got, want, rtol=1e-12, atol=0):
                return f'{h} differs from the padded/stripped {core_f.__name__}', dict(tag, helper=h)
        L = est.lift(X, episode_feature=call)
        Xs = X[:, :c + nx]
        Ls = est.lift_state(Xs, episode_feature=call)
        Lpad = est.lift(np.hstack((Xs, np.zeros((X.shape[0], nu)))), episode_feature=call)
        if Ls.shape != (Lpad.shape[0], c + est.n_states_out_) or not np.array_equal(Ls, Lpad[:, :c + est.n_states_out_]):
            return 'lift_state is not the state block of lift (episode column kept iff the call has one)', dict(tag, helper='lift_state')
        Li = est.lift_input(X, episode_feature=call)
        want = np.hstack((L[:, :c], L[:, c + est.n_states_out_:]))
        if Li.shape != want.shape or not np.array_equal(Li, want):
            return 'lift_input is not the input block of lift (episode column kept iff the call has one)', dict(tag, helper='lift_input')
        # retract_* invert lift_* on the trailing samples of every episode
        Rs = est.retract_state(Ls, episode_feature=call)
        Ri = est.retract_input(Li, episode_feature=call)
        for name, R, orig in (('retract_state', Rs, Xs), ('retract_input', Ri, np.hstack((X[:, :c], X[:, c + nx:])))):
            eo, er = st.episodes(orig, e), st.episodes(R, e)
            for l, Oe in eo.items():
                if l not in er:
                    return f'{name}: episode {l} missing', dict(tag, helper=name)
                r = er[l].shape[0]
                if r > Oe.shape[0] or r == 0 or not np.allclose(er[l], Oe[Oe.shape[0] - r:], rtol=1e-12, atol=0):
                    return f'{name} does not invert its lift on the trailing samples of episode {l}', dict(tag, helper=name)
    return None, None


def oracle(case, est=None):
    try:
        return _oracle(case, est)
    except Exception as ex:
        return f'a lift/retract helper raised {type(ex).__name__}: {ex}', {'helper': 'raised'}


def gen(ctx, opaque=False):
    c = st.gen_case(ctx.rng, ALG, max_depth=2, cap=30, opaque=opaque, ep=True, extra=3)
    r = ctx.rng.random()
    if r < 0.06:
        c['spec'] = {'k': 'pipe', 'ss': []}          # a KoopmanPipeline without lifting functions (identity lifting)
    elif r < 0.12 and c['spec']['k'] != 'pipe':
        c['spec'] = {'k': 'pipe', 'ss': [c['spec']]}     # the same lifting function used through a one-stage pipeline
    c['rows_lab'] = c['rows']
    c['fit_ep'] = ctx.rng.random() < 0.5
    if not c['fit_ep']:
        # fitted without an episode feature: the fit data is one long episode; make sure each labelled
        # episode is still long enough for calls WITH an episode feature (already true: min_len per label)
        pass
    return c


def population_search(ctx):
    """failing-input search over a fresh population (also used when an exception raised inside the implementation
    ended the correspondence run early)"""
    for i in range(300):
        c = gen(ctx, opaque=True)
        why, tags = oracle(c)
        if why:
            ctx.fail(why, c, tags)
            return


def run(ctx):
    ctx.rule = ('random algebraic trees (poly/bilinear/const/delay/split/pipe, unequal delays) fitted with and '
                'without an episode feature, on multi-episode tagged-integer data; all 2 (fit flag) x 3 (call flag) '
                'x 6 helpers compared exactly with the Lean model of the helpers; non-trivial = at least one stage')
    ctx.explanation = ('theorems C16_* about the executable model of the six helpers (flag logic, padding, slices); '
                       'correspondence: outputs of all helper x flag combinations on tagged data; oracle: the property '
                       'statement evaluated on the implementation')
    ctx.proof_obligations('Properties.C16', THEOREMS)
    drv = ctx.get_driver()
    n = ctx.n(60, 700)
    lines, meta = [], []
    for i in range(n):
        c = gen(ctx)
        try:
            est = fit_est(c)
        except Exception as e:
            ctx.count('rejected:' + st.err_enum(e))
            continue
        toks, _ = pipes.tokens(c['spec'], est)
        for call in FLAGS:
            for h in HELPERS:
                try:
                    A = inputs_for(est, c, h, call)
                    out = getattr(est, h)(A, episode_feature=call)
                except Exception as ex:
                    ctx.mismatch(f'{h} raised {type(ex).__name__}: {ex}', c, None, None)
                    continue
                ce = 'n' if call is None else ('1' if call else '0')
                lines.append(f"lift {h} {1 if c['fit_ep'] else 0} {ce} {c['nx']} {c['nu']} {toks} {raw_tokens(A)}")
                meta.append((c, h, call, out))
        st.count_dist(ctx, c)
        ctx.count('fit_ep=' + str(c['fit_ep']))
        ctx.record_case({k: c[k] for k in ('spec', 'nx', 'nu', 'fit_ep', 'rows_lab')}, st.nontrivial(c))
        why, tags = oracle(c, est)
        if why:
            ctx.fail(why, c, tags)
    replies = drv.ask(lines)
    bad = []
    for (c, h, call, out), rep in zip(meta, replies):
        ctx.count(f'call:{h}')
        M = parse_raw(rep)
        if M is None or M.shape != out.shape or not np.array_equal(M, out):
            ctx.mismatch(f'{h}(episode_feature={call}) fit_ep={c["fit_ep"]}', c,
                         None if out is None else out.tolist()[:3], None if M is None else M.tolist()[:3])
            bad.append(c)

    def search(ctx):
        for c in bad[:40]:
            fc = dict(c)
            fc['rows_lab'] = [[r[0]] + [ctx.rng.uniform(-2, 2) for _ in r[1:]] for r in c['rows_lab']]
            why, tags = oracle(fc)
            if why:
                ctx.fail(why, fc, tags)
                return
        population_search(ctx)
    return ctx.finish('proof', search)


def replay(ctx, path):
    obj = json.load(open(path))
    case = obj.get('case') or (obj.get('first_disagreement') or {}).get('case')
    why, tags = oracle(case)
    print('oracle:', why, tags)
    return 1 if why else 0
