"""C16 - lift/retract helpers agree with transform for every episode flag."""
import json

import numpy as np

import pykoop
from .. import core, pipes, structural as st

THEOREMS = ['Pk.C16.C16_none_is_fit_value', 'Pk.C16.C16_retract_state_inv', 'Pk.C16.C16_retract_input_inv', 'Pk.C16.C16_lift_same_flag', 'Pk.C16.C16_lift_padded',
            'Pk.C16.C16_lift_per_episode', 'Pk.C16.C16_lift_state_block', 'Pk.C16.C16_lift_input_block',
            'Pk.C16.C16_retract_state_block', 'Pk.C16.C16_retract_input_block']
ALG = ['poly', 'bilinear', 'const', 'delay', 'delay']
HELPERS = ['lift', 'retract', 'lift_state', 'retract_state', 'lift_input', 'retract_input']
FLAGS = [None, True, False]


def data_for(case, e):
    """the case's rows as the call sees them: with the label column iff e"""
    rows = case['rows_lab']
    A = np.array(rows, dtype=float)
    return A if e else A[:, 1:]


def fit_est(case):
    X = data_for(case, case['fit_ep'])
    return pipes.fit(case['spec'], X, case['nu'], case['fit_ep'])


def inputs_for(est, case, helper, call):
    """argument of each helper for a call flag (resolved e), built with the real API"""
    e = case['fit_ep'] if call is None else call
    X = data_for(case, e)
    c = 1 if e else 0
    nx = case['nx']
    if helper == 'lift':
        return X
    if helper == 'retract':
        return est.lift(X, episode_feature=e)
    if helper == 'lift_state':
        return X[:, :c + nx]
    if helper == 'retract_state':
        return est.lift_state(X[:, :c + nx], episode_feature=e)
    if helper == 'lift_input':
        return X
    if helper == 'retract_input':
        return est.lift_input(X, episode_feature=e)
    raise ValueError(helper)


def raw_tokens(A):
    return f'{A.shape[0]} {A.shape[1]} ' + ' '.join(str(int(v)) for v in A.ravel())


def parse_raw(reply):
    t = reply.split()
    if t[0] != 'ok':
        return None
    r, c = int(t[1]), int(t[2])
    vals = [int(x) for x in t[3:3 + r * c]]
    return np.array(vals, dtype=float).reshape(r, c) if r * c else np.zeros((r, c))


def lift_rows(spec, n):
    """OWN row arithmetic (from the definition of the stages, not from the implementation): rows of one episode of n
    samples after lifting. A delay stage keeps the samples that have all their delayed copies; the branches of a split
    are cut to the shorter one; chains compose."""
    k = spec['k']
    if k == 'delay':
        return n - max(spec['dx'], spec['du'])
    if k == 'split':
        a = b = n
        for s in spec['a']:
            a = lift_rows(s, a)
        for s in spec['b']:
            b = lift_rows(s, b)
        return min(a, b)
    if k == 'pipe':
        for s in spec['ss']:
            n = lift_rows(s, n)
        return n
    return n


def retract_rows(spec, m):
    """rows of one episode that the inverse rebuilds from m lifted rows: the inverse of a delay embedding also returns
    the min(dx, du) earlier samples held in the delay coordinates of its first row (the state block alone would give
    m + dx rows, the input block m + du; the rectangular result has the smaller count)"""
    k = spec['k']
    if k == 'delay':
        return m + min(spec['dx'], spec['du'])
    if k == 'split':
        a = b = m
        for s in reversed(spec['a']):
            a = retract_rows(s, a)
        for s in reversed(spec['b']):
            b = retract_rows(s, b)
        return min(a, b)
    if k == 'pipe':
        for s in reversed(spec['ss']):
            m = retract_rows(s, m)
        return m
    return m


def _core_on(est, core_f, Y, e, fe):
    """transform / inverse_transform of the fitted object on the padded or stripped data (the reference of the property;
    split / combine are the harness's own)"""
    if e == fe:
        return core_f(Y)
    if fe:
        return core_f(np.hstack((np.zeros((Y.shape[0], 1)), Y)))[:, 1:]
    return st.ref_combine([(l, core_f(Ye)) for l, Ye in st.ref_split(Y, True)], True)


def _oracle(case, est=None):
    """the property statement on the implementation (float or integer data)"""
    try:
        if est is None:
            est = fit_est(case)
    except Exception:
        return None, None
    fe = case['fit_ep']
    nx, nu = case['nx'], case['nu']
    for call in FLAGS:
        e = fe if call is None else call
        c = 1 if e else 0
        X = data_for(case, e)
        tag = {'call': 'None' if call is None else call, 'fit_ep': fe}
        # None behaves like the fit-time value, for all six helpers
        if call is None:
            for h in HELPERS:
                a = getattr(est, h)(inputs_for(est, case, h, None), episode_feature=None)
                b = getattr(est, h)(inputs_for(est, case, h, fe), episode_feature=fe)
                if a.shape != b.shape or not np.array_equal(a, b):
                    return f'{h}(episode_feature=None) differs from {h}(episode_feature={fe})', dict(tag, helper=h)
        # lift / retract equal transform / inverse_transform on padded or stripped data
        for h, core_f in (('lift', est.transform), ('retract', est.inverse_transform)):
            Y = inputs_for(est, case, h, call)
            got = getattr(est, h)(Y, episode_feature=call)
            if e == fe:
                want = core_f(Y)
            elif fe:
                want = core_f(np.hstack((np.zeros((Y.shape[0], 1)), Y)))[:, 1:]
            else:
                want = st.ref_combine(
                    [(l, core_f(Ye)) for l, Ye in st.ref_split(Y, True)], True)
            if got.shape != want.shape or not np.allclose(got, want, rtol=1e-12, atol=0):
                return f'{h} differs from the padded/stripped {core_f.__name__}', dict(tag, helper=h)
        L = est.lift(X, episode_feature=call)
        Xs = X[:, :c + nx]
        Ls = est.lift_state(Xs, episode_feature=call)
        Lpad = est.lift(np.hstack((Xs, np.zeros((X.shape[0], nu)))), episode_feature=call)
        if Ls.shape != (Lpad.shape[0], c + est.n_states_out_) or not np.array_equal(Ls, Lpad[:, :c + est.n_states_out_]):
            return 'lift_state is not the state block of lift (episode column kept iff the call has one)', dict(tag, helper='lift_state')
        Li = est.lift_input(X, episode_feature=call)
        want = np.hstack((L[:, :c], L[:, c + est.n_states_out_:]))
        if Li.shape != want.shape or not np.array_equal(Li, want):
            return 'lift_input is not the input block of lift (episode column kept iff the call has one)', dict(tag, helper='lift_input')
        # every episode of n samples lifts to exactly the rows the stages leave (own row arithmetic)
        spec = case['spec']
        eX = st.episodes(X, e)
        for name, M in (('lift', L), ('lift_state', Ls), ('lift_input', Li)):
            eM = st.episodes(M, e)
            for l, Oe in eX.items():
                have = eM[l].shape[0] if l in eM else 0
                if have != lift_rows(spec, Oe.shape[0]):
                    return (f'{name}: episode {l} of {Oe.shape[0]} samples gives {have} lifted rows, the lifting functions leave '
                            f'{lift_rows(spec, Oe.shape[0])}'), dict(tag, helper=name, clause='rows')
        # retract_* invert lift_* on the trailing samples of every episode
        Rs = est.retract_state(Ls, episode_feature=call)
        Ri = est.retract_input(Li, episode_feature=call)
        # ... and are exactly the state / input block of inverse_transform on the lifted block padded with zeros
        inv_s = _core_on(est, est.inverse_transform, np.hstack((Ls, np.zeros((Ls.shape[0], est.n_inputs_out_)))), e, fe)
        inv_i = _core_on(est, est.inverse_transform,
                         np.hstack((Li[:, :c], np.zeros((Li.shape[0], est.n_states_out_)), Li[:, c:])), e, fe)
        for name, R, want in (('retract_state', Rs, inv_s[:, :c + nx]),
                              ('retract_input', Ri, np.hstack((inv_i[:, :c], inv_i[:, c + nx:])))):
            if R.shape != want.shape or not np.array_equal(R, want):
                return (f'{name} is not the block of inverse_transform on the zero-padded lifted data: shape {R.shape}, '
                        f'inverse_transform gives {want.shape}'), dict(tag, helper=name, clause='inverse_block')
        for name, R, orig in (('retract_state', Rs, Xs), ('retract_input', Ri, np.hstack((X[:, :c], X[:, c + nx:])))):
            eo, er = st.episodes(orig, e), st.episodes(R, e)
            for l, Oe in eo.items():
                if l not in er:
                    return f'{name}: episode {l} missing', dict(tag, helper=name)
                r = er[l].shape[0]
                if r > Oe.shape[0] or r == 0 or not np.allclose(er[l], Oe[Oe.shape[0] - r:], rtol=1e-12, atol=0):
                    return f'{name} does not invert its lift on the trailing samples of episode {l}', dict(tag, helper=name)
                # row-count clause: HOW MANY trailing samples come back (own row arithmetic); with equal state and input
                # delays everywhere that is the whole episode
                n = Oe.shape[0]
                want_r = retract_rows(spec, lift_rows(spec, n))
                if r != want_r:
                    return (f'{name}(lift) returns {r} of the {n} samples of episode {l}; the inverse of the lifting functions '
                            f'rebuilds {want_r}' + (' (all of them: state and input delays are equal)' if want_r == n else '')), \
                        dict(tag, helper=name, clause='rows')
    return None, None


def oracle(case, est=None):
    if est is None and case.get('mutations') is not None:
        why, tags, _ = lifecycle(case)          # a replayed lifecycle case carries its history
        return why, tags
    if est is None and case.get('frames') is not None:
        why, tags, _ = frames(case)             # a replayed argument-kind case carries its probe
        return why, tags
    try:
        return _oracle(case, est)
    except Exception as ex:
        return f'a lift/retract helper raised {type(ex).__name__}: {ex}', {'helper': 'raised'}


# ----------------------------------------------------------------------------- object lifecycle
# A fitted composite (KoopmanPipeline / SplitPipeline) is a snapshot: fit() clones the constructor templates, transform and
# inverse_transform run the fitted clones. Changing the UNFITTED templates afterwards, without refitting - nested
# set_params, replacing a step by name, replacing a whole step list, changing a stage object the caller still holds and
# re-using it in a second composite, changing the templates of a fitted nested composite - must leave every helper in
# agreement with transform / inverse_transform of the fitted object, i.e. with what it returned before.

LEAF_PARAMS = ('n_delays_state', 'n_delays_input', 'order', 'interaction_only')


def _all_calls(est, case):
    """argument and result of every helper x flag on the case's data (the arguments of retract* are lifted data)"""
    out = []
    for call in FLAGS:
        for h in HELPERS:
            A = inputs_for(est, case, h, call)
            out.append((h, call, A, getattr(est, h)(A, episode_feature=call)))
    return out


def _new_value(rng, name, old):
    if name.startswith('n_delays'):
        if rng.random() < 0.75:
            return int(old) + rng.randint(1, 4)          # the template now needs more samples than the fitted object
        return rng.choice([v for v in range(0, 6) if v != int(old)])
    if name == 'order':
        return rng.choice([v for v in (1, 2, 3) if v != int(old)])
    return not bool(old)


def _leaf_keys(params, nested_only, names=LEAF_PARAMS):
    return sorted(k for k in params if k.rsplit('__', 1)[-1] in names and ('__' in k or not nested_only))


def _param_changes(rng, params, nested_only, names=LEAF_PARAMS):
    keys = _leaf_keys(params, nested_only, names)
    if not keys:
        return None
    dk = [k for k in keys if 'n_delays' in k]
    k = rng.choice(dk) if dk and rng.random() < 0.7 else rng.choice(keys)
    name = k.rsplit('__', 1)[-1]
    out = {k: _new_value(rng, name, params[k])}
    if name.startswith('n_delays') and rng.random() < 0.5:
        sib = k[:len(k) - len(name)] + ('n_delays_input' if name == 'n_delays_state' else 'n_delays_state')
        if sib in params:
            out[sib] = rng.choice([int(out[k]), int(params[sib]) + rng.randint(1, 4)])
    return out


def _step_keys(params):
    return sorted(k for k, v in params.items() if isinstance(v, pykoop.koopman_pipeline.KoopmanLiftingFn))


def _new_stage(rng):
    r = rng.random()
    d = {'k': 'delay', 'dx': rng.randint(0, 5), 'du': rng.randint(0, 5)}
    if rng.random() < 0.4:
        d['du'] = d['dx']
    if r < 0.55:
        return d
    if r < 0.7:
        return {'k': 'poly', 'order': rng.choice([1, 2, 3]), 'io': rng.random() < 0.3}
    if r < 0.85:
        return {'k': 'split', 'a': [dict(d, du=0)], 'b': []}
    return {'k': 'pipe', 'ss': [d]}


def _refit_width(obj, n):
    """crude upper bound of the lifted width of a template (delays first, then products), used ONLY to keep the second fit
    of a re-used stage object small"""
    import math
    params = obj.get_params(deep=True)
    w = n
    for k, v in params.items():
        if k.rsplit('__', 1)[-1] in ('n_delays_state', 'n_delays_input'):
            w *= int(v) + 1
    for k, v in params.items():
        if k.rsplit('__', 1)[-1] == 'order':
            w = math.comb(w + int(v), int(v))
    for v in [obj] + list(params.values()):
        if isinstance(v, pykoop.BilinearInputLiftingFn):
            w = w * w
    return w


def _list_attrs(est):
    return ['lifting_functions'] if isinstance(est, pykoop.KoopmanPipeline) else ['lifting_functions_state', 'lifting_functions_input']


def gen_op(rng, est, spec, n_feat, allow_inner=True):
    """one JSON-able change of the unfitted templates of the composite `est` (chosen on the live object)"""
    params = est.get_params(deep=True)
    steps = _step_keys(params)
    kinds = ['list']
    if _leaf_keys(params, True):
        kinds += ['nested'] * 4
    if steps:
        kinds += ['replace', 'replace', 'shared', 'shared', 'shared']
    inner = [i for i, (sp, _) in enumerate(pipes.walk(spec, est)) if i > 0 and sp['k'] in ('split', 'pipe')]
    if allow_inner and inner:
        kinds += ['inner']
    k = rng.choice(kinds)
    if k == 'nested':
        return {'op': 'nested', 'params': _param_changes(rng, params, True)}
    if k == 'replace':
        return {'op': 'replace', 'key': rng.choice(steps), 'spec': _new_stage(rng)}
    if k == 'list':
        attr = rng.choice(_list_attrs(est))
        have = [n for n, _ in (getattr(est, attr) or [])]
        specs = [_new_stage(rng) for _ in range(rng.randint(1, 2))]
        names, j = [], 0
        while len(names) < len(specs):
            if f'n{j}' not in have:
                names.append(f'n{j}')
            j += 1
        return {'op': 'list', 'attr': attr, 'keep': rng.random() < 0.5, 'names': names, 'specs': specs}
    if k == 'shared':
        key = rng.choice(steps)
        obj = params[key]
        # the stage object is fitted again inside a second composite: only changes that keep that second fit small
        ch = _param_changes(rng, obj.get_params(deep=True), False, ('n_delays_state', 'n_delays_input', 'interaction_only'))
        if ch is None:
            ch = _param_changes(rng, obj.get_params(deep=True), False)
            reuse = None
        else:
            reuse = rng.choice(['pipe', 'pipe', 'split', None])
        if ch is None:
            return {'op': 'replace', 'key': key, 'spec': _new_stage(rng)}
        if reuse:
            import copy
            probe = copy.deepcopy(obj).set_params(**ch)
            if _refit_width(probe, n_feat) > 1500:
                reuse = None
        return {'op': 'shared', 'key': key, 'params': ch, 'reuse': reuse}
    i = rng.choice(inner)
    sp, sub = pipes.walk(spec, est)[i]
    return {'op': 'inner', 'index': i, 'sub': gen_op(rng, sub, sp, n_feat, allow_inner=False)}


def apply_op(est, op, case, spec):
    k = op['op']
    if k == 'nested':
        est.set_params(**op['params'])
    elif k == 'replace':
        est.set_params(**{op['key']: pipes.build(op['spec'])})
    elif k == 'list':
        old = list(getattr(est, op['attr']) or []) if op['keep'] else []
        est.set_params(**{op['attr']: old + [(n, pipes.build(sp)) for n, sp in zip(op['names'], op['specs'])]})
    elif k == 'shared':
        obj = est.get_params(deep=True)[op['key']]
        obj.set_params(**op['params'])
        if op['reuse']:
            X = data_for(case, case['fit_ep'])
            try:
                # the second composite is somebody else's object; whether ITS fit succeeds is not this property's business
                if op['reuse'] == 'pipe':
                    pykoop.KoopmanPipeline(lifting_functions=[('z', obj)], regressor=pykoop.DataRegressor()).fit_transformers(
                        X, n_inputs=case['nu'], episode_feature=case['fit_ep'])
                else:
                    pykoop.SplitPipeline(lifting_functions_state=[('z', obj)]).fit(
                        X, n_inputs=case['nu'], episode_feature=case['fit_ep'])
            except Exception:
                pass
    elif k == 'inner':
        sp, sub = pipes.walk(spec, est)[op['index']]
        apply_op(sub, op['sub'], case, sp)
    else:
        raise ValueError(k)


def _op_kinds(ops):
    return '+'.join(o['op'] if o['op'] != 'inner' else 'inner:' + o['sub']['op'] for o in ops)


def lifecycle(case, rng=None, est=None, pre=None):
    """fit (or take the fitted object and what its helpers returned), change the unfitted templates without refitting
    (the stored history of the case, or a fresh one from rng), and state the property again on the same object.
    Returns (why, tags, the case with its history)."""
    if case['spec']['k'] not in ('split', 'pipe'):
        # a single lifting function reads its own live parameters; used through a one-stage pipeline it is a template
        case, est, pre = dict(case, spec={'k': 'pipe', 'ss': [case['spec']]}), None, None
    try:
        if est is None:
            est = fit_est(case)
            pre = None
        if pre is None:
            pre = _all_calls(est, case)
        # the reference of the property on this object: transform / inverse_transform on the data in the fit-time layout
        X0 = data_for(case, case['fit_ep'])
        T0 = est.transform(X0)
        I0 = est.inverse_transform(T0)
    except Exception:
        return None, None, dict(case, skipped=True)      # not a valid case before any change: the plain oracle's business
    ops = case.get('mutations')
    try:
        if ops is None:
            ops = []
            for _ in range(rng.randint(1, 3)):
                op = gen_op(rng, est, case['spec'], case['nx'] + case['nu'])
                ops.append(op)
                apply_op(est, op, case, case['spec'])
        else:
            for op in ops:
                apply_op(est, op, case, case['spec'])
    except Exception as ex:
        # the change itself is rejected (set_params validates names): nothing was changed that the property talks about
        return None, None, dict(case, mutations=ops, rejected=f'{type(ex).__name__}: {ex}'[:200])
    case = dict(case, mutations=ops)
    try:
        case['template_loss'] = template_loss(est)
    except Exception:
        pass
    hist = _op_kinds(ops)
    for h, call, A, out in pre:
        tags = {'helper': h, 'call': 'None' if call is None else call, 'fit_ep': case['fit_ep'], 'lifecycle': hist}
        try:
            now = getattr(est, h)(A, episode_feature=call)
        except Exception as ex:
            return (f'after a change of the unfitted templates ({hist}) without refit, {h}(episode_feature={call}) raised '
                    f'{type(ex).__name__}: {ex} on data the same fitted object handled before'), tags, case
        if now.shape != out.shape or not np.array_equal(now, out, equal_nan=True):
            return (f'after a change of the unfitted templates ({hist}) without refit, {h}(episode_feature={call}) returns '
                    f'shape {now.shape} / other values than before (shape {out.shape})'), tags, case
    # the helpers agreed with transform / inverse_transform before the change (plain oracle) and are unchanged; the reference
    # itself must be unchanged too, so that they still agree with transform / inverse_transform of the object as it is now
    for name, f, arg, out in (('transform', est.transform, X0, T0), ('inverse_transform', est.inverse_transform, T0, I0)):
        tags = {'helper': name, 'fit_ep': case['fit_ep'], 'lifecycle': hist}
        try:
            now = f(arg)
        except Exception as ex:
            return (f'after a change of the unfitted templates ({hist}) without refit, {name} raised {type(ex).__name__}: {ex} '
                    f'on data the same fitted object handled before'), tags, case
        if now.shape != out.shape or not np.array_equal(now, out, equal_nan=True):
            return (f'after a change of the unfitted templates ({hist}) without refit, {name} of the fitted object returns '
                    f'shape {now.shape} / other values than before (shape {out.shape}) while the helpers do not'), tags, case
    return None, None, case


def template_loss(obj):
    """coverage only: samples an UNFITTED template tree would remove, by the harness's own arithmetic on its constructor
    arguments (delay: max of the two delays; chains add; a split takes the larger branch)"""
    if isinstance(obj, pykoop.DelayLiftingFn):
        return max(int(obj.n_delays_state), int(obj.n_delays_input))
    if isinstance(obj, pykoop.KoopmanPipeline):
        return sum(template_loss(o) for _, o in (obj.lifting_functions or []))
    if isinstance(obj, pykoop.SplitPipeline):
        return max(sum(template_loss(o) for _, o in (obj.lifting_functions_state or [])),
                   sum(template_loss(o) for _, o in (obj.lifting_functions_input or [])))
    return 0


def needs_more(lc):
    """coverage only: after the history the templates ask for more samples than the shortest episode of the data has (while
    the fitted clones, by construction of the data, do not) - the fitted object must not care"""
    lens = {}
    for r in lc['rows_lab']:
        lens[r[0]] = lens.get(r[0], 0) + 1
    return lc.get('template_loss', 0) + 1 > min(lens.values())


# ----------------------------------------------------------------------------- argument kinds: pandas DataFrames
# A data matrix handed over as a pandas DataFrame is the same rows in the same order, whatever its INDEX is (a frame
# that was sorted / shuffled and never re-indexed, the tail df.iloc[100:] of a longer recording, time stamps, string
# labels, repeated labels, a MultiIndex): the helpers are positional. The index is not data and nothing may be aligned on
# it. Estimators fitted on a DataFrame (names captured) and on the plain array; every helper x call flag; the expected
# value is transform / inverse_transform of the fitted object on the SAME ROWS IN THE GIVEN ORDER as a plain array,
# padded / stripped / split by the harness.

IDX_PATTERNS = ['permuted', 'permuted', 'permuted', 'reversed', 'offset', 'offset', 'stepped', 'duplicates', 'shifted_permuted',
                'range']
IDX_RENDER = ['ints', 'ints', 'ints', 'datetime', 'string', 'float', 'multi']


def gen_index(rng, n):
    """JSON-able description of a DataFrame index of n entries"""
    p = rng.choice(IDX_PATTERNS)
    if p in ('permuted', 'shifted_permuted'):
        vals = rng.sample(range(n), n)
        if vals == list(range(n)) and n > 1:
            vals = vals[1:] + vals[:1]
        if p == 'shifted_permuted':
            k = rng.randint(1, 50)
            vals = [v + k for v in vals]
    elif p == 'reversed':
        vals = list(range(n - 1, -1, -1))
    elif p == 'offset':
        k = rng.choice([1, max(1, n // 2), n, 100, -3])
        vals = list(range(k, k + n))
    elif p == 'stepped':
        vals = list(range(0, 2 * n, 2))
    elif p == 'duplicates':
        vals = [rng.randint(0, max(1, n // 2)) for _ in range(n)]
    else:
        return {'pattern': 'range', 'render': 'range', 'vals': list(range(n))}
    return {'pattern': p, 'render': rng.choice(IDX_RENDER), 'vals': vals}


def mk_index(spec, n):
    import pandas
    if spec is None or spec['render'] == 'range':
        return pandas.RangeIndex(n)
    vals, r = [int(v) for v in spec['vals']], spec['render']
    if r == 'ints':
        return pandas.Index(vals)
    if r == 'datetime':
        return pandas.Timestamp('2024-01-01') + pandas.to_timedelta(vals, unit='s')
    if r == 'string':
        return pandas.Index([f'r{v}' for v in vals])
    if r == 'float':
        return pandas.Index([0.01 * v for v in vals], name='t')
    if r == 'multi':
        return pandas.MultiIndex.from_arrays([[v % 2 for v in vals], vals], names=['run', 'k'])
    raise ValueError(r)


def _base_names(case, e):
    return (['ep'] if e else []) + [f'x{j}' for j in range(case['nx'])] + [f'u{j}' for j in range(case['nu'])]


def _arg_names(case, helper, e, width):
    c = 1 if e else 0
    if helper in ('lift', 'lift_input'):
        return _base_names(case, e)
    if helper == 'lift_state':
        return _base_names(case, e)[:c + case['nx']]
    return (['ep'] if e else []) + [f'z{j}' for j in range(width - c)]       # lifted data


def fit_frame_est(case, fit_index):
    """the case's estimator fitted on a DataFrame with all-string column names (and any index)"""
    import pandas
    X = data_for(case, case['fit_ep'])
    df = pandas.DataFrame(X, columns=_base_names(case, case['fit_ep']), index=mk_index(fit_index, X.shape[0]))
    return pipes.fit(case['spec'], df, case['nu'], case['fit_ep'])


def _expected(est, case, helper, e, R):
    """the property's reference for one helper on the plain array R (rows in the given order): transform /
    inverse_transform of the fitted object, padded / stripped / split and sliced by the harness"""
    fe, nx, nu, c = case['fit_ep'], case['nx'], case['nu'], (1 if e else 0)
    nso, nio = est.n_states_out_, est.n_inputs_out_
    z = lambda k: np.zeros((R.shape[0], k))
    if helper == 'lift':
        return _core_on(est, est.transform, R, e, fe)
    if helper == 'retract':
        return _core_on(est, est.inverse_transform, R, e, fe)
    if helper == 'lift_state':
        return _core_on(est, est.transform, np.hstack((R, z(nu))), e, fe)[:, :c + nso]
    if helper == 'lift_input':
        L = _core_on(est, est.transform, R, e, fe)
        return np.hstack((L[:, :c], L[:, c + nso:]))
    if helper == 'retract_state':
        return _core_on(est, est.inverse_transform, np.hstack((R, z(nio))), e, fe)[:, :c + nx]
    if helper == 'retract_input':
        inv = _core_on(est, est.inverse_transform, np.hstack((R[:, :c], z(nso), R[:, c:])), e, fe)
        return np.hstack((inv[:, :c], inv[:, c + nx:]))
    raise ValueError(helper)


def _quiet(f, *a, **kw):
    import warnings
    with warnings.catch_warnings():
        warnings.simplefilter('ignore')
        return f(*a, **kw)


def frame_probe(case, est, probe, A=None):
    """one helper call on a DataFrame. Returns (status, why): status 'ok', 'fail', or a coverage note when the property
    cannot be stated (the helper rejects a DataFrame of these rows whatever its index, or the reference itself raises)."""
    import pandas
    h, call = probe['helper'], (None if probe['call'] == 'None' else probe['call'])
    e = case['fit_ep'] if call is None else call
    try:
        if A is None:
            A = _quiet(inputs_for, est, case, h, call)
        A = np.array(A, dtype=float)
        perm = probe.get('perm')
        R = A[perm] if perm is not None else A
        want = _quiet(_expected, est, case, h, e, R)
    except Exception as ex:
        return 'reference_raised:' + type(ex).__name__, None
    names = _arg_names(case, h, e, A.shape[1])
    df = pandas.DataFrame(A, columns=names, index=mk_index(probe['index'], A.shape[0]))
    if perm is not None:
        df = df.iloc[perm]              # rows permuted, every row keeps its label
    how = (f"{h}(episode_feature={call}) of an estimator fitted {'on a DataFrame' if probe['fit'] else 'on an array'} with "
           f"episode_feature={case['fit_ep']}, argument = DataFrame with a {probe['index']['pattern']} index rendered as "
           f"{probe['index']['render']}" + (', rows permuted' if perm is not None else ''))
    try:
        got = np.asarray(_quiet(getattr(est, h), df, episode_feature=call))
    except Exception as ex:
        # is it the index? the same rows in the same order under the default index
        try:
            _quiet(getattr(est, h), pandas.DataFrame(R, columns=names), episode_feature=call)
        except Exception as ex0:
            return f'helper_rejects_any_DataFrame:{h}:{type(ex0).__name__}', None
        return 'fail', (f'{how}: raised {type(ex).__name__}: {str(ex)[:150]}, while the same rows in the same order under the '
                        f'default index are accepted (the index is not data)')
    if got.shape != want.shape:
        return 'fail', (f'{how}: shape {got.shape}, but transform / inverse_transform on the same rows in the given order '
                        f'gives {want.shape}')
    if not np.allclose(got, want, rtol=1e-12, atol=0, equal_nan=True):
        bad = tuple(int(v) for v in np.argwhere(~np.isclose(got, want, rtol=1e-12, atol=0, equal_nan=True))[0])
        return 'fail', (f'{how}: differs from transform / inverse_transform on the same rows in the given order (positional '
                        f'semantics), first at {bad}: {got[bad]!r} instead of {want[bad]!r}')
    return 'ok', None


def frames(case, rng=None, est=None, count=None):
    """argument kinds. A replayed case carries its single probe in case['frames']; otherwise every helper x flag is probed
    once on the array-fitted estimator and once on a twin fitted on a DataFrame, each with a fresh random index.
    Returns (why, tags, case)."""
    count = count or (lambda k: None)
    stored = case.get('frames')
    fits = [stored['fit']] if stored else [None, {'index': gen_index(rng, len(case['rows_lab']))}]
    for fit in fits:
        try:
            e_ = (est if est is not None else fit_est(case)) if fit is None else _quiet(fit_frame_est, case, fit['index'])
        except Exception as ex:
            count('frames:fit_rejected:' + type(ex).__name__)
            continue
        plans = [(stored['helper'], stored['call'])] if stored else [(h, 'None' if c is None else c) for c in FLAGS for h in HELPERS]
        for h, call in plans:
            if stored:
                probe, A = stored, None
            else:
                try:
                    A = np.array(_quiet(inputs_for, e_, case, h, None if call == 'None' else call), dtype=float)
                except Exception as ex:
                    count('frames:reference_raised:' + type(ex).__name__)
                    continue
                n = A.shape[0]
                probe = {'fit': fit, 'helper': h, 'call': call, 'index': gen_index(rng, n),
                         'perm': rng.sample(range(n), n) if rng.random() < 0.35 else None}
            status, why = frame_probe(case, e_, probe, A)
            if status == 'fail':
                tags = {'helper': h, 'call': call, 'fit_ep': case['fit_ep'], 'frames': probe['index']['pattern'],
                        'fit_on': 'frame' if fit else 'array'}
                return why, tags, dict(case, frames=probe)
            if status == 'ok':
                count('frames:ok:fitted_on_' + ('frame' if fit else 'array'))
                count('frames:index:' + probe['index']['pattern'] + '/' + probe['index']['render'])
                if probe.get('perm') is not None:
                    count('frames:rows_permuted')
                e = case['fit_ep'] if call == 'None' else call
                count(f"frames:ok:{h}:fit_ep={case['fit_ep']}:call_ep={e}")
            else:
                count('frames:' + status)
    return None, None, case


def gen(ctx, opaque=False):
    c = st.gen_case(ctx.rng, ALG, max_depth=2, cap=30, opaque=opaque, ep=True, extra=3)
    r = ctx.rng.random()
    if r < 0.06:
        c['spec'] = {'k': 'pipe', 'ss': []}          # a KoopmanPipeline without lifting functions (identity lifting)
    elif r < 0.12 and c['spec']['k'] != 'pipe':
        c['spec'] = {'k': 'pipe', 'ss': [c['spec']]}     # the same lifting function used through a one-stage pipeline
    c['rows_lab'] = c['rows']
    c['fit_ep'] = ctx.rng.random() < 0.5
    if not c['fit_ep']:
        # fitted without an episode feature: the fit data is one long episode; make sure each labelled
        # episode is still long enough for calls WITH an episode feature (already true: min_len per label)
        pass
    return c


def population_search(ctx):
    """failing-input search over a fresh population (also used when an exception raised inside the implementation
    ended the correspondence run early)"""
    for i in range(300):
        c = gen(ctx, opaque=True)
        why, tags = oracle(c)
        if why:
            ctx.fail(why, c, tags)
            return
        why, tags, fc = frames(c, ctx.rng)
        if why:
            ctx.fail(why, fc, tags)
            return
        why, tags, lc = lifecycle(c, ctx.rng)
        if why:
            ctx.fail(why, lc, tags)
            return


def run(ctx):
    ctx.rule = ('random algebraic trees (poly/bilinear/const/delay/split/pipe, unequal delays) fitted with and '
                'without an episode feature, on multi-episode tagged-integer data; all 2 (fit flag) x 3 (call flag) '
                'x 6 helpers compared exactly with the Lean model of the helpers; non-trivial = at least one stage; '
                'row-count clause: every episode of n samples lifts to the rows the stages leave and retract_state(lift_state) / '
                'retract_input(lift_input) return exactly the rows the inverse rebuilds (the harness\'s own loss / gain arithmetic; '
                'the whole episode when state and input delays are equal) and are bit-for-bit the state / input block of '
                'inverse_transform on the zero-padded lifted block; object lifecycle: on every fitted composite (single stages '
                'through a one-stage pipeline) 1-3 random changes of the UNFITTED constructor templates without refit - nested '
                'set_params, step replacement by name, replacement / extension of a whole step list, a stage object changed '
                'directly and re-used in a second composite that is then fitted, the templates of a fitted nested composite; '
                'biased towards templates that then need more samples than an episode has - after which all 18 helper x flag '
                'calls, transform and inverse_transform must return what the same object returned before; argument kinds: every '
                'helper x call flag once more with the argument as a pandas DataFrame whose INDEX is not 0..n-1 (permuted, '
                'reversed, offset / overlapping offset, stepped, repeated labels; rendered as integers, time stamps, strings, '
                'floats or a MultiIndex) or whose rows are permuted without re-indexing, on the array-fitted estimator and on a '
                'twin fitted on a DataFrame with string column names (itself with any index): the result must be transform / '
                'inverse_transform on the same rows in the given order (positional semantics, nothing aligned on index labels), '
                'and a frame may only be rejected if the same rows under the default index are rejected too (counted)')
    ctx.explanation = ('theorems C16_* about the executable model of the six helpers (flag logic, padding, slices); '
                       'correspondence: outputs of all helper x flag combinations on tagged data; oracle: the property '
                       'statement evaluated on the implementation, including the row counts of lift* and of retract* o lift* '
                       '(own arithmetic: a delay removes max(dx, du) rows and its inverse restores min(dx, du); chains add, a split '
                       'takes the shorter branch) and retract_state / retract_input as exact blocks of inverse_transform; lifecycle '
                       'oracle: a fitted composite is a snapshot (fit clones its templates), so the helpers, which the model and the '
                       'oracle tie to transform / inverse_transform at fit time, must be unchanged, bit for bit, by any later '
                       'change of the templates that is not followed by a refit (the history is stored in the replay); '
                       'argument-kind oracle: a DataFrame is its rows in the given order - the index is not data - so each helper on '
                       'a frame with any index must equal the reference the harness builds from transform / inverse_transform of the '
                       'fitted object on the same rows as a plain array (own padding, stripping, episode split and block slices); '
                       'calls that raise are compared with the same rows under the default RangeIndex (the probe is stored in the '
                       'replay)')
    ctx.proof_obligations('Properties.C16', THEOREMS)
    drv = ctx.get_driver()
    n = ctx.n(60, 700)
    lines, meta = [], []
    for i in range(n):
        c = gen(ctx)
        try:
            est = fit_est(c)
        except Exception as e:
            ctx.count('rejected:' + st.err_enum(e))
            continue
        toks, _ = pipes.tokens(c['spec'], est)
        pre = []
        for call in FLAGS:
            for h in HELPERS:
                try:
                    A = inputs_for(est, c, h, call)
                    out = getattr(est, h)(A, episode_feature=call)
                except Exception as ex:
                    ctx.mismatch(f'{h} raised {type(ex).__name__}: {ex}', c, None, None)
                    pre = None
                    continue
                if pre is not None:
                    pre.append((h, call, A, out))
                ce = 'n' if call is None else ('1' if call else '0')
                lines.append(f"lift {h} {1 if c['fit_ep'] else 0} {ce} {c['nx']} {c['nu']} {toks} {raw_tokens(A)}")
                meta.append((c, h, call, out))
        st.count_dist(ctx, c)
        ctx.count('fit_ep=' + str(c['fit_ep']))
        ctx.record_case({k: c[k] for k in ('spec', 'nx', 'nu', 'fit_ep', 'rows_lab')}, st.nontrivial(c))
        why, tags = oracle(c, est)
        if why:
            ctx.fail(why, c, tags)
            continue
        # argument kinds: the same calls on pandas DataFrames whose index is not 0..n-1 (read-only, before the lifecycle)
        why, tags, fc = frames(c, ctx.rng, est, ctx.count)
        if why:
            ctx.fail(why, fc, tags)
            continue
        # object lifecycle: the templates change after fit, no refit; same object, same data (est is not used afterwards)
        why, tags, lc = lifecycle(c, ctx.rng, est, pre)
        if lc.get('rejected'):
            ctx.count('lifecycle:change_rejected')
        elif lc.get('skipped'):
            ctx.count('lifecycle:skipped')
        else:
            ctx.count('lifecycle:cases')
            for o in lc.get('mutations', []):
                ctx.count('lifecycle:' + (o['op'] if o['op'] != 'inner' else 'inner:' + o['sub']['op']))
            if needs_more(lc):
                ctx.count('lifecycle:template_needs_more_samples_than_an_episode_has')
        if why:
            ctx.fail(why, lc, tags)
    replies = drv.ask(lines)
    bad = []
    for (c, h, call, out), rep in zip(meta, replies):
        ctx.count(f'call:{h}')
        M = parse_raw(rep)
        if M is None or M.shape != out.shape or not np.array_equal(M, out):
            ctx.mismatch(f'{h}(episode_feature={call}) fit_ep={c["fit_ep"]}', c,
                         None if out is None else out.tolist()[:3], None if M is None else M.tolist()[:3])
            bad.append(c)

    def search(ctx):
        for c in bad[:40]:
            fc = dict(c)
            fc['rows_lab'] = [[r[0]] + [ctx.rng.uniform(-2, 2) for _ in r[1:]] for r in c['rows_lab']]
            why, tags = oracle(fc)
            if why:
                ctx.fail(why, fc, tags)
                return
        population_search(ctx)
    return ctx.finish('proof', search)


def replay(ctx, path):
    obj = json.load(open(path))
    case = obj.get('case') or (obj.get('first_disagreement') or {}).get('case')
    why, tags = oracle(case)
    print('oracle:', why, tags)
    return 1 if why else 0
