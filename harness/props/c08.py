"""C08 - Scores measure prediction error against the aligned ground truth."""
import json
import math
import warnings
from fractions import Fraction

import numpy as np

import pykoop
from pykoop import koopman_pipeline as kpmod
from .. import core, pipes, structural as st

THEOREMS = ['Pk.C08.C08_weights', 'Pk.C08.C08_weights_len', 'Pk.C08.C08_perfect_zero', 'Pk.C08.C08_nonpos',
            'Pk.C08.weights_nonneg', 'Pk.C08.C08_floor', 'Pk.C08.C08_nonfinite', 'Pk.C08.C08_onestep_wiring',
            'Pk.C08.C08_multistep_misaligned_witness', 'Pk.C08.C08_onestep_aligned', 'Pk.C08.C08_multistep_compared',
            'Pk.predictFlat_refines', 'Pk.predictTrajectory_refines',
            'Pk.C08.C08_goodness_le_one', 'Pk.C08.C08_goodness_perfect', 'Pk.C08.C08_best_G', 'Pk.C08.C08_floor_G',
            'Pk.C08.C08_nonfinite_G']
METRIC_NAMES = {'mse': 'neg_mean_squared_error', 'mae': 'neg_mean_absolute_error',
                'mape': 'neg_mean_absolute_percentage_error', 'r2': 'r2', 'ev': 'explained_variance'}
GOOD = ('r2', 'ev')        # greater is better: not negated, best value 1
ALG = ['poly', 'bilinear', 'const', 'delay']
GAMMAS = [Fraction(0), Fraction(1, 2), Fraction(1), Fraction(3, 4), Fraction(1, 4)]


def fr(x):
    return f'{x.numerator}/{x.denominator}' if x.denominator != 1 else str(x.numerator)


def parse_val(tok):
    return float(Fraction(tok))


def layout_matrix(rng, width, min_len, ep, lo=-3, hi=3):
    eps, order = pipes.gen_layout(rng, min_len, extra=4, ep=ep)
    rows = [[l] + [rng.randint(lo, hi) for _ in range(width)] for (l, t) in order]
    if not ep:
        rows = [r[1:] for r in rows]
    return rows


def outcome(f):
    """run a scoring call, canonicalise"""
    with warnings.catch_warnings():
        warnings.simplefilter('ignore')
        try:
            v = f()
        except ValueError:
            return ('err', 'ValueError')
        except ZeroDivisionError:
            return ('err', 'ZeroDivisionError')
        except Exception as e:
            return ('err', type(e).__name__)
    if isinstance(v, float) or isinstance(v, np.floating):
        if math.isnan(v):
            return ('nan',)
        if math.isinf(v):
            return ('-inf',) if v < 0 else ('inf',)
    return ('val', float(v))


def same(o, rep):
    t = rep.split()
    if o[0] == 'err':
        return t[0] == 'err' and t[1] == o[1]
    if o[0] in ('nan', '-inf'):
        return t[0] == o[0]
    if o[0] == 'val':
        if t[0] != 'val':
            return False
        b = parse_val(t[1])
        return abs(o[1] - b) <= 1e-11 * max(1.0, abs(o[1]), abs(b))
    return False


def es_token(es):
    if es == 'raise':
        return 'raise'
    if isinstance(es, float) and math.isnan(es):
        return 'nan'
    if es == -math.inf:
        return '-inf'
    return fr(Fraction(es))


def gen_score_case(rng):
    ep = rng.random() < 0.7
    w = rng.randint(1, 3)
    m = rng.randint(1, 3)
    E = layout_matrix(rng, w, m, ep)
    # predicted: same layout, perturbed values (sometimes equal)
    mode = rng.choice(['noisy', 'noisy', 'equal'])
    P = [list(r) for r in E]
    if mode == 'noisy':
        for r in P:
            for j in range(1 if ep else 0, len(r)):
                r[j] += rng.choice([0, 0, 1, -1, 2])
    finite = rng.random() > 0.15
    return {'ep': ep, 'm': m, 'E': E, 'P': P, 'finite': finite, 'shared_kw': rng.random() < 0.35,
            'metric': rng.choice(['mse', 'mae', 'mse', 'mae', 'mape', 'r2', 'ev']),
            'es': rng.choice(['nan', 'raise', -5.0, -0.5, -100.0, '-inf']),
            'n_steps': rng.choice([None, None, 0, 1, 2, 5]),
            'gamma': rng.choice(GAMMAS + [Fraction(3, 2), Fraction(-1, 2)] if rng.random() < 0.1 else GAMMAS)}


def es_value(es):
    return {'nan': np.nan, 'raise': 'raise', '-inf': -math.inf}.get(es, es)


def es_arg(es):
    """the error_score handed to the implementation: a finite floor in another valid numeric form (cycled): Python
    float, numpy scalar types, 0-d array (element)"""
    v = es_value(es)
    if isinstance(v, float) and math.isfinite(v):
        forms = [v, np.float64(v), np.float32(v) if float(np.float32(v)) == v else v,
                 np.int64(v) if float(v).is_integer() else np.float64(v), np.array(v)[()], np.array(v)]
        es_arg.k = getattr(es_arg, 'k', 0) + 1
        return forms[es_arg.k % len(forms)]
    return v


SHARED_KW = {'multioutput': 'uniform_average'}     # one dict object reused across calls, as a cached scorer does


def run_score(c):
    P = np.array(c['P'], dtype=float)
    E = np.array(c['E'], dtype=float)
    if not c['finite']:
        P = P.copy()
        P[-1, -1] = np.inf
    metric = METRIC_NAMES[c['metric']]
    kw = SHARED_KW if c.get('shared_kw') else None
    before = dict(SHARED_KW)
    out = outcome(lambda: pykoop.score_trajectory(P, E, n_steps=c['n_steps'], discount_factor=float(c['gamma']),
                                                  regression_metric=metric, regression_metric_kw=kw,
                                                  error_score=es_arg(c['es']),
                                                  min_samples=c['m'], episode_feature=c['ep']))
    if set(SHARED_KW) != set(before):
        c['kw_mutated'] = sorted(set(SHARED_KW) - set(before))
        for k in c['kw_mutated']:
            SHARED_KW.pop(k, None)          # keep the harness's own dict clean for the following cases
    return out


def score_line(c):
    ns = 'n' if c['n_steps'] is None else str(c['n_steps'])
    return (f"{'scoreg' if c['metric'] in GOOD else 'score'} {c['metric']} {1 if c['finite'] else 0} {es_token(es_value(c['es']))} {ns} {fr(c['gamma'])} {c['m']} "
            f"{pipes.mat_tokens(c['P'], c['ep'])} {pipes.mat_tokens(c['E'], c['ep'])}")


def gen_scorer_case(ctx):
    rng = ctx.rng
    for _ in range(100):
        c = st.gen_case(rng, ALG, max_depth=2, max_len=2, cap=10, ep=None, extra=3)
        if c['spec']['k'] != 'pipe':
            c['spec'] = {'k': 'pipe', 'ss': [c['spec']]}
        if st.degree(c['spec']) > 2:
            continue
        c['rows'] = [([r[0]] if c['ep'] else []) + [rng.choice([-1, 0, 1, 2]) for _ in range(c['nx'] + c['nu'])]
                     for r in c['rows']]
        # every episode needs min_samples_+1 rows for shift + IC
        c['multistep'] = rng.random() < 0.6
        c['relift'] = rng.random() < 0.7
        c['metric'] = rng.choice(['mse', 'mae'])
        c['es'] = rng.choice(['nan', 'raise', -3.0, -1000.0])
        c['n_steps'] = rng.choice([None, None, 1, 2, 4])
        c['gamma'] = rng.choice(GAMMAS)
        return c
    raise RuntimeError


def build_kp(c, rng):
    X = st.X_of(c)
    probe = pipes.fit(c['spec'], X, c['nu'], c['ep'])
    pth, pup = probe.n_states_out_, probe.n_inputs_out_
    K = np.array([[rng.choice([-1, 0, 0, 1]) for _ in range(pth + pup)] for _ in range(pth)], dtype=float)
    kp = pykoop.KoopmanPipeline(
        lifting_functions=[(f'p{j}', pipes.build(s)) for j, s in enumerate(c['spec']['ss'])] or None,
        regressor=pykoop.DataRegressor(coef=K.T))
    kp.fit(X, n_inputs=c['nu'], episode_feature=c['ep'])
    return kp, K


# ------------------------------------------------------------------ oracles on the implementation

def linear_data(rng, nx, nu, ep, n_eps, m_extra=6):
    rs = np.random.RandomState(rng.randint(0, 2 ** 31 - 1))
    A = rs.uniform(-0.7, 0.7, (nx, nx))
    A *= 0.8 / max(0.3, np.max(np.abs(np.linalg.eigvals(A))))
    B = rs.uniform(-1, 1, (nx, nu))
    blocks = []
    labels = rng.sample(range(0, 9), n_eps)
    for l in labels:
        n = rng.randint(4, 4 + m_extra)
        x = np.zeros((n, nx))
        u = rs.uniform(-1, 1, (n, nu))
        x[0] = rs.uniform(-1, 1, nx)
        for k in range(n - 1):
            x[k + 1] = A @ x[k] + B @ u[k]
        blocks.append((l, np.hstack((x, u))))
    X = st.ref_combine(blocks, ep) if ep else blocks[0][1]
    return X, A, B


def oracle_perfect(rng):
    """a model that reproduces the data exactly gets the best score (0 for the error metrics)"""
    nx, nu = rng.randint(1, 3), rng.randint(0, 2)
    ep = rng.random() < 0.6
    X, A, B = linear_data(rng, nx, nu, ep, rng.randint(1, 3) if ep else 1)
    kp = pykoop.KoopmanPipeline(regressor=pykoop.DataRegressor(coef=np.hstack((A, B)).T))
    kp.fit(X, n_inputs=nu, episode_feature=ep)
    Xp = kp.predict_trajectory(X)
    Xtrue = X[:, :X.shape[1] - nu]
    if not np.allclose(Xp, Xtrue, rtol=1e-9, atol=1e-12):
        return None      # not a perfect model (should not happen)
    out = []
    s = pykoop.score_trajectory(Xp, Xtrue, episode_feature=ep)
    if abs(s) > 1e-18:
        out.append(('score_trajectory(perfect prediction) is not the best score 0: %r' % s,
                    {'call': 'score_trajectory'}))
    for multistep in (True, False):
        s = pykoop.KoopmanPipeline.make_scorer(multistep=multistep)(kp, X)
        if abs(s) > 1e-16:
            out.append((f'a model reproducing the data exactly scores {s!r} with make_scorer(multistep={multistep}) '
                        f'(prediction of time k is compared with the truth at time k+1)',
                        {'call': 'make_scorer', 'multistep': multistep}))
    s1 = kp.score(X)
    s2 = pykoop.KoopmanPipeline.make_scorer()(kp, X)
    if not (s1 == s2):
        out.append((f'KoopmanPipeline.score {s1!r} != make_scorer()(..) {s2!r}', {'call': 'score'}))
    return out, {'nx': nx, 'nu': nu, 'ep': ep, 'X': X.tolist(), 'A': A.tolist(), 'B': B.tolist()}


def oracle_scorer(rng):
    """make_scorer(...) (and score) agree with score_trajectory applied to predict_trajectory: float data, pipelines WITH
    delays (min_samples_ > 1), every option.  Two references are accepted for the multistep scorer - the aligned one
    (prediction of time k vs truth at time k) and the one the current code implements (known finding F-score: the
    trajectory predicted from the data without each episode's last sample vs the data shifted by one) - a value equal to
    neither is a new violation of the clause."""
    nx, nu = rng.randint(1, 3), rng.randint(0, 2)
    ep = rng.random() < 0.7
    X, A, B = linear_data(rng, nx, nu, ep, rng.randint(1, 3) if ep else 1, m_extra=7)
    dx, du = rng.choice([(0, 0), (1, 1), (2, 2), (1, 0), (2, 1), (0, 1)])
    if nu == 0:
        du = 0
    lfs = []
    kind = rng.choice(['delay', 'delay', 'poly+delay', 'delay+poly', 'none'])
    if 'delay' in kind and (dx or du):
        lfs.append(('d', pykoop.DelayLiftingFn(n_delays_state=dx, n_delays_input=du)))
    if 'poly' in kind:
        pl = ('p', pykoop.PolynomialLiftingFn(order=2))
        lfs = ([pl] + lfs) if kind.startswith('poly') else (lfs + [pl])
    kp = pykoop.KoopmanPipeline(lifting_functions=lfs or None, regressor=pykoop.Edmd(alpha=0.5))
    kp.fit(X, n_inputs=nu, episode_feature=ep)
    m = kp.min_samples_
    blocks = st.ref_split(X, ep)
    if min(b.shape[0] for _, b in blocks) < m + 2:
        return None
    n_steps = rng.choice([None, 1, 2, 3, 5, 50])
    gamma = rng.choice([1.0, 0.5, 0.25])
    multistep = rng.random() < 0.75
    relift = rng.random() < 0.6
    metric = rng.choice(['neg_mean_squared_error', 'neg_mean_absolute_error'])
    sc = pykoop.KoopmanPipeline.make_scorer(n_steps=n_steps, discount_factor=gamma, regression_metric=metric,
                                            multistep=multistep, relift_state=relift)
    got = outcome(lambda: sc(kp, X))
    case = {'nx': nx, 'nu': nu, 'ep': ep, 'X': X.tolist(), 'delays': [dx, du], 'kind': kind, 'n_steps': n_steps,
            'gamma': gamma, 'multistep': multistep, 'relift': relift, 'metric': metric, 'min_samples': m}
    Xs = np.asarray(X, dtype=float)
    nst = Xs.shape[1] - nu     # episode column (if any) + states
    unsh = st.ref_combine([(l, b[:-1]) for l, b in blocks], ep)
    shif = st.ref_combine([(l, b[1:, :b.shape[1] - nu]) for l, b in blocks], ep)
    refs = []
    try:
        if multistep:
            kw = dict(n_steps=n_steps, discount_factor=gamma, regression_metric=metric, min_samples=m, episode_feature=ep)
            refs.append(pykoop.score_trajectory(kp.predict_trajectory(Xs, relift_state=relift), Xs[:, :nst], **kw))
            refs.append(pykoop.score_trajectory(kp.predict_trajectory(unsh, relift_state=relift), shif, **kw))
        else:
            refs.append(pykoop.score_trajectory(kp.predict(unsh), shif, regression_metric=metric, min_samples=m,
                                                episode_feature=ep))
    except Exception as ex:
        return None
    out = []
    if got[0] != 'val' or not any(abs(got[1] - r) <= 1e-9 * max(1.0, abs(r)) for r in refs):
        out.append((f'make_scorer(n_steps={n_steps}, discount_factor={gamma}, multistep={multistep}, relift_state={relift}) '
                    f'returned {got} on a pipeline with min_samples_={m}; score_trajectory applied to predict_trajectory '
                    f'gives {refs}', {'call': 'make_scorer_vs_score_trajectory', 'multistep': multistep}))
    return out, case


def oracle_formula(c):
    """score equals the negated weighted error with weight discount**k on the k-th predicted step of each
    episode, zero beyond n_steps, IC excluded; finite error_score is a floor; non-finite -> error_score"""
    o = run_score(c)
    g = float(c['gamma'])
    if not (0 <= g <= 1):
        return None
    P = np.array(c['P'], dtype=float)
    E = np.array(c['E'], dtype=float)
    es = es_value(c['es'])
    if not c['finite']:
        if es == 'raise':
            ok = o == ('err', 'ValueError')
        elif isinstance(es, float) and math.isnan(es):
            ok = o == ('nan',)
        elif es == -math.inf:
            ok = o == ('-inf',)
        else:
            ok = o == ('val', float(es))
        return None if ok else f'non-finite prediction: expected error_score behaviour, got {o}'
    eP, eE = st.episodes(P, c['ep']), st.episodes(E, c['ep'])
    ncols = E.shape[1] - (1 if c['ep'] else 0)
    gq = Fraction(c['gamma'])
    ws, pr, ex = [], [], []            # weights, predicted rows, expected rows (IC stripped), exact rationals
    for l in sorted(eE):
        a, b = eP[l][c['m']:], eE[l][c['m']:]
        for k in range(b.shape[0]):
            ws.append(gq ** k if (c['n_steps'] is None or k < c['n_steps']) else Fraction(0))
            pr.append([Fraction(int(v)) for v in a[k]])
            ex.append([Fraction(int(v)) for v in b[k]])
    W = sum(ws)
    if W == 0 or ncols == 0:
        return None
    if c['metric'] in GOOD:
        if c['metric'] == 'r2' and len(ws) < 2:
            return None                  # scikit-learn: not well defined (NaN -> error_score), compared by the model
        tot = Fraction(0)
        for j in range(ncols):
            y = [r[j] for r in ex]
            d = [r[j] - q[j] for r, q in zip(ex, pr)]
            ybar = sum(w * v for w, v in zip(ws, y)) / W
            den = sum(w * (v - ybar) ** 2 for w, v in zip(ws, y))
            if c['metric'] == 'r2':
                num = sum(w * v ** 2 for w, v in zip(ws, d))
            else:
                dbar = sum(w * v for w, v in zip(ws, d)) / W
                num = sum(w * (v - dbar) ** 2 for w, v in zip(ws, d))
            tot += 1 if num == 0 else (0 if den == 0 else 1 - num / den)
        want = float(tot / ncols)
        if want > 1 + 1e-12:
            return f'independent formula gives a score above the best attainable value 1: {want!r}'
    else:
        eps = Fraction(np.finfo(np.float64).eps)
        num = Fraction(0)
        for w, a, b in zip(ws, pr, ex):
            for x, y in zip(a, b):
                if c['metric'] == 'mse':
                    num += w * (x - y) ** 2
                elif c['metric'] == 'mae':
                    num += w * abs(x - y)
                else:
                    num += w * abs(x - y) / max(abs(y), eps)
        want = -float(num / (W * ncols))
    if isinstance(es, float) and math.isfinite(es) and want < es:
        want = es
    if o[0] != 'val' or abs(o[1] - want) > 1e-10 * max(1.0, abs(want)):
        return f'score {o} != weighted formula {want!r} ({c["metric"]})'
    if np.array_equal(P, E) and not (isinstance(es, float) and math.isfinite(es)):
        best = 1.0 if c['metric'] in GOOD else 0.0
        if o[1] != best:
            return f'a prediction equal to the expected trajectory scores {o[1]!r}, not the best value {best} ({c["metric"]})'
    return None


def population_search(ctx):
    """failing-input search over a fresh population (also used when an exception raised inside the implementation
    ended the correspondence run early)"""
    for i in range(300):
        c = gen_score_case(ctx.rng)
        why = oracle_formula(c)
        if why:
            ctx.fail(why, {k: str(v) for k, v in c.items()}, {'call': 'score_trajectory'})
            return
    for i in range(400):
        res = oracle_scorer(ctx.rng)
        if res and res[0]:
            for why, tags in res[0]:
                ctx.fail(why, res[1], tags)
            return


def run(ctx):
    ctx.rule = ('(a) score_trajectory on small integer trajectories: layouts x min_samples 1..3 x n_steps '
                '{None,0,1,2,5} x discount {0,1/4,1/2,3/4,1, out-of-range} x metric {mse,mae,mape,r2,explained_variance} x error_score '
                '{nan, raise, finite floors, -inf} x finite/non-finite predictions, compared with exact rational '
                'arithmetic; (b) scorer wiring through random algebraic pipelines with integer Koopman matrices '
                '(multistep/one-step, relift, all options); non-trivial = any')
    ctx.explanation = ('theorems C08_* about the rational model of the weights, score_trajectory and the scorer wiring; '
                       'correspondence: weights / scores / error behaviour exact up to 1e-11; oracles: weighted-error '
                       'formula, floor, non-finite handling, score == make_scorer, perfect model => best score')
    ctx.proof_obligations('Properties.C08', THEOREMS)
    drv = ctx.get_driver()
    lines, meta = [], []
    for i in range(ctx.n(250, 3000)):
        c = gen_score_case(ctx.rng)
        lines.append(score_line(c))
        meta.append(('score', c, run_score(c)))
        E = np.array(c['E'], dtype=float)
        if 0 <= c['gamma'] <= 1:
            w = kpmod._weights_from_data_matrix(E, n_steps=c['n_steps'], discount_factor=float(c['gamma']),
                                                episode_feature=c['ep'])
            ns = 'n' if c['n_steps'] is None else str(c['n_steps'])
            lines.append(f"weights {ns} {fr(c['gamma'])} {pipes.mat_tokens(c['E'], c['ep'])}")
            meta.append(('weights', c, [float(x) for x in w]))
    for i in range(ctx.n(80, 900)):
        c = gen_scorer_case(ctx)
        try:
            kp, K = build_kp(c, ctx.rng)
        except Exception as ex:
            ctx.count('rejected:' + st.err_enum(ex))
            continue
        X = st.X_of(c)
        metric = METRIC_NAMES[c['metric']]
        sc = pykoop.KoopmanPipeline.make_scorer(n_steps=c['n_steps'], discount_factor=float(c['gamma']),
                                                regression_metric=metric, error_score=es_arg(c['es']),
                                                multistep=c['multistep'], relift_state=c['relift'])
        o = outcome(lambda: sc(kp, X))
        toks, _ = pipes.tokens(c['spec'], kp)
        kt = f'{K.shape[0]} {K.shape[1]} ' + ' '.join(str(int(v)) for v in K.ravel())
        b = lambda v: 1 if v else 0
        ns = 'n' if c['n_steps'] is None else str(c['n_steps'])
        lines.append(f"scorer {b(c['multistep'])} {b(c['relift'])} {c['metric']} {es_token(es_value(c['es']))} {ns} "
                     f"{fr(c['gamma'])} {c['nx']} {c['nu']} {toks} {kt} "
                     f"{pipes.mat_tokens([[int(v) for v in r] for r in c['rows']], c['ep'])}")
        meta.append(('scorer', c, o))
        if c['n_steps'] is None and c['gamma'] == 1 and c['metric'] == 'mse' and c['multistep'] and c['relift'] \
                and isinstance(es_value(c['es']), float) and math.isnan(es_value(c['es'])):
            o2 = outcome(lambda: kp.score(X))
            if o2 != o:
                ctx.fail(f'KoopmanPipeline.score {o2} != make_scorer() {o}', c, {'call': 'score'})
    replies = drv.ask(lines)
    bad = []
    for (kind, c, o), rep in zip(meta, replies):
        ctx.count('obs:' + kind)
        cc = {k: (str(v) if isinstance(v, Fraction) else v) for k, v in c.items() if k != 'rows' or kind == 'scorer'}
        ctx.record_case(dict(cc, kind=kind), True)
        if kind == 'weights':
            t = rep.split()
            got = [parse_val(x) for x in t[1:]] if t[0] == 'ok' else None
            if got != o:
                ctx.mismatch('weights', cc, o, got)
                bad.append(c)
        else:
            ctx.count(f'{kind}:' + o[0] + (':' + o[1] if o[0] == 'err' else ''))
            if not same(o, rep):
                ctx.mismatch(kind, cc, list(o), rep[:80])
                bad.append(c)
        if kind == 'score':
            if c.get('kw_mutated'):
                ctx.fail(f"score_trajectory wrote {c['kw_mutated']} into the caller's regression_metric_kw dictionary "
                         '(a later call with the same dictionary reuses stale weights)', cc, {'call': 'score_trajectory'})
            why = oracle_formula(c)
            if why:
                ctx.fail(why, cc, {'call': 'score_trajectory'})
    for i in range(ctx.n(6, 60)):
        res = oracle_perfect(ctx.rng)
        if res:
            fails, case = res
            for why, tags in fails:
                ctx.fail(why, case, tags)
    for i in range(ctx.n(30, 400)):
        res = oracle_scorer(ctx.rng)
        ctx.count('scorer-oracle:' + ('skipped' if res is None else 'run'))
        if res:
            fails, case = res
            ctx.count(f"scorer-oracle:min_samples={case['min_samples']}")
            for why, tags in fails:
                ctx.fail(why, case, tags)

    def search(ctx):
        population_search(ctx)
    return ctx.finish('proof', search)


def replay(ctx, path):
    obj = json.load(open(path))
    print(json.dumps(obj, indent=1)[:2000])
    return 1
