"""C09 - Spectral-radius-constrained fits respect the requested bound."""
import json
from fractions import Fraction

import numpy as np

import pykoop
import pykoop.lmi_regressors as lmi
from .. import core, lmi_common as lc

THEOREMS = ['Pk.C09.C09_contract', 'Pk.C09.C09_powers', 'Pk.C09.C09_eigen', 'Pk.C09.C09_dmdc',
            'Pk.C09.C09_loop_inv', 'Pk.C09.C09_loop_counts', 'Pk.C09.C09_monotone', 'Pk.C09.C09_log_monotone',
            'PkLA.specLmiA_eq', 'PkLA.specLmiB_eq']


def structure_case(ctx):
    """real _create_problem_a/_b evaluated at dyadic points vs the Lean block definitions over Q"""
    rng = ctx.rng
    nx, nu = rng.randint(1, 3), rng.randint(0, 2)
    X, kw, _, _ = lc.lin_data(rng, nx, nu, noise=0.05)
    Xu, Xs = pykoop.shift_episodes(X, n_inputs=nu, episode_feature=True)
    Xu, Xs = Xu[:, 1:], Xs[:, 1:]
    rho = rng.choice([Fraction(1, 2), Fraction(3, 4), Fraction(1), Fraction(9, 8)])
    reg = lmi.LmiEdmdSpectralRadiusConstr(spectral_radius=float(rho), inv_method=rng.choice(['svd', 'chol', 'eig']),
                                          picos_eps=0, solver_params=dict(lc.SOLVER))
    reg.tsvd_ = pykoop.Tsvd()
    reg.solver_params_ = dict(lc.SOLVER)
    P = lc.dyadic(rng, (nx, nx))
    if rng.random() < 0.7:
        P = (P + P.T) / 2
    U = lc.dyadic(rng, (nx, nx + nu))
    out = []
    pa = reg._create_problem_a(Xu, Xs, P)
    pa.variables['U'].value = U
    pa.variables['Z'].value = np.eye(nx)
    blocks = lc.constraint_blocks(pa)
    lhs = [b for b in blocks if b[0].shape == (2 * nx, 2 * nx)][-1][0]
    out.append((f"specA {nx} {lc.fr(rho)} {lc.mat_tok(P)} {lc.mat_tok(U[:, :nx])}", lhs, 'problem A'))
    Ps = (P + P.T) / 2
    pb = reg._create_problem_b(U)
    pb.variables['P'].value = Ps
    blocks = lc.constraint_blocks(pb)
    lhs = [b for b in blocks if b[0].shape == (2 * nx, 2 * nx)][-1][0]
    out.append((f"specB {nx} {lc.fr(rho)} {lc.mat_tok(Ps)} {lc.mat_tok(U[:, :nx])}", lhs, 'problem B'))
    return out, {'nx': nx, 'nu': nu, 'rho': str(rho)}


def dmdc_structure_case(ctx):
    """LmiDmdcSpectralRadiusConstr: the real sub-problems on dyadic SVD factors; the base block (shared with LmiDmdc) and
    the spectral-radius blocks on A_hat = U_hat[:, :r_hat]"""
    rng = ctx.rng
    f = lc.dmdc_factors(rng)
    rh, pu, q = f['rh'], f['pu'], f['q']
    rho = rng.choice([Fraction(1, 2), Fraction(3, 4), Fraction(1), Fraction(9, 8)])
    reg = lmi.LmiDmdcSpectralRadiusConstr(spectral_radius=float(rho), alpha=q * f['alpha'], picos_eps=0,
                                          solver_params=dict(lc.SOLVER))
    P = lc.dyadic(rng, (rh, rh))
    if rng.random() < 0.7:
        P = (P + P.T) / 2
    Uh = lc.dyadic(rng, (rh, rh + pu), den=2)
    W = lc.dyadic(rng, (rh, rh), den=2); W = (W + W.T) / 2
    pa = reg._create_problem_a(*lc.dmdc_args(f), P)
    pa.variables['U_hat'].value = Uh
    pa.variables['W_hat'].value = W
    blocks = lc.constraint_blocks(pa)
    out = []
    if len(blocks) != 3:
        return [('bad', np.zeros((1, 1)), f'Dmdc problem A has {len(blocks)} constraints, expected 3')], lc.dmdc_tag(f)
    out.append((lc.dmdc_line(f, W, Uh), blocks[1][0], 'Dmdc problem A (base block)'))
    out.append((f"specA {rh} {lc.fr(rho)} {lc.mat_tok(P)} {lc.mat_tok(Uh[:, :rh])}", blocks[2][0], 'Dmdc problem A'))
    Ps = (P + P.T) / 2
    pb = reg._create_problem_b(Uh)
    pb.variables['P'].value = Ps
    blocks = lc.constraint_blocks(pb)
    lhs = [b for b in blocks if b[0].shape == (2 * rh, 2 * rh)][-1][0]
    out.append((f"specB {rh} {lc.fr(rho)} {lc.mat_tok(Ps)} {lc.mat_tok(Uh[:, :rh])}", lhs, 'Dmdc problem B'))
    return out, dict(lc.dmdc_tag(f), rho=str(rho))


def oracle_fit(ctx, thorough, forced=None):
    """end-to-end with cvxopt: eigenvalues of the returned A within the bound, objective log non-increasing"""
    snap = ctx.snap()
    rng = ctx.rng
    nx, nu = rng.randint(1, 4 if thorough else 3), rng.randint(0, 2)
    radius = rng.choice([0.6, 1.0, 1.15, 1.4])
    rho = rng.choice([0.5, 0.8, 1.0, 1.2])
    if forced is not None:
        rho, radius = forced[0], forced[1]          # bound above one AND data more unstable than the bound: the constraint is active
        nx, nu = rng.randint(1, 2), 1
    X, kw, A0, B0 = lc.lin_data(rng, nx, nu, radius=radius, noise=rng.choice([0.0, 0.02, 0.1]), n_min=10 if radius > 1.2 else 12)
    X, data_form = lc.maybe_int_data(rng, X, kw)
    scaled = forced is not None and forced[-1] == 'scaled'
    if scaled:
        # state features of clearly different magnitudes (one state in other units), several iterations, active constraint
        nx = rng.randint(3, 4)
        X, kw, A0, B0 = lc.lin_data(rng, nx, nu, n_eps=3, radius=1.02, noise=0.01, n_min=22)
        X = np.array(X, dtype=float)
        X[:, 1] *= rng.choice([8.0, 12.0, 20.0])
        data_form = 'first state in other units (x8..x20)'
    if forced is not None and len(forced) > 4 and not scaled:
        # integer samples (sensor counts, no episode column) of a slightly unstable NON-NORMAL system: the constrained A
        # keeps a diagonal entry above one although its eigenvalues are inside the bound
        rs = np.random.RandomState(rng.randint(0, 2 ** 31 - 1))
        nx, nu = 2, 1
        At = np.array([[1.3, -0.8], [0.7, 0.4]]) * rng.choice([1.0, 0.97])
        Bt = np.array([[0.0], [0.5]])
        n = 12
        x = np.zeros((n, 2)); u = rs.uniform(-1, 1, (n, 1)); x[0] = [1.0, 0.5]
        for k in range(n - 1):
            x[k + 1] = At @ x[k] + Bt @ u[k]
        X = np.round(np.hstack((x, u)) * 8).astype('int64')
        kw = {'n_inputs': 1, 'episode_feature': False}
        data_form = 'integer dtype, no episode feature, non-normal system'
    max_iter = rng.choice([1, 2, 5] + ([20] if thorough else []))
    if scaled:
        max_iter = 10
    if forced is not None and len(forced) > 4 and not scaled:
        max_iter = 5        # (with P = I only, every entry of a feasible A is below the bound)
    fam = rng.choice(['edmd', 'dmdc'])
    if forced is not None and len(forced) > 2:
        fam = forced[2]
    sp = dict(lc.SOLVER)
    cap = None
    if forced is not None and len(forced) > 3:
        # a solver that is stopped early: sub-problems end 'non-optimal' and whatever the fit returns must still be a
        # matrix that satisfied the constraint (the last optimal U, or zero)
        cap = forced[3]
        if cap is not None:
            sp['max_iterations'] = cap
    if fam == 'edmd':
        reg = lmi.LmiEdmdSpectralRadiusConstr(spectral_radius=lc.num(rng, rho), max_iter=max_iter, alpha=rng.choice([0, 0.1]),
                                              inv_method=rng.choice(['svd', 'chol']), solver_params=sp)
    else:
        reg = lmi.LmiDmdcSpectralRadiusConstr(spectral_radius=lc.num(rng, rho), max_iter=max_iter, alpha=rng.choice([0, 0.1]),
                                              solver_params=sp)
    case = {'family': fam, 'nx': nx, 'nu': nu, 'rho': rho, 'max_iter': max_iter, 'data_radius': radius,
            'solver_max_iterations': cap, 'data_form': data_form, 'X': X.tolist(),
            'replay': {'rng': snap, 'thorough': thorough, 'forced': forced}}
    try:
        reg.fit(X, **kw)
    except Exception as ex:
        return None, case, 'fit did not complete: ' + type(ex).__name__
    A = reg.coef_.T[:, :nx]
    ev = np.max(np.abs(np.linalg.eigvals(A))) if A.size else 0.0
    if ev > rho + 1e-5:
        return (f'{type(reg).__name__}: spectral radius of the returned A is {ev:.6f} > requested {rho}', case, None)
    log = reg.objective_log_
    for a, b in zip(log, log[1:]):
        if b > a + 1e-4 * max(1.0, abs(a)):        # cvxopt stops at ~1e-6 relative accuracy of a larger internal scale
            return (f'{type(reg).__name__}: logged objective increases from {a} to {b}', case, None)
    return None, case, reg.stop_reason_


def run(ctx):
    ctx.rule = ('(i) the real _create_problem_a/_b of LmiEdmdSpectralRadiusConstr evaluated with PICOS at dyadic points '
                '(1..3 lifted states, 0..2 inputs, symmetric and non-symmetric P) vs the Lean block definitions over Q '
                '(1e-12: PICOS evaluates affine expressions through sparse float products); (ii) the alternating loop driven by a scripted solver (optimal / non-optimal A and B, tolerance '
                'hits, budget exhaustion, stop flag before A_k / B_k) vs the loop machine: returned U, P, stop reason, '
                'n_iter_, objective_log_; (iii) end-to-end cvxopt fits on stable / marginal / unstable data')
    ctx.explanation = ('theorems C09_* (Lyapunov contraction, complex eigenvalue bound, DMDc transfer, loop invariant); '
                       'correspondence of LMI structure and loop; oracle: eigenvalues of the returned A vs rho + 1e-5, '
                       'objective log monotone up to 1e-4')
    ctx.assumptions = ["an 'optimal' solver answer satisfies the constraints it was given up to solver tolerance "
                       '(trusted base; the end-to-end oracle measures the resulting spectral radius)']
    ctx.proof_obligations('Properties.C09', THEOREMS)
    drv = ctx.get_driver()
    # (i) structure
    def _sec_problem_structure():
        la_lines, la_meta = [], []
        for i in range(ctx.n(25, 300)):
            items, tag = structure_case(ctx)
            for line, lhs, what in items:
                la_lines.append(line)
                la_meta.append((lhs, what, tag))
        for i in range(ctx.n(15, 200)):
            items, tag = dmdc_structure_case(ctx)
            for line, lhs, what in items:
                la_lines.append(line)
                la_meta.append((lhs, what, tag))
        for (lhs, what, tag), rep in zip(la_meta, lc.la_ask(la_lines)):
            ctx.count('structure:' + what)
            ctx.record_case(dict(tag, part=what), True)
            M = lc.parse_mat(rep)
            if M is None or M.shape != lhs.shape or not np.allclose(M, lhs, rtol=1e-12, atol=1e-12):
                ctx.mismatch(f'LMI block of {what}', tag, lhs.tolist(), None if M is None else M.tolist())
    ctx.attempt('problem structure', _sec_problem_structure)
    # (ii) loop
    def _sec_scripted_loop():
        lines, meta = [], []
        for i in range(ctx.n(60, 800)):
            nx, nu = ctx.rng.randint(1, 2), ctx.rng.randint(0, 1)
            X, kw, _, _ = lc.lin_data(ctx.rng, nx, nu)
            fam = ctx.rng.choice(['edmd', 'edmd', 'dmdc'])
            if fam == 'edmd':
                mk = lambda **k: lmi.LmiEdmdSpectralRadiusConstr(spectral_radius=0.9, solver_params=dict(lc.SOLVER), **k)
                reg, script, rows, line = lc.check_loop(ctx, mk, X, kw, (nx, nx + nu), (nx, nx), None, None)
                Uret = reg.coef_.T
            else:
                mk = lambda **k: lmi.LmiDmdcSpectralRadiusConstr(spectral_radius=0.9, solver_params=dict(lc.SOLVER), **k)
                reg, script, rows, line = lc.check_loop(ctx, mk, X, kw, (nx, nx + nu), (nx, nx), None, None, u_name='U_hat')
                Uret = reg.U_hat_ if hasattr(reg, 'U_hat_') else None
            lines.append(line)
            meta.append((fam, reg, script, rows, Uret, nx, nu))
        for (fam, reg, script, rows, Uret, nx, nu), rep in zip(meta, drv.ask(lines)):
            t = rep.split()
            ctx.count('loop:' + fam)
            case = {'family': fam, 'rows': [[a, str(o), b] for a, o, b in rows], 'stop_at': script.stop_at,
                    'max_iter': reg.max_iter, 'atol': reg.iter_atol}
            ctx.record_case(case, True)
            if t[0] != 'ok':
                ctx.mismatch('loop machine', case, None, rep)
                continue
            ui, pi, stop, n_iter, nlog = int(t[1]), int(t[2]), t[3], int(t[4]), int(t[5])
            log = [float(Fraction(x)) for x in t[6:6 + nlog]]
            ctx.count('stop:' + stop)
            obs = {'stop': lc.stop_category(reg.stop_reason_), 'n_iter': int(reg.n_iter_), 'log': [float(x) for x in reg.objective_log_]}
            want = {'stop': stop, 'n_iter': n_iter, 'log': log}
            if obs != want:
                ctx.mismatch('loop outcome (stop reason, n_iter_, objective_log_)', case, obs, want)
            if Uret is not None:
                wantU = np.zeros_like(script.a[0][1]) if ui < 0 else script.a[ui][1]
                if Uret.shape != wantU.shape or not np.array_equal(Uret, wantU):
                    ctx.mismatch('returned U is not the U of the sub-problem-A answer the machine names', case,
                                 Uret.tolist(), [ui, wantU.tolist()])
            wantP = np.eye(script.b[0][1].shape[0]) if pi < 0 else script.b[pi][1]
            if hasattr(reg, 'P_') and not np.array_equal(np.asarray(reg.P_), wantP):
                ctx.mismatch('returned P_ is not the P of the sub-problem-B answer the machine names', case,
                             np.asarray(reg.P_).tolist(), [pi, wantP.tolist()])
    ctx.attempt('scripted loop', _sec_scripted_loop)
    # (iii) end to end
    sweeps = [(rho, rad, fam) for rho in (1.1, 1.2) for rad in (1.4,) for fam in ('edmd', 'dmdc')] + \
             [(0.7, 1.4, 'edmd'), (0.7, 1.4, 'dmdc')] + \
             [(rho, 1.4, fam, cap) for rho in (0.3, 0.5) for fam in ('edmd', 'dmdc') for cap in (4, 6)] + \
             [(0.95, 1.0, fam, None, 'int') for fam in ('edmd',) * 8 + ('dmdc',) * 3] + \
             [(rho, 1.0, fam, None, 'scaled') for rho in (0.8, 0.9) for fam in ('edmd', 'edmd', 'dmdc', 'dmdc')]

    def end_to_end(n, stop_at_first=False):
        for i in range(n + len(sweeps)):
            why, case, note = oracle_fit(ctx, ctx.tier == 'thorough', forced=sweeps[i] if i < len(sweeps) else None)
            ctx.count('fit:' + case['family'])
            if note:
                ctx.count('fit_note:' + lc.stop_category(note) if not note.startswith('fit did not') else 'fit_incomplete')
            if why:
                ctx.fail(why, case, {'family': case['family']})
                if stop_at_first:
                    return
    end_to_end(ctx.n(30, 500))
    # a broken proof / correspondence with no failing fit so far: a larger population of fits (same oracle)
    return ctx.finish('proof', lambda c: end_to_end(120, True))


def replay(ctx, path):
    """re-execute the oracle call that produced the replay (same PRNG state, same forced arguments)"""
    obj = json.load(open(path))
    r = (obj.get('case') or {}).get('replay') if isinstance(obj.get('case'), dict) else None
    print(json.dumps({k: v for k, v in obj.items() if k != 'case'}, indent=1)[:1500])
    if not r:
        print('this replay carries no re-executable oracle call (broken proof / correspondence: see "broken")')
        return 1
    ctx.restore(r['rng'])
    why, case, note = oracle_fit(ctx, r['thorough'], forced=None if r['forced'] is None else tuple(r['forced']))
    print('oracle now:', why or 'property holds on this input', '' if note is None else f'({note})')
    return 1 if why else 0
