"""C12 - LMI regressors minimise the regularised cost they document."""
import json
from fractions import Fraction

import numpy as np
import scipy.optimize

import pykoop
import pykoop.lmi_regressors as lmi
from .. import core, lmi_common as lc, structural as st

THEOREMS = ['Pk.C12.C12_schur_I', 'Pk.C12.C12_constraint', 'Pk.C12.C12_epigraph', 'Pk.C12.C12_cost',
            'Pk.C12.C12_tikhonov_is_edmd', 'Pk.C12.C12_twonorm_sound', 'Pk.C12.C12_nuclear_partial',
            'Pk.C12.C12_twonorm_epigraph', 'Pk.C12.C12_nuclear_epigraph', 'Pk.C12.C12_nuclear_trace_bound', 'Pk.C12.C12_nuclear_epigraph_exists',
            'Pk.C12.C12_constraint_inv', 'Pk.C12.C12_epigraph_inv',
            'Pk.C12.C12_dmdc_constraint', 'Pk.C12.C12_dmdc_epigraph', 'Pk.C12.C12_dmdc_cost', 'Pk.C12.C12_dmdc_defect',
            'PkLA.dmdc_residual']
INV = ['inv', 'pinv', 'eig', 'ldl', 'chol', 'sqrt', 'svd']


def int_data(rng, nx, nu, q):
    """integer data with exactly q training pairs (q a power of two so that G, H, c are dyadic)"""
    rows = [[0] + [rng.randint(-3, 3) for _ in range(nx + nu)] for _ in range(q + 1)]
    X = np.array(rows, dtype=float)
    if rng.random() < 0.6 and nx + nu >= 2:
        # correlated features of different magnitude (dyadic factors): makes pivoting factorisations (ldl) pivot
        j, k = rng.sample(range(nx + nu), 2)
        X[:, 1 + k] = 2 * X[:, 1 + j] + X[:, 1 + k] / 4
        X[:, 1 + rng.randrange(nx + nu)] *= rng.choice([0.25, 4.0, 8.0])
    return X


def structure_case(ctx):
    rng = ctx.rng
    nx, nu = rng.randint(1, 3), rng.randint(0, 2)
    q = rng.choice([8, 16])
    X = int_data(rng, nx, nu, q)
    Xu, Xs = pykoop.shift_episodes(X, n_inputs=nu, episode_feature=True)
    Xu, Xs = Xu[:, 1:], Xs[:, 1:]
    Psi, Theta = Xu.T, Xs.T
    alpha = rng.choice([0.0, 0.5, 2.0])        # alpha_tikhonov already divided by q in the code's call
    H = (Psi @ Psi.T) / q + alpha * np.eye(nx + nu)
    if np.linalg.cond(H) > 1e6:
        return None
    G = (Theta @ Psi.T) / q
    c = np.trace(Theta @ Theta.T) / q
    inv = rng.choice(INV)
    prob = lmi.LmiEdmd._create_base_problem(Xu, Xs, alpha, inv, pykoop.Tsvd(), 0)
    U = lc.dyadic(rng, (nx, nx + nu))
    Zm = lc.dyadic(rng, (nx, nx)); Zm = (Zm + Zm.T) / 2
    prob.variables['U'].value = U
    prob.variables['Z'].value = Zm
    blocks = lc.constraint_blocks(prob)
    big = [b for b in blocks if b[0].shape[0] > nx][-1][0]
    obj = float(prob.objective.function.value)
    return {'nx': nx, 'nu': nu, 'q': q, 'alpha': alpha, 'inv': inv, 'U': U, 'Z': Zm, 'H': H, 'G': G, 'c': c,
            'block': big, 'obj': obj}


def dmdc_structure_case(ctx):
    """LmiDmdc._create_base_problem on dyadic 'SVD factors' (lc.dmdc_factors); returns the protocol line and the
    constraint block"""
    rng = ctx.rng
    f = lc.dmdc_factors(rng)
    prob = lmi.LmiDmdc._create_base_problem(*lc.dmdc_args(f), f['alpha'], 0)
    Uh = lc.dyadic(rng, (f['rh'], f['rh'] + f['pu']), den=2)
    W = lc.dyadic(rng, (f['rh'], f['rh']), den=2); W = (W + W.T) / 2
    prob.variables['U_hat'].value = Uh
    prob.variables['W_hat'].value = W
    blocks = [b for b in lc.constraint_blocks(prob) if b[0].shape[0] == f['rh'] + f['rt']]
    if not blocks:
        return None
    return lc.dmdc_line(f, W, Uh), blocks[-1][0], float(prob.objective.function.value) - float(np.trace(W)), lc.dmdc_tag(f)


def check_block(s):
    """the epigraph block is [[Z, U L],[L^T U^T, I]] with L L^T = H, or [[Z, U],[U^T, H^-1]]"""
    nx, p = s['U'].shape
    B = s['block']
    if not np.allclose(B[:nx, :nx], s['Z'], atol=1e-12):
        return 'upper-left block is not Z'
    UL = B[:nx, nx:]
    if not np.allclose(B[nx:, :nx], UL.T, atol=1e-12):
        return 'block is not symmetric'
    D = B[nx:, nx:]
    scale = max(1.0, np.max(np.abs(s['H'])))
    if s['inv'] in ('inv', 'pinv'):
        if not np.allclose(UL, s['U'], atol=1e-12):
            return 'off-diagonal block is not U'
        if not np.allclose(D @ s['H'], np.eye(p), atol=1e-8 * scale):
            return 'lower-right block is not H^-1'
    else:
        if not np.allclose(D, np.eye(D.shape[0]), atol=1e-12):
            return 'lower-right block is not I'
        if not np.allclose(UL @ UL.T, s['U'] @ s['H'] @ s['U'].T, atol=1e-8 * scale * max(1.0, np.max(np.abs(s['U'])) ** 2)):
            return 'off-diagonal block is not U L with L L^T = H'
    return None


def doc_cost(U, Psi, Theta, q, a_tik, a_other, reg, square):
    base = np.linalg.norm(Theta - U @ Psi, 'fro') ** 2 + a_tik * np.linalg.norm(U, 'fro') ** 2
    if reg == 'twonorm':
        nrm = np.linalg.norm(U, 2)
    elif reg == 'nuclear':
        nrm = np.linalg.norm(U, 'nuc')
    else:
        nrm = 0.0
    return (base + a_other * (nrm ** 2 if square else nrm)) / q


def oracle_fit(ctx, thorough):
    snap = ctx.snap()
    rng = ctx.rng
    nx, nu = rng.randint(1, 3), rng.randint(0, 2)
    X, kw, _, _ = lc.lin_data(rng, nx, nu, radius=rng.choice([0.7, 0.95]), noise=0.05)
    if rng.random() < 0.5 and nx >= 2:
        # a change of state coordinates with very different magnitudes and correlation (still a linear system)
        T = np.eye(nx)
        T[1, 0] = 1.8
        T = T @ np.diag([rng.choice([0.3, 1.0, 5.0]) for _ in range(nx)])
        X = X.copy()
        X[:, 1:1 + nx] = X[:, 1:1 + nx] @ T.T
    X, data_form = lc.maybe_int_data(rng, X, kw, p=0.2, scale=3)     # (small scale: the SDP tolerance grows with the data scale)
    ef = bool(kw.get('episode_feature'))
    Xu, Xs = pykoop.shift_episodes(np.asarray(X, dtype=float), n_inputs=nu, episode_feature=ef)
    Psi, Theta = Xu[:, (1 if ef else 0):].T, Xs[:, (1 if ef else 0):].T
    q = Psi.shape[1]
    fam = rng.choice(['edmd', 'edmd', 'dmdc'])
    reg = rng.choice(['tikhonov', 'twonorm', 'nuclear'])
    alpha = rng.choice([0.0, 0.1, 1.0]) if reg == 'tikhonov' else rng.choice([0.1, 1.0])
    ratio = rng.choice([1.0, 1.0, 0.4, 0.0]) if reg == 'tikhonov' else rng.choice([0.5, 1.0])   # documented: ignored for pure Tikhonov
    square = rng.random() < 0.4
    inv = rng.choice(INV)
    if fam == 'edmd':
        est = lmi.LmiEdmd(alpha=lc.num(rng, alpha), ratio=lc.num(rng, ratio), reg_method=reg, inv_method=inv, square_norm=square,
                          solver_params=dict(lc.SOLVER))
    else:
        est = lmi.LmiDmdc(alpha=lc.num(rng, alpha), ratio=lc.num(rng, ratio), reg_method=reg, square_norm=square, solver_params=dict(lc.SOLVER))
    case = {'family': fam, 'reg': reg, 'alpha': alpha, 'ratio': ratio, 'square': square, 'inv': inv if fam == 'edmd' else None,
            'nx': nx, 'nu': nu, 'data_form': data_form, 'X': X.tolist(), 'replay': {'rng': snap, 'thorough': thorough}}
    try:
        if rng.random() < 0.3:
            # an unrelated quick-look fit of ANOTHER LMI regressor with deliberately loose solver tolerances happened
            # earlier in the process; it must not influence this one
            loose = dict(lc.SOLVER, abs_ipm_opt_tol=1e-1, rel_ipm_opt_tol=1e-1, abs_prim_fsb_tol=1e-1, rel_prim_fsb_tol=1e-1,
                         abs_dual_fsb_tol=1e-1, rel_dual_fsb_tol=1e-1)
            lmi.LmiEdmd(alpha=0.1, solver_params=loose).fit(X, **kw)
            case['history'] = 'another LmiEdmd fitted before with loose solver tolerances'
        est.fit(X, **kw)
    except Exception as ex:
        return None, case, 'fit did not complete: ' + type(ex).__name__
    if getattr(est, 'solution_status_', 'optimal') != 'optimal':
        return None, case, 'solver status ' + str(est.solution_status_)
    U = est.coef_.T
    a_tik = alpha if reg == 'tikhonov' else alpha * (1 - ratio)
    a_oth = 0.0 if reg == 'tikhonov' else alpha * ratio
    f = lambda u: doc_cost(u.reshape(U.shape), Psi, Theta, q, a_tik, a_oth, reg, square)
    base = f(U.ravel())
    best = base
    rs = np.random.RandomState(rng.randint(0, 2 ** 31 - 1))
    starts = [U.ravel()] + [U.ravel() + 0.1 * rs.randn(U.size) for _ in range(2)]
    for x0 in starts:
        r = scipy.optimize.minimize(f, x0, method='Nelder-Mead' if reg != 'tikhonov' else 'BFGS',
                                    options={'maxiter': 4000, 'xatol': 1e-10, 'fatol': 1e-14} if reg != 'tikhonov' else {'gtol': 1e-10})
        best = min(best, r.fun)
    tol = 2e-5 * max(1.0, abs(base))
    if best < base - tol:
        return (f'{type(est).__name__}({reg}, inv_method={case["inv"]}): a competitor found by local search has documented cost '
                f'{best:.9g} < {base:.9g} of the returned coef_', case, None)
    if reg == 'tikhonov':
        ref = pykoop.Edmd(alpha=alpha).fit(X, **kw)
        # "coincides with Edmd": in terms of the documented cost (solver tolerance), and in terms of the coefficients
        # up to the conditioning of the data (an SDP solver's 1e-7 objective accuracy is amplified by cond(Psi)^2)
        c_ref = f(ref.coef_.T.ravel())
        if base > c_ref + 2e-5 * max(1.0, abs(c_ref)):
            return (f'{type(est).__name__} with pure Tikhonov regularisation has documented cost {base:.9g}, Edmd(alpha={alpha}) '
                    f'reaches {c_ref:.9g}', case, None)
        cond = np.linalg.cond(Psi)
        if np.max(np.abs(ref.coef_ - est.coef_)) > 5e-3 * max(1.0, np.max(np.abs(ref.coef_))) * max(1.0, cond ** 2 / 10):
            return (f'{type(est).__name__} with pure Tikhonov regularisation differs from Edmd(alpha={alpha}) by '
                    f'{np.max(np.abs(ref.coef_ - est.coef_)):.3g} (cond(Psi) = {cond:.3g})', case, None)
    return None, case, None


# ----------------------------------------------------------------------------- long records (many snapshot pairs)
# The size of the LMI does not depend on the number q of snapshot pairs (the data enter through c, G, H / the SVD
# factors only), so a fit on thousands of pairs is as cheap as one on twenty - and must minimise the same documented cost.

def long_size(rng):
    """(total number of snapshot pairs, number of episodes) of a long record"""
    r = rng.random()
    if r < 0.55:
        q = rng.randint(4097, 10000)
    elif r < 0.70:
        q = rng.randint(1025, 4096)
    elif r < 0.85:
        q = rng.randint(10001, 20000)
    else:
        q = 2 ** rng.randint(10, 14) + rng.choice([-1, 0, 1, 2, rng.randint(3, 900)])
    n_eps = rng.choice([1, 1, 1, 2, 3, 7, 60, rng.randint(100, 500)])
    return q, n_eps


def long_data(rng, nx, nu, q, n_eps):
    """A record with exactly q snapshot pairs in n_eps episodes of a noisy, mildly nonlinear system whose excitation
    level and dynamics change from regime to regime along the record (no sub-range of the record has the statistics of
    the whole, and no linear model fits exactly). Samples are measured on the grid 1/64 and bounded by 8, so all Gram
    sums of the record are exactly representable in float64 whatever the order of summation.
    Returns the list of episodes [(label, block (n_l, nx + nu))]."""
    rs = np.random.RandomState(rng.randint(0, 2 ** 31 - 1))
    # episode lengths: n_eps episodes with at least 2 samples each, q + n_eps samples in total
    cuts = sorted(rng.sample(range(1, q), n_eps - 1)) if n_eps > 1 else []
    pairs = [b - a for a, b in zip([0] + cuts, cuts + [q])]
    n_tot = q + n_eps
    # regimes along the record
    n_reg = rng.randint(2, 5)
    edges = sorted(rng.sample(range(1, n_tot), n_reg - 1))
    regime = np.searchsorted(np.array(edges), np.arange(n_tot), side='right')
    A0 = rs.uniform(-1, 1, (nx, nx))
    A0 *= rng.choice([0.6, 0.9]) / max(0.2, np.max(np.abs(np.linalg.eigvals(A0))))
    B0 = rs.uniform(-1, 1, (nx, nu))
    levels = [0.3, 0.6, 1.0, 2.0]
    amp = [rng.choice(levels) for _ in range(n_reg)]
    if len(set(amp)) == 1:
        amp[-1] = rng.choice([a for a in levels if a != amp[0]])
    As = [A0 * rng.choice([0.6, 0.8, 1.0]) + 0.1 * rs.uniform(-1, 1, (nx, nx)) for _ in range(n_reg)]
    Bs = [B0 * rng.choice([0.5, 1.0, 1.5]) for _ in range(n_reg)]
    w = rs.randn(n_tot, nx)
    u = rs.uniform(-1, 1, (n_tot, nu))
    blocks, k = [], 0
    x = rs.uniform(-1, 1, nx)
    for l, m in enumerate(pairs):
        rows = np.zeros((m + 1, nx + nu))
        if rng.random() < 0.5:
            x = rs.uniform(-1, 1, nx)          # (otherwise the next episode continues where the last one stopped)
        for i in range(m + 1):
            g = regime[k]
            uk = amp[g] * u[k]
            rows[i, :nx] = x
            rows[i, nx:] = uk
            x = As[g] @ x + Bs[g] @ uk + 0.25 * np.tanh(x) + 0.25 * amp[g] * w[k]
            x = np.clip(x, -8, 8)
            k += 1
        blocks.append((l, np.clip(np.round(rows * 64) / 64, -8, 8)))
    return blocks


def norm_term(U, reg, square):
    if reg == 'twonorm':
        nrm = np.linalg.norm(U, 2)
    elif reg == 'nuclear':
        nrm = np.linalg.norm(U, 'nuc')
    else:
        return 0.0
    return nrm ** 2 if square else nrm


def oracle_long(ctx, thorough):
    """LmiEdmd (every inv_method) / LmiDmdc fitted on a LONG record (thousands of snapshot pairs, one or many episodes):
    the returned matrix minimises the documented cost of the WHOLE record - compared with the closed-form ridge solution
    (pure Tikhonov; also with Edmd), with rescalings of itself, with points on the segment towards the ridge solution and
    with a derivative-free local search. The Gram quantities the competitors are built from are the harness's own."""
    snap = ctx.snap()
    rng = ctx.rng
    nx, nu = rng.randint(1, 3), rng.randint(0, 2)
    q, n_eps = long_size(rng)
    n_eps = min(n_eps, q // 4)
    blocks = long_data(rng, nx, nu, q, n_eps)
    ef = n_eps > 1 or rng.random() < 0.5
    X = st.ref_combine(blocks, ef)
    kw = {'n_inputs': nu, 'episode_feature': ef}
    # the snapshot pairs, episode by episode (own shift; contiguous arrays)
    Psi = np.ascontiguousarray(np.vstack([b[:-1, :] for _, b in blocks]).T)
    Theta = np.ascontiguousarray(np.vstack([b[1:, :nx] for _, b in blocks]).T)
    assert Psi.shape[1] == q
    G, H, c = Theta @ Psi.T, Psi @ Psi.T, float(np.sum(Theta * Theta))          # exact (dyadic data, see long_data)
    fam = rng.choice(['edmd', 'edmd', 'edmd', 'dmdc'])
    reg = rng.choice(['tikhonov', 'tikhonov', 'twonorm', 'nuclear'])
    # (the documented cost is not scaled by q inside the bracket: alpha has to be of the size of q to matter)
    alpha = rng.choice([0.0, 1.0, 30.0, 300.0]) if reg == 'tikhonov' else rng.choice([30.0, 300.0])
    ratio = rng.choice([1.0, 1.0, 0.4, 0.7]) if reg == 'tikhonov' else rng.choice([0.5, 0.75, 1.0])   # (ignored for pure Tikhonov)
    square = rng.random() < 0.3
    inv = rng.choice(INV)
    if fam == 'edmd':
        est = lmi.LmiEdmd(alpha=lc.num(rng, alpha), ratio=lc.num(rng, ratio), reg_method=reg, inv_method=inv, square_norm=square,
                          solver_params=dict(lc.SOLVER))
    else:
        est = lmi.LmiDmdc(alpha=lc.num(rng, alpha), ratio=lc.num(rng, ratio), reg_method=reg, square_norm=square, solver_params=dict(lc.SOLVER))
    case = {'family': fam, 'reg': reg, 'alpha': alpha, 'ratio': ratio, 'square': square, 'inv': inv if fam == 'edmd' else None,
            'nx': nx, 'nu': nu, 'pairs': q, 'episodes': n_eps, 'episode_feature': ef, 'data_form': 'long record',
            'replay': {'rng': snap, 'thorough': thorough, 'kind': 'long'}}
    a_tik = alpha if reg == 'tikhonov' else alpha * (1 - ratio)
    a_oth = 0.0 if reg == 'tikhonov' else alpha * ratio
    Hr = H + a_tik * np.eye(nx + nu)
    if np.linalg.cond(Hr) > 1e4:
        return None, case, 'long record not well conditioned'
    try:
        est.fit(X, **kw)
    except Exception as ex:
        return None, case, 'fit did not complete: ' + type(ex).__name__
    if getattr(est, 'solution_status_', 'optimal') != 'optimal':
        return None, case, 'solver status ' + str(est.solution_status_)
    U = np.array(est.coef_.T, dtype=float)
    if U.shape != (nx, nx + nu) or not np.all(np.isfinite(U)):
        case['X'] = X.tolist()
        return f'{type(est).__name__} on {q} snapshot pairs: coef_ has shape {est.coef_.shape} / is not finite', case, None
    quad = lambda V: (c - 2 * np.sum(V * G) + np.sum((V @ Hr) * V) + a_oth * norm_term(V, reg, square)) / q
    direct = lambda V: doc_cost(V, Psi, Theta, q, a_tik, a_oth, reg, square)
    base = direct(U)
    tol = 2e-5 * max(1.0, abs(base))
    U_ridge = np.linalg.solve(Hr, G.T).T            # minimiser of the quadratic part
    name = f'{type(est).__name__}({reg}, inv_method={case["inv"]}, alpha={alpha}, ratio={ratio}) on {q} snapshot pairs in {n_eps} episode(s)'
    competitors = []
    if reg == 'tikhonov':
        competitors.append(('the closed-form ridge solution', U_ridge))
    else:
        f = lambda v: quad(v.reshape(U.shape))
        r = scipy.optimize.minimize_scalar(lambda t: quad(t * U), bounds=(0.0, 4.0), method='bounded', options={'xatol': 1e-10})
        competitors.append((f'the returned matrix times {float(r.x):.6g}', float(r.x) * U))
        r = scipy.optimize.minimize_scalar(lambda s: quad(U + s * (U_ridge - U)), bounds=(0.0, 1.0), method='bounded',
                                           options={'xatol': 1e-10})
        competitors.append((f'a point on the segment to the ridge solution (s = {float(r.x):.6g})', U + float(r.x) * (U_ridge - U)))
        rs = np.random.RandomState(rng.randint(0, 2 ** 31 - 1))
        for x0 in [U.ravel(), U.ravel() + 0.1 * rs.randn(U.size)]:
            r = scipy.optimize.minimize(f, x0, method='Nelder-Mead', options={'maxiter': 3000, 'xatol': 1e-10, 'fatol': 1e-14})
            competitors.append(('a matrix found by local search', r.x.reshape(U.shape)))
    for what, V in competitors:
        cv = direct(V)          # (the verdict is stated on the documented cost evaluated sample by sample)
        if cv < base - tol:
            case['X'] = X.tolist()
            case['competitor'] = V.tolist()
            return f'{name}: {what} has documented cost {cv:.9g} < {base:.9g} of the returned coef_', case, None
    if reg == 'tikhonov':
        ref = pykoop.Edmd(alpha=alpha).fit(X, **kw)
        c_ref = direct(np.array(ref.coef_.T, dtype=float))
        if base > c_ref + tol:
            case['X'] = X.tolist()
            return f'{name}: documented cost {base:.9g}, Edmd(alpha={alpha}) reaches {c_ref:.9g}', case, None
        cond = np.linalg.cond(Psi)
        for what, W in (('Edmd', np.array(ref.coef_.T, dtype=float)), ('the closed-form ridge solution', U_ridge)):
            if np.max(np.abs(W - U)) > 5e-3 * max(1.0, np.max(np.abs(W))) * max(1.0, cond ** 2 / 10):
                case['X'] = X.tolist()
                return (f'{name}: differs from {what} for the same alpha by {np.max(np.abs(W - U)):.3g} (cond(Psi) = {cond:.3g})',
                        case, None)
    return None, case, None


# ----------------------------------------------------------------------------- argument kinds of the numeric hyper-parameters
# alpha / ratio / picos_eps are documented as floats. Every object that IS a number in Python / numpy is an allowed way
# of handing one over: int, float, numpy scalars, 0-d arrays (an element kept as array, a value out of a parameter
# grid / container) and 1-element arrays. The meaning of the estimator is the one of float(alpha), float(ratio): the
# returned matrix minimises the documented cost computed from those floats, and the objects handed in are the caller's.

def _f32_exact(v):
    return float(np.float32(v)) == float(v)


ARG_KINDS = [
    # (name, applicable, constructor, weight)
    ('float', lambda v: True, lambda v: float(v), 2),
    ('int', lambda v: float(v).is_integer(), lambda v: int(v), 1),
    ('np.float64', lambda v: True, lambda v: np.float64(v), 1),
    ('np.float32', _f32_exact, lambda v: np.float32(v), 1),
    ('np.int64', lambda v: float(v).is_integer(), lambda v: np.int64(v), 1),
    ('0-d float64 ndarray', lambda v: True, lambda v: np.array(float(v)), 4),
    ('0-d float32 ndarray', _f32_exact, lambda v: np.array(v, dtype=np.float32), 1),
    ('0-d integer ndarray', lambda v: float(v).is_integer(), lambda v: np.array(int(v)), 1),
    ('1-element float64 ndarray', lambda v: True, lambda v: np.array([float(v)]), 3),
    ('read-only 0-d float64 ndarray', lambda v: True, lambda v: _readonly(np.array(float(v))), 1),
]


def _readonly(a):
    a.setflags(write=False)
    return a


def arg_kind(rng, v, exclude=()):
    """the number v as an object of a randomly chosen kind: (object, name of the kind)"""
    pool = [(n, mk) for n, ok, mk, w in ARG_KINDS if ok(v) and n not in exclude for _ in range(w)]
    n, mk = rng.choice(pool)
    return mk(v), n


def arg_print(obj):
    """(type, dtype, shape, flags, bytes) of a parameter object - everything a caller can observe of it"""
    if isinstance(obj, np.ndarray):
        return ('ndarray', str(obj.dtype), obj.shape, bool(obj.flags.writeable), obj.tobytes())
    return (type(obj).__name__, None, None, None, np.asarray(obj).tobytes())


def arg_float(obj):
    return float(np.asarray(obj).reshape(-1)[0])


def oracle_argkinds(ctx, thorough):
    """LmiEdmd (every inv_method) / LmiDmdc constructed with alpha, ratio, picos_eps handed over as Python int / float,
    numpy scalar, 0-d ndarray or 1-element ndarray (every reg_method, square_norm): the returned matrix minimises the
    documented cost computed by the harness from float(alpha), float(ratio) - competitors: the fit of the same class with
    plain Python floats, rescalings of the returned matrix, a local search; a second fit of the same object does too; the
    objects handed to the constructor (and the estimator's parameters) are bit for bit what they were before the fit."""
    snap = ctx.snap()
    rng = ctx.rng
    nx, nu = rng.randint(1, 3), rng.randint(0, 2)
    X, kw, _, _ = lc.lin_data(rng, nx, nu, radius=rng.choice([0.7, 0.95]), noise=0.05)
    Xu, Xs = pykoop.shift_episodes(np.asarray(X, dtype=float), n_inputs=nu, episode_feature=True)
    Psi, Theta = Xu[:, 1:].T, Xs[:, 1:].T
    q = Psi.shape[1]
    fam = rng.choice(['edmd', 'edmd', 'dmdc'])
    reg = rng.choice(['tikhonov', 'twonorm', 'twonorm', 'nuclear', 'nuclear'])
    alpha = rng.choice([0.0, 0.1, 1.0, 3.0]) if reg == 'tikhonov' else rng.choice([0.1, 0.5, 1.0, 2.0, 4.0])
    ratio = rng.choice([1.0, 0.4, 0.7]) if reg == 'tikhonov' else rng.choice([0.25, 0.5, 0.5, 0.7, 0.75, 1.0])   # (ignored for pure Tikhonov)
    eps = rng.choice([0.0, 0.0, 1e-9])
    square = rng.random() < 0.4
    inv = rng.choice(INV)
    vals = {'alpha': alpha, 'ratio': ratio, 'picos_eps': eps}
    objs, kinds = {}, {}
    for k, v in vals.items():
        # (picos_eps goes to PICOS as it is, as the right-hand side of a matrix inequality; PICOS loads float64 and integer
        # arrays only and rejects a float32 ARRAY with a TypeError - a loud refusal, not a wrong minimiser: not generated)
        objs[k], kinds[k] = arg_kind(rng, v, exclude=('0-d float32 ndarray',) if k == 'picos_eps' else ())
    before = {k: arg_print(o) for k, o in objs.items()}
    extra = {'inv_method': inv} if fam == 'edmd' else {}
    cls = lmi.LmiEdmd if fam == 'edmd' else lmi.LmiDmdc
    case = {'family': fam, 'reg': reg, 'alpha': alpha, 'ratio': ratio, 'picos_eps': eps, 'kinds': kinds, 'square': square,
            'inv': inv if fam == 'edmd' else None, 'nx': nx, 'nu': nu, 'X': X.tolist(),
            'replay': {'rng': snap, 'thorough': thorough, 'kind': 'argkinds'}}
    name = (f'{cls.__name__}({reg}, inv_method={case["inv"]}, square_norm={square}) with alpha = {alpha} given as {kinds["alpha"]}, '
            f'ratio = {ratio} as {kinds["ratio"]}, picos_eps = {eps} as {kinds["picos_eps"]}')
    # the same estimator described with plain Python floats: a competitor, and the evidence that the problem is solvable
    try:
        plain = cls(alpha=float(alpha), ratio=float(ratio), picos_eps=float(eps), reg_method=reg, square_norm=square,
                    solver_params=dict(lc.SOLVER), **extra)
        plain.fit(X, **kw)
    except Exception as ex:
        return None, case, 'plain-float fit did not complete: ' + type(ex).__name__ + ' ' + str(ex)[:60]
    if getattr(plain, 'solution_status_', 'optimal') != 'optimal':
        return None, case, 'plain-float fit: solver status ' + str(plain.solution_status_)
    est = cls(alpha=objs['alpha'], ratio=objs['ratio'], picos_eps=objs['picos_eps'], reg_method=reg, square_norm=square,
              solver_params=dict(lc.SOLVER), **extra)
    a_tik = alpha if reg == 'tikhonov' else alpha * (1 - ratio)
    a_oth = 0.0 if reg == 'tikhonov' else alpha * ratio
    cost = lambda V: doc_cost(V, Psi, Theta, q, a_tik, a_oth, reg, square)
    U_plain = np.array(plain.coef_.T, dtype=float)

    def untouched(when):
        for k, o in objs.items():
            now = arg_print(o)
            if now != before[k]:
                return (f'{name}: the {k} object handed to the constructor was changed by {when} (value {vals[k]!r} -> '
                        f'{np.asarray(o).tolist()!r}, {before[k][:4]} -> {now[:4]})')
            p = est.get_params(deep=False).get(k)
            try:
                pv = arg_float(p)
            except Exception:
                pv = None
            if pv != float(vals[k]):
                return f'{name}: the parameter {k} of the estimator is {p!r} after {when}, it was constructed with {vals[k]!r}'
        return None

    for attempt in ('the first fit', 'a second fit of the same object'):
        try:
            est.fit(X, **kw)
        except Exception as ex:
            why = untouched(attempt)
            return (why or f'{name}: {attempt} raises {type(ex).__name__} ({str(ex)[:80]}), the same estimator described with '
                    f'Python floats fits with status optimal'), case, None
        why_obj = untouched(attempt)
        if getattr(est, 'solution_status_', 'optimal') != 'optimal':
            return why_obj, case, 'solver status ' + str(est.solution_status_)
        U = np.array(est.coef_.T, dtype=float)
        if U.shape != U_plain.shape or not np.all(np.isfinite(U)):
            return f'{name}: coef_ of {attempt} has shape {est.coef_.shape} / is not finite', case, None
        base = cost(U)
        tol = 2e-5 * max(1.0, abs(base))
        competitors = [('the matrix returned for the same parameters given as Python floats', U_plain)]
        if attempt == 'the first fit':
            r = scipy.optimize.minimize_scalar(lambda t: cost(t * U), bounds=(0.0, 4.0), method='bounded', options={'xatol': 1e-10})
            competitors.append((f'the returned matrix times {float(r.x):.6g}', float(r.x) * U))
            r = scipy.optimize.minimize(lambda v: cost(v.reshape(U.shape)), U.ravel(), method='Nelder-Mead' if reg != 'tikhonov' else 'BFGS',
                                        options={'maxiter': 2000, 'xatol': 1e-10, 'fatol': 1e-14} if reg != 'tikhonov' else {'gtol': 1e-10})
            competitors.append(('a matrix found by local search', r.x.reshape(U.shape)))
        for what, V in competitors:
            cv = cost(V)
            if cv < base - tol:
                case['competitor'] = np.asarray(V).tolist()
                return (f'{name}: {what} has documented cost {cv:.9g} (coefficients alpha (1 - ratio) = {a_tik:.6g}, alpha ratio = '
                        f'{a_oth:.6g}) < {base:.9g} of the coef_ returned by {attempt}' + (f'; moreover {why_obj[len(name) + 2:]}' if why_obj else '')), case, None
        if why_obj:
            return why_obj, case, None
    return None, case, None


def run(ctx):
    ctx.rule = ('(i) LmiEdmd._create_base_problem for all 7 inv_methods on integer data with a power-of-two number of '
                'pairs (so c, G, H are dyadic): objective vs the Lean objective over Q, and the epigraph block against '
                'its definition ([[Z, UL],[L^T U^T, I]] with L L^T = H, or [[Z, U],[U^T, H^-1]]); two-norm / nuclear blocks '
                'vs the Lean blocks; (ii) cvxopt fits of LmiEdmd (all inv_method x reg_method x square_norm) and LmiDmdc: '
                'competitor search on the documented cost and agreement with Edmd for pure Tikhonov; (iii) the same two '
                'families fitted on LONG records (1025..20000 snapshot pairs, mostly 4097..10000 and sizes next to powers of two, '
                'in 1..500 episodes, non-stationary data on the grid 1/64 so that the harness\'s own Gram sums are exact; the LMI '
                'size does not depend on the number of pairs): the returned matrix against the closed-form ridge solution and Edmd '
                '(pure Tikhonov), against rescalings of itself, the segment towards the ridge solution and a local search (norm '
                'regularisers), cost evaluated sample by sample on the whole record; (iv) the same two families constructed with alpha / ratio / '
                'picos_eps handed over in every kind a number comes in (Python int / float, np.float64 / float32 / int64, 0-d float / '
                'float32 / integer ndarray, writeable or read-only, 1-element ndarray), all reg_method x square_norm x inv_method: the '
                'returned matrix (first fit and a second fit of the same object) against the fit with plain Python floats, '
                'rescalings of itself and a local search on the documented cost computed by the harness from float(alpha), '
                'float(ratio); the objects handed to the constructor and the estimator\'s parameters compared bit for bit '
                '(type, dtype, shape, flags, bytes) before and after each fit; a fit that raises where the plain-float fit is '
                'optimal is a failure')
    ctx.explanation = ('theorems C12_* (Schur complement of the epigraph block, tight slack, objective = documented cost, '
                       'Tikhonov = EDMD, two-norm and nuclear-norm blocks = exact epigraphs); correspondence on problem structure; oracle: '
                       'no competitor beats the returned cost by more than 2e-5 relative (SDP tolerance), on short records and on '
                       'records of thousands of snapshot pairs alike (data-size dependent routes in forming c, G, H / the SVD factors), and whatever '
                       'kind of number object the hyper-parameters are given as (the split alpha (1 - ratio), alpha ratio is the one of the '
                       'float values; fit does not write to the caller\'s objects)')
    ctx.assumptions = ["an 'optimal' answer is optimal up to solver tolerance", 'numeric factorisations (chol, ldl, eig, sqrt, svd) are validated (L L^T = H to 1e-8), not proved']
    ctx.proof_obligations('Properties.C12', THEOREMS)
    def _sec_problem_structure():
        la_lines, la_meta = [], []
        for i in range(ctx.n(40, 500)):
            s = structure_case(ctx)
            if s is None:
                continue
            tag = {k: s[k] for k in ('nx', 'nu', 'q', 'alpha', 'inv')}
            ctx.count('inv:' + s['inv'])
            ctx.record_case(tag, True)
            why = check_block(s)
            if why:
                ctx.mismatch('epigraph block: ' + why, tag, s['block'].tolist(), None)
            nx, p = s['U'].shape
            la_lines.append(f"obj {nx} {p} {lc.fr(Fraction(float(s['c'])))} {lc.mat_tok(s['U'])} {lc.mat_tok(s['G'])} {lc.mat_tok(s['Z'])}")
            la_meta.append(('obj', s, tag))
        # two-norm and nuclear blocks
        for i in range(ctx.n(10, 100)):
            rng = ctx.rng
            nx, p = rng.randint(1, 3), rng.randint(1, 4)
            import picos
            prob = picos.Problem()
            Uv = picos.RealVariable('U', (nx, p))
            prob.set_objective('min', Uv[0, 0])
            kind = rng.choice(['twonorm', 'nuclear'])
            if kind == 'twonorm':
                prob = lmi._add_twonorm(prob, Uv, 1.0, False, 0)
            else:
                prob = lmi._add_nuclear(prob, Uv, 1.0, False, 0)
            U = lc.dyadic(rng, (nx, p))
            Uv.value = U
            g = rng.choice([Fraction(1, 2), Fraction(3)])
            for name, var in prob.variables.items():
                if name == 'U':
                    continue
                if name == 'gamma':
                    var.value = float(g)
                else:
                    M = lc.dyadic(rng, var.shape); M = (M + M.T) / 2
                    var.value = M
            blocks = [b for b in lc.constraint_blocks(prob) if b[0].shape[0] == nx + p]
            if not blocks:
                continue
            big = blocks[-1][0]
            if kind == 'twonorm':
                la_lines.append(f"twonorm {nx} {p} {lc.fr(g)} {lc.mat_tok(U)}")
            else:
                W1 = lc.to_np(prob.variables['W_1'].value)
                W2 = lc.to_np(prob.variables['W_2'].value)
                la_lines.append(f"nuclear {nx} {p} {lc.mat_tok(W1)} {lc.mat_tok(U)} {lc.mat_tok(W2)}")
            la_meta.append((kind, big, {'kind': kind, 'nx': nx, 'p': p}))
        # the witness of C12_nuclear_epigraph / C12_twonorm_epigraph handed to the code's OWN constraints: for the SVD
        # U = Q diag(s) Z^T the point W_1 = Q diag(s) Q^T, W_2 = Z diag(s) Z^T, gamma = sum s (two-norm: gamma = max s) must
        # satisfy every constraint _add_nuclear / _add_twonorm adds, with the trace constraint tight - and gamma a little
        # smaller must not
        for i in range(ctx.n(12, 150)):
            rng = ctx.rng
            nx, p = rng.randint(1, 4), rng.randint(1, 5)
            import picos
            rs = np.random.RandomState(rng.randint(0, 2 ** 31 - 1))
            U = rs.randn(nx, p) * rng.choice([0.01, 1.0, 50.0])
            if rng.random() < 0.3 and min(nx, p) > 1:
                U[-1] = U[0]                      # rank-deficient
            Q, sv, Zt = np.linalg.svd(U, full_matrices=False)
            for kind in ('nuclear', 'twonorm'):
                for shrink in (1.0, 1.0 - 1e-3):
                    prob = picos.Problem()
                    Uv = picos.RealVariable('U', (nx, p))
                    prob.set_objective('min', Uv[0, 0])
                    prob = (lmi._add_nuclear if kind == 'nuclear' else lmi._add_twonorm)(prob, Uv, 1.0, False, 0)
                    Uv.value = U
                    gam = (float(np.sum(sv)) if kind == 'nuclear' else float(np.max(sv))) * shrink
                    for name, var in prob.variables.items():
                        if name == 'gamma':
                            var.value = gam
                        elif name == 'W_1':
                            var.value = (Q * sv) @ Q.T * shrink
                        elif name == 'W_2':
                            var.value = (Zt.T * sv) @ Zt * shrink
                    slack = []
                    for lhs, rhs, rel in lc.constraint_blocks(prob):
                        d = np.atleast_2d(lhs - rhs)
                        if '≽' in rel:
                            slack.append(float(np.linalg.eigvalsh((d + d.T) / 2).min()))
                        elif '≼' in rel:
                            slack.append(float(-np.linalg.eigvalsh((d + d.T) / 2).max()))
                        elif '≤' in rel:
                            slack.append(float(-d.max()))
                        elif '≥' in rel:
                            slack.append(float(d.min()))
                        else:
                            slack.append(float('nan'))        # an unknown relation: reported below
                    tol = 1e-9 * max(1.0, float(np.max(sv)))
                    ctx.count(f'structure:witness of the {kind} epigraph theorem fed to the code ({"tight" if shrink == 1.0 else "just below"})')
                    if shrink == 1.0 and (not slack or not all(v >= -tol for v in slack)):
                        ctx.mismatch(f'{kind} block: the feasible point of the epigraph theorem (W from the SVD, gamma = '
                                     f'{"sum" if kind == "nuclear" else "max"} sigma) violates a constraint the code adds',
                                     {'kind': kind, 'U': U.tolist()}, slack, '>= 0')
                    if shrink < 1.0 and kind == 'twonorm' and slack and min(slack) > -1e-7 * float(np.max(sv)):
                        ctx.mismatch('twonorm block: a gamma below the largest singular value is feasible',
                                     {'kind': kind, 'U': U.tolist()}, slack, '< 0')
        # LmiDmdc base problem in SVD coordinates
        for i in range(ctx.n(24, 300)):
            d = dmdc_structure_case(ctx)
            if d is None:
                continue
            line, big, obj_gap, tag = d
            if abs(obj_gap) > 1e-12:
                ctx.mismatch('LmiDmdc objective is not tr(W_hat)', tag, obj_gap, 0)
            la_lines.append(line)
            la_meta.append(('dmdc', big, tag))
        for (kind, s, tag), rep in zip(la_meta, lc.la_ask(la_lines)):
            ctx.count('structure:' + kind)
            if kind == 'obj':
                want = float(Fraction(rep.split()[1])) if rep.startswith('ok') else None
                if want is None or abs(want - s['obj']) > 1e-10 * max(1.0, abs(want)):
                    ctx.mismatch('objective c - 2 tr(U G^T) + tr Z', tag, s['obj'], rep[:80])
            else:
                M = lc.parse_mat(rep)
                ok = M is not None and M.shape == s.shape and (np.allclose(M, s, atol=1e-12) if kind in ('nuclear', 'dmdc') else
                                                               (np.allclose(M, s, atol=1e-12) or np.allclose(M, s[::-1, ::-1], atol=1e-12)))
                ctx.record_case(tag, True)
                if not ok:
                    ctx.mismatch(f'{kind} block', tag, s.tolist(), None if M is None else M.tolist())
    ctx.attempt('problem structure', _sec_problem_structure)
    def fits(n, stop_at_first=False):
        for i in range(n):
            why, case, note = oracle_fit(ctx, ctx.tier == 'thorough')
            ctx.count(f"fit:{case['family']}/{case['reg']}")
            if note:
                ctx.count('fit_note:' + note[:40])
            ctx.record_case({k: v for k, v in case.items() if k != 'X'}, True)
            if why:
                ctx.fail(why, case, {'family': case['family'], 'reg': case['reg']})
                if stop_at_first:
                    return
    fits(ctx.n(24, 400))
    def long_fits(n, stop_at_first=False):
        for i in range(n):
            why, case, note = oracle_long(ctx, ctx.tier == 'thorough')
            ctx.count(f"long_fit:{case['family']}/{case['reg']}" + (f"/{case['inv']}" if case['inv'] else ''))
            ctx.count('long_pairs:' + ('<=4096' if case['pairs'] <= 4096 else '4097..10000' if case['pairs'] <= 10000 else '>10000'))
            ctx.count('long_episodes:' + ('1' if case['episodes'] == 1 else '2..9' if case['episodes'] < 10 else '>=10'))
            if note:
                ctx.count('long_fit_note:' + note[:40])
            ctx.record_case({k: v for k, v in case.items() if k not in ('X', 'competitor')}, True)
            if why:
                ctx.fail(why, case, {'family': case['family'], 'reg': case['reg']})
                if stop_at_first:
                    return
    long_fits(ctx.n(12, 150))
    def kind_fits(n, stop_at_first=False):
        for i in range(n):
            why, case, note = oracle_argkinds(ctx, ctx.tier == 'thorough')
            ctx.count(f"argkind_fit:{case['family']}/{case['reg']}")
            for k, v in case['kinds'].items():
                ctx.count(f'argkind:{k} as {v}')
            if note:
                ctx.count('argkind_fit_note:' + note[:40])
            ctx.record_case({k: v for k, v in case.items() if k not in ('X', 'competitor')}, True)
            if why:
                ctx.fail(why, case, {'family': case['family'], 'reg': case['reg']})
                if stop_at_first:
                    return
    kind_fits(ctx.n(30, 400))
    # a broken proof / correspondence with no failing fit so far: a larger population of fits (same oracles)
    def search(c):
        fits(100, True)
        if not ctx.failures:
            long_fits(30, True)
        if not ctx.failures:
            kind_fits(60, True)
    return ctx.finish('proof', search)


def replay(ctx, path):
    """re-execute the oracle call that produced the replay (same PRNG state)"""
    obj = json.load(open(path))
    r = (obj.get('case') or {}).get('replay') if isinstance(obj.get('case'), dict) else None
    print(json.dumps({k: v for k, v in obj.items() if k != 'case'}, indent=1)[:1500])
    if not r:
        print('this replay carries no re-executable oracle call (broken proof / correspondence: see "broken")')
        return 1
    ctx.restore(r['rng'])
    why, case, note = {'long': oracle_long, 'argkinds': oracle_argkinds}.get(r.get('kind'), oracle_fit)(ctx, r['thorough'])
    print('oracle now:', why or 'property holds on this input', '' if note is None else f'({note})')
    return 1 if why else 0
