"""C06 - EDMD returns the regularised least-squares optimum; exact recovery."""
import json
from fractions import Fraction

import numpy as np

import pykoop
from .. import core, pipes, structural as st

THEOREMS = ['Pk.C06.C06_gap', 'Pk.C06.C06_normal_eq_optimal', 'Pk.C06.C06_scaling', 'Pk.C06.C06_unique',
            'Pk.C06.C06_normal_unique', 'Pk.C06.C06_recovery', 'Pk.C06.C06_svd_formula',
            'Pk.C06.C06_driver_certificate']
ALPHAS = [Fraction(0), Fraction(1, 4), Fraction(1), Fraction(5, 2), Fraction(1, 16)]


def fr(x):
    x = Fraction(x)
    return f'{x.numerator}/{x.denominator}' if x.denominator != 1 else str(x.numerator)


def gen(rng):
    """integer-valued data with bounded condition number: (X with episodes?, nx, nu, ep, alpha)"""
    for _ in range(200):
        nx, nu = rng.randint(1, 3), rng.randint(0, 2)
        ep = rng.random() < 0.5
        eps, order = pipes.gen_layout(rng, 2, extra=5, ep=ep)
        shape = rng.choice(['tall', 'tall', 'square', 'wide'])
        rows = [[l] + [rng.randint(-4, 4) for _ in range(nx + nu)] for (l, t) in order]
        if not ep:
            rows = [r[1:] for r in rows]
        X = np.array(rows, dtype=float)
        # the within-episode consecutive pairs, built independently of the implementation (their order is irrelevant for
        # the Gram matrices: theorem C05_gram_perm)
        eps_ref = [Xe for _, Xe in st.ref_split(X, ep) if Xe.shape[0] >= 2]
        if not eps_ref:
            continue
        Psi = np.vstack([Xe[:-1] for Xe in eps_ref]).T
        Theta = np.vstack([Xe[1:, :nx] for Xe in eps_ref]).T
        q = Psi.shape[1]
        alpha = rng.choice(ALPHAS)
        if shape == 'tall' and q < Psi.shape[0] + 1:
            continue
        H = Psi @ Psi.T + float(alpha) * np.eye(Psi.shape[0])
        if np.linalg.cond(H) > 1e4:
            continue
        return {'rows': rows, 'nx': nx, 'nu': nu, 'ep': ep, 'alpha': str(alpha),
                'Psi': Psi.astype(int).tolist(), 'Theta': Theta.astype(int).tolist()}
    raise RuntimeError('no well-conditioned case')


def mat_tokens(M):
    r = len(M)
    c = len(M[0]) if r else 0
    return f'{r} {c} ' + ' '.join(str(v) for row in M for v in row)


def cost(Psi, Theta, alpha, U):
    return np.linalg.norm(Theta - U @ Psi, 'fro') ** 2 + alpha * np.linalg.norm(U, 'fro') ** 2


def oracle_opt(c, rng):
    """no perturbed matrix has lower cost; the gradient vanishes"""
    X = np.array(c['rows'], dtype=float)
    alpha = float(Fraction(c['alpha']))
    # the same (integer-valued) data in another valid form: memory layout, writability, integer dtype
    from .. import lmi_common as lc
    est = pykoop.Edmd(alpha=lc.num(rng, alpha)).fit(st.in_form(X, st.pick_form(rng, integral=True)), n_inputs=c['nu'], episode_feature=c['ep'])
    U = est.coef_.T
    Psi, Theta = np.array(c['Psi'], dtype=float), np.array(c['Theta'], dtype=float)
    base = cost(Psi, Theta, alpha, U)
    grad = -2 * (Theta - U @ Psi) @ Psi.T + 2 * alpha * U
    scale = max(1.0, np.max(np.abs(Theta @ Psi.T)))
    if np.max(np.abs(grad)) > 1e-7 * scale:
        return f'normal equations violated: max |gradient| = {np.max(np.abs(grad)):.3g}'
    rs = np.random.RandomState(rng.randint(0, 2 ** 31 - 1))
    for eps in (1e-1, 1e-3):
        for _ in range(4):
            D = rs.randn(*U.shape)
            if cost(Psi, Theta, alpha, U + eps * D) < base - 1e-9 * max(1.0, base):
                return 'a perturbed matrix has lower regularised cost than coef_'
    return None


def oracle_recovery(rng):
    """noise-free linear data: Edmd(0), EdmdMeta(), untruncated Dmdc (and Dmd without input) return [A B]"""
    rs = np.random.RandomState(rng.randint(0, 2 ** 31 - 1))
    nx, nu = rng.randint(1, 6), rng.randint(0, 3)
    A = rs.uniform(-1, 1, (nx, nx))
    A *= rng.choice([0.6, 0.95, 1.05]) / max(0.2, np.max(np.abs(np.linalg.eigvals(A))))
    B = rs.uniform(-1, 1, (nx, nu))
    family = 'generic'
    if nx >= 2 and rng.random() < 0.3:
        # [A B] of deficient row rank is a perfectly good system (a state that is a fixed combination of the others; an
        # eigenvalue exactly zero): the regression stays well posed because the DATA matrix has full rank
        family = 'rank-deficient [A B]'
        T = rs.uniform(-1, 1, (nx, nx)) + 2 * np.eye(nx)
        lam = np.concatenate(([0.0], rs.uniform(-0.9, 0.9, nx - 1)))
        A = T @ np.diag(lam) @ np.linalg.inv(T)
        # B in the range of A's non-null directions, so that [A B] itself is row-rank deficient
        B = T[:, 1:] @ rs.uniform(-1, 1, (nx - 1, nu)) if nu else B
    ep = rng.random() < 0.5 or family != 'generic'
    blocks = []
    for l in rng.sample(range(9), (rng.randint(1, 3) if family == 'generic' else 3) if ep else 1):
        n = nx + nu + rng.randint(4, 10)
        x = np.zeros((n, nx))
        u = rs.uniform(-1, 1, (n, nu))
        x[0] = rs.uniform(-1, 1, nx)
        for k in range(n - 1):
            x[k + 1] = A @ x[k] + B @ u[k]
        blocks.append((l, np.hstack((x, u))))
    # exact recovery does not depend on the physical units of the data: states and inputs scaled alike
    scale = rng.choice([1.0, 1.0, 1e-12, 1e-6, 1e6])
    blocks = [(l, Xe * scale) for l, Xe in blocks]
    X = st.ref_combine(blocks, ep) if ep else blocks[0][1]
    layout = 'contiguous'
    if ep and len(blocks) > 1 and rng.random() < 0.6:
        X = st.interleave_blocks(rng, blocks)          # the episodes' rows interleaved in chunks: same episodes, same answer
        layout = 'interleaved'
    # the within-episode consecutive pairs, built independently of the implementation
    Psi = np.vstack([Xe[:-1] for _, Xe in blocks]).T
    if np.linalg.cond(Psi) > (100 if family == 'generic' else 1000):
        return None, None
    K = np.hstack((A, B))
    # every untruncated configuration: both mode types, the truncation left at its default, 'economy', or a requested
    # rank equal to (or larger than) the full rank
    mt = rng.choice(['exact', 'projected'])
    if family != 'generic':
        # exact DMD modes are defined through a division by the eigenvalue: with an eigenvalue that is exactly zero they
        # do not exist (out of the domain of that option, not of the property, whose default is 'projected')
        mt = 'projected'

    def untrunc(full):
        k = rng.choice(['default', 'economy', 'rank=full', 'rank>full'])
        return k, {'default': None, 'economy': pykoop.Tsvd('economy'), 'rank=full': pykoop.Tsvd('rank', full),
                   'rank>full': pykoop.Tsvd('rank', full + 2)}[k]
    k1, t1 = untrunc(nx + nu)
    k2, t2 = untrunc(nx)
    regs = [('Edmd', pykoop.Edmd(alpha=0)), ('EdmdMeta', pykoop.EdmdMeta()),
            (f'Dmdc(mode_type={mt}, tsvd_unshifted: {k1}, tsvd_shifted: {k2})',
             pykoop.Dmdc(mode_type=mt, tsvd_unshifted=t1, tsvd_shifted=t2))]
    if nu == 0:
        k3, t3 = untrunc(nx)
        regs.append((f'Dmd(mode_type={mt}, tsvd: {k3})', pykoop.Dmd(mode_type=mt, tsvd=t3)))
    case = {'A': A.tolist(), 'B': B.tolist(), 'X': X.tolist(), 'ep': ep, 'nu': nu, 'layout': layout, 'scale': scale, 'family': family}
    for name, r in regs:
        r.fit(X, n_inputs=nu, episode_feature=ep)
        err = np.max(np.abs(r.coef_.T - K))
        if err > 1e-7 * max(1.0, np.max(np.abs(K))) * np.linalg.cond(Psi):
            return f'{name} does not recover [A B] from noise-free data ({family} system, {layout} episodes, data scale {scale:g}; max error {err:.3g}, cond(Psi)={np.linalg.cond(Psi):.3g})', case
    # pipeline fit = regression on the pipeline's own lifted data
    kp = pykoop.KoopmanPipeline(lifting_functions=[('pl', pykoop.PolynomialLiftingFn(order=2))], regressor=pykoop.Edmd(alpha=0.1))
    kp.fit(X, n_inputs=nu, episode_feature=ep)
    Xt = kp.transform(X)
    ref = pykoop.Edmd(alpha=0.1).fit(Xt, n_inputs=kp.n_inputs_out_, episode_feature=ep)
    if not np.allclose(kp.regressor_.coef_, ref.coef_, rtol=1e-12, atol=1e-12):
        return 'pipeline fit differs from regressing on the lifted data', case
    return None, None


def population_search(ctx):
    """failing-input search over a fresh population (also used when an exception raised inside the implementation
    ended the correspondence run early)"""
    for i in range(300):
        c = gen(ctx.rng)
        why = oracle_opt(c, ctx.rng)
        if why:
            ctx.fail(why, c, {'regressor': 'Edmd'})
            return


def run(ctx):
    ctx.rule = ('integer-valued single/multi-episode data (tall, square, wide; cond(H) <= 1e4; alpha in dyadic set incl. 0) '
                'given to Edmd in both call forms and to the exact rational solver of the model (certified U H = G); '
                'recovery oracle on noise-free systems of dimension 1..6 with 0..3 inputs (stable, marginal, unstable)')
    ctx.explanation = ('theorems C06_* over Matrix R (gap identity, optimality, uniqueness, scaling, recovery, SVD formula) '
                       'plus the certificate theorem for the rational driver; correspondence: coef_ vs exact rational '
                       'solution (1e-9 scale); oracle: gradient / perturbation optimality, recovery, pipeline = lifted regression')
    ctx.proof_obligations('Properties.C06', THEOREMS)
    drv = ctx.get_driver()
    lines, meta = [], []
    for i in range(ctx.n(150, 2000)):
        c = gen(ctx.rng)
        lines.append(f"edmd {fr(Fraction(c['alpha']))} {mat_tokens(c['Psi'])} {mat_tokens(c['Theta'])}")
        meta.append(c)
    replies = drv.ask(lines)
    for c, rep in zip(meta, replies):
        X = np.array(c['rows'], dtype=float)
        alpha = float(Fraction(c['alpha']))
        ctx.count('alpha=' + c['alpha'])
        ctx.count('episode_feature' if c['ep'] else 'single')
        p, q = len(c['Psi']), len(c['Psi'][0])
        ctx.count('tall' if q > p else ('square' if q == p else 'wide'))
        ctx.record_case({k: c[k] for k in ('rows', 'nx', 'nu', 'ep', 'alpha')}, True)
        t = rep.split()
        if t[0] != 'ok':
            ctx.count('model:singular')
            continue
        r_, c_ = int(t[1]), int(t[2])
        U = np.array([float(Fraction(x)) for x in t[3:3 + r_ * c_]]).reshape(r_, c_)
        e1 = pykoop.Edmd(alpha=alpha).fit(X, n_inputs=c['nu'], episode_feature=c['ep'])
        Xu, Xs = pykoop.shift_episodes(X, n_inputs=c['nu'], episode_feature=c['ep'])
        e2 = pykoop.Edmd(alpha=alpha).fit(Xu, Xs, n_inputs=c['nu'], episode_feature=c['ep'])
        scale = max(1.0, np.max(np.abs(U)))
        for name, est in (('fit(X)', e1), ('fit(Xu, Xs)', e2)):
            if est.coef_.T.shape != U.shape or np.max(np.abs(est.coef_.T - U)) > 1e-9 * scale * max(1.0, np.linalg.cond(np.array(c['Psi'], dtype=float)) ** 2):
                ctx.mismatch(f'Edmd.{name}.coef_ vs exact normal-equation solution', c, est.coef_.T.tolist(), U.tolist())
        why = oracle_opt(c, ctx.rng)
        if why:
            ctx.fail(why, c, {'regressor': 'Edmd'})
    for i in range(ctx.n(40, 600)):
        why, case = oracle_recovery(ctx.rng)
        ctx.count('recovery_cases' if case is None or 'family' not in case else 'recovery:' + case['family'])
        if why:
            ctx.fail(why, case, {'part': 'recovery'})

    def search(ctx):

        population_search(ctx)
    return ctx.finish('proof', search)


def replay(ctx, path):
    print(open(path).read()[:3000])
    return 1
