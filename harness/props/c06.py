"""C06 - EDMD returns the regularised least-squares optimum; exact recovery."""
import json
from fractions import Fraction

import numpy as np

import pykoop
from .. import core, pipes, structural as st

THEOREMS = ['Pk.C06.C06_gap', 'Pk.C06.C06_normal_eq_optimal', 'Pk.C06.C06_scaling', 'Pk.C06.C06_unique',
            'Pk.C06.C06_normal_unique', 'Pk.C06.C06_recovery', 'Pk.C06.C06_svd_formula',
            'Pk.C06.C06_driver_certificate', 'Pk.C06.C06_normal_eq_solvable', 'Pk.C06.C06_lstsq_exact',
            'Pk.C06.C06_lstsq_normal', 'Pk.C06.C06_edmd_lstsq_optimal']
ALPHAS = [Fraction(0), Fraction(1, 4), Fraction(1), Fraction(5, 2), Fraction(1, 16)]


def fr(x):
    x = Fraction(x)
    return f'{x.numerator}/{x.denominator}' if x.denominator != 1 else str(x.numerator)


def gen(rng):
    """integer-valued data with bounded condition number: (X with episodes?, nx, nu, ep, alpha)"""
    for _ in range(200):
        nx, nu = rng.randint(1, 3), rng.randint(0, 2)
        ep = rng.random() < 0.5
        eps, order = pipes.gen_layout(rng, 2, extra=5, ep=ep)
        shape = rng.choice(['tall', 'tall', 'square', 'wide'])
        rows = [[l] + [rng.randint(-4, 4) for _ in range(nx + nu)] for (l, t) in order]
        if not ep:
            rows = [r[1:] for r in rows]
        X = np.array(rows, dtype=float)
        # the within-episode consecutive pairs, built independently of the implementation (their order is irrelevant for
        # the Gram matrices: theorem C05_gram_perm)
        eps_ref = [Xe for _, Xe in st.ref_split(X, ep) if Xe.shape[0] >= 2]
        if not eps_ref:
            continue
        Psi = np.vstack([Xe[:-1] for Xe in eps_ref]).T
        Theta = np.vstack([Xe[1:, :nx] for Xe in eps_ref]).T
        q = Psi.shape[1]
        alpha = rng.choice(ALPHAS)
        if shape == 'tall' and q < Psi.shape[0] + 1:
            continue
        H = Psi @ Psi.T + float(alpha) * np.eye(Psi.shape[0])
        if np.linalg.cond(H) > 1e4:
            continue
        return {'rows': rows, 'nx': nx, 'nu': nu, 'ep': ep, 'alpha': str(alpha),
                'Psi': Psi.astype(int).tolist(), 'Theta': Theta.astype(int).tolist()}
    raise RuntimeError('no well-conditioned case')


def mat_tokens(M):
    r = len(M)
    c = len(M[0]) if r else 0
    return f'{r} {c} ' + ' '.join(str(v) for row in M for v in row)


def cost(Psi, Theta, alpha, U):
    return np.linalg.norm(Theta - U @ Psi, 'fro') ** 2 + alpha * np.linalg.norm(U, 'fro') ** 2


def oracle_opt(c, rng):
    """no perturbed matrix has lower cost; the gradient vanishes"""
    X = np.array(c['rows'], dtype=float)
    alpha = float(Fraction(c['alpha']))
    # the same (integer-valued) data in another valid form: memory layout, writability, integer dtype
    from .. import lmi_common as lc
    est = pykoop.Edmd(alpha=lc.num(rng, alpha)).fit(st.in_form(X, st.pick_form(rng, integral=True)), n_inputs=c['nu'], episode_feature=c['ep'])
    U = est.coef_.T
    Psi, Theta = np.array(c['Psi'], dtype=float), np.array(c['Theta'], dtype=float)
    base = cost(Psi, Theta, alpha, U)
    grad = -2 * (Theta - U @ Psi) @ Psi.T + 2 * alpha * U
    scale = max(1.0, np.max(np.abs(Theta @ Psi.T)))
    if np.max(np.abs(grad)) > 1e-7 * scale:
        return f'normal equations violated: max |gradient| = {np.max(np.abs(grad)):.3g}'
    rs = np.random.RandomState(rng.randint(0, 2 ** 31 - 1))
    for eps in (1e-1, 1e-3):
        for _ in range(4):
            D = rs.randn(*U.shape)
            if cost(Psi, Theta, alpha, U + eps * D) < base - 1e-9 * max(1.0, base):
                return 'a perturbed matrix has lower regularised cost than coef_'
    return None


def oracle_rank_deficient(rng):
    """C06_edmd_lstsq_optimal on the implementation, where the Gram matrix is SINGULAR (duplicated / dependent features,
    fewer pairs than features) and alpha = 0: hypothesis - coef_ is a least-squares solution of H^T X = G^T in the code's
    own H, G, q - and conclusion - the gradient of the documented cost vanishes, no perturbation does better"""
    rs = np.random.RandomState(rng.randint(0, 2 ** 31 - 1))
    nx, nu = rng.randint(1, 3), rng.randint(0, 2)
    kind = rng.choice(['duplicated feature', 'dependent feature', 'few pairs', 'zero feature'])
    n = rng.randint(3, 5) if kind == 'few pairs' else rng.randint(12, 25)
    base = rs.randint(-4, 5, (n, nx + nu)).astype(float)
    if kind == 'duplicated feature':
        base = np.hstack((base[:, :nx], base[:, [0]], base[:, nx:]))
        nx += 1
    elif kind == 'dependent feature':
        base = np.hstack((base[:, :nx], base[:, :nx].sum(axis=1, keepdims=True), base[:, nx:]))
        nx += 1
    elif kind == 'zero feature':
        base = np.hstack((base[:, :nx], np.zeros((n, 1)), base[:, nx:]))
        nx += 1
    elif kind == 'few pairs':
        extra = rs.randint(-4, 5, (n, 3)).astype(float)
        base = np.hstack((base[:, :nx], extra, base[:, nx:]))
        nx += 3
    alpha = rng.choice([0.0, 0.0, 0.5])
    est = pykoop.Edmd(alpha=alpha).fit(base, n_inputs=nu)
    Psi, Theta = base[:-1].T, base[1:, :nx].T
    q = Psi.shape[1]
    H = (Psi @ Psi.T + alpha * np.eye(Psi.shape[0])) / q
    G = (Theta @ Psi.T) / q
    Xs = est.coef_
    scale = max(1.0, np.max(np.abs(H)) * max(np.max(np.abs(G)), np.max(np.abs(Xs))))
    case = {'kind': kind, 'alpha': alpha, 'nx': nx, 'nu': nu, 'X': base.tolist(), 'rank_H': int(np.linalg.matrix_rank(H)), 'p': int(H.shape[0])}
    hyp = np.max(np.abs(H @ (H.T @ Xs - G.T)))
    if hyp > 1e-8 * scale * max(1.0, np.max(np.abs(H))):
        return f'Edmd ({kind}, alpha={alpha}): coef_ is not a least-squares solution of H^T X = G^T (residual of its normal equations {hyp:.3g})', case
    U = Xs.T
    grad = -2 * (Theta - U @ Psi) @ Psi.T + 2 * alpha * U
    gscale = max(1.0, np.max(np.abs(Theta @ Psi.T)), np.max(np.abs(U)) * np.max(np.abs(Psi @ Psi.T)))
    if np.max(np.abs(grad)) > 1e-7 * gscale:
        return f'Edmd ({kind}, alpha={alpha}, singular Gram matrix): normal equations violated, max |gradient| = {np.max(np.abs(grad)):.3g}', case
    b = cost(Psi, Theta, alpha, U)
    for eps in (1e-1, 1e-3):
        for _ in range(4):
            D = rs.randn(*U.shape)
            if cost(Psi, Theta, alpha, U + eps * D) < b - 1e-9 * max(1.0, b):
                return f'Edmd ({kind}, alpha={alpha}): a perturbed matrix has lower regularised cost than coef_', case
    return None, case


def oracle_recovery(rng):
    """noise-free linear data: Edmd(0), EdmdMeta(), untruncated Dmdc (and Dmd without input) return [A B]"""
    rs = np.random.RandomState(rng.randint(0, 2 ** 31 - 1))
    nx, nu = rng.randint(1, 6), rng.randint(0, 3)
    A = rs.uniform(-1, 1, (nx, nx))
    A *= rng.choice([0.6, 0.95, 1.05]) / max(0.2, np.max(np.abs(np.linalg.eigvals(A))))
    B = rs.uniform(-1, 1, (nx, nu))
    family = 'generic'
    if nx >= 2 and rng.random() < 0.3:
        # [A B] of deficient row rank is a perfectly good system (a state that is a fixed combination of the others; an
        # eigenvalue exactly zero): the regression stays well posed because the DATA matrix has full rank
        family = 'rank-deficient [A B]'
        T = rs.uniform(-1, 1, (nx, nx)) + 2 * np.eye(nx)
        lam = np.concatenate(([0.0], rs.uniform(-0.9, 0.9, nx - 1)))
        A = T @ np.diag(lam) @ np.linalg.inv(T)
        # B in the range of A's non-null directions, so that [A B] itself is row-rank deficient
        B = T[:, 1:] @ rs.uniform(-1, 1, (nx - 1, nu)) if nu else B
    ep = rng.random() < 0.5 or family != 'generic'
    blocks = []
    for l in rng.sample(range(9), (rng.randint(1, 3) if family == 'generic' else 3) if ep else 1):
        n = nx + nu + rng.randint(4, 10)
        x = np.zeros((n, nx))
        u = rs.uniform(-1, 1, (n, nu))
        x[0] = rs.uniform(-1, 1, nx)
        for k in range(n - 1):
            x[k + 1] = A @ x[k] + B @ u[k]
        blocks.append((l, np.hstack((x, u))))
    # exact recovery does not depend on the physical units of the data: states and inputs scaled alike
    scale = rng.choice([1.0, 1.0, 1e-12, 1e-6, 1e6])
    blocks = [(l, Xe * scale) for l, Xe in blocks]
    X = st.ref_combine(blocks, ep) if ep else blocks[0][1]
    layout = 'contiguous'
    if ep and len(blocks) > 1 and rng.random() < 0.6:
        X = st.interleave_blocks(rng, blocks)          # the episodes' rows interleaved in chunks: same episodes, same answer
        layout = 'interleaved'
    # the within-episode consecutive pairs, built independently of the implementation
    Psi = np.vstack([Xe[:-1] for _, Xe in blocks]).T
    if np.linalg.cond(Psi) > (100 if family == 'generic' else 1000):
        return None, None
    K = np.hstack((A, B))
    # every untruncated configuration: both mode types, the truncation left at its default, 'economy', or a requested
    # rank equal to (or larger than) the full rank
    mt = rng.choice(['exact', 'projected'])
    if family != 'generic':
        # exact DMD modes are defined through a division by the eigenvalue: with an eigenvalue that is exactly zero they
        # do not exist (out of the domain of that option, not of the property, whose default is 'projected')
        mt = 'projected'

    def untrunc(full):
        k = rng.choice(['default', 'economy', 'rank=full', 'rank>full'])
        return k, {'default': None, 'economy': pykoop.Tsvd('economy'), 'rank=full': pykoop.Tsvd('rank', full),
                   'rank>full': pykoop.Tsvd('rank', full + 2)}[k]
    k1, t1 = untrunc(nx + nu)
    k2, t2 = untrunc(nx)
    regs = [('Edmd', pykoop.Edmd(alpha=0)), ('EdmdMeta', pykoop.EdmdMeta()),
            (f'Dmdc(mode_type={mt}, tsvd_unshifted: {k1}, tsvd_shifted: {k2})',
             pykoop.Dmdc(mode_type=mt, tsvd_unshifted=t1, tsvd_shifted=t2))]
    if nu == 0:
        k3, t3 = untrunc(nx)
        regs.append((f'Dmd(mode_type={mt}, tsvd: {k3})', pykoop.Dmd(mode_type=mt, tsvd=t3)))
    case = {'A': A.tolist(), 'B': B.tolist(), 'X': X.tolist(), 'ep': ep, 'nu': nu, 'layout': layout, 'scale': scale, 'family': family}
    for name, r in regs:
        r.fit(X, n_inputs=nu, episode_feature=ep)
        err = np.max(np.abs(r.coef_.T - K))
        if err > 1e-7 * max(1.0, np.max(np.abs(K))) * np.linalg.cond(Psi):
            return f'{name} does not recover [A B] from noise-free data ({family} system, {layout} episodes, data scale {scale:g}; max error {err:.3g}, cond(Psi)={np.linalg.cond(Psi):.3g})', case
    # pipeline fit = regression on the pipeline's own lifted data
    kp = pykoop.KoopmanPipeline(lifting_functions=[('pl', pykoop.PolynomialLiftingFn(order=2))], regressor=pykoop.Edmd(alpha=0.1))
    kp.fit(X, n_inputs=nu, episode_feature=ep)
    Xt = kp.transform(X)
    ref = pykoop.Edmd(alpha=0.1).fit(Xt, n_inputs=kp.n_inputs_out_, episode_feature=ep)
    if not np.allclose(kp.regressor_.coef_, ref.coef_, rtol=1e-12, atol=1e-12):
        return 'pipeline fit differs from regressing on the lifted data', case
    return None, None


# ----------------------------------------------------------------------------- pipeline clause
# 'a pipeline fit equals regressing on the pipeline's own lifted data' - for EVERY pipeline and episode layout

PIPE_KINDS = ('delay', 'delay', 'delay', 'poly', 'poly', 'bilinear', 'const', 'sk', 'rbf', 'kernel')
PIPE_ALPHAS = [0.0, 0.0, 1 / 16, 0.1, 0.25, 1.0, 2.5]


class _Timeout(Exception):
    pass


class time_limit:
    """wall-clock limit for one call into the implementation (main thread only; elsewhere a no-op)"""

    def __init__(self, seconds):
        self.seconds = seconds
        self.armed = False

    def _raise(self, signum, frame):
        raise _Timeout()

    def __enter__(self):
        import signal
        import threading
        if threading.current_thread() is threading.main_thread() and hasattr(signal, 'SIGALRM'):
            self.old = signal.signal(signal.SIGALRM, self._raise)
            signal.alarm(self.seconds)
            self.armed = True
        return self

    def __exit__(self, *a):
        if self.armed:
            import signal
            signal.alarm(0)
            signal.signal(signal.SIGALRM, self.old)
        return False


def top_stages(spec):
    return spec['ss'] if spec['k'] == 'pipe' else [spec]


def build_pipeline(spec, regressor):
    lfs = [(f'p{i}', pipes.build(s)) for i, s in enumerate(top_stages(spec))]
    return pykoop.KoopmanPipeline(lifting_functions=lfs or None, regressor=regressor)


def build_regressor(c):
    r = c['regressor']
    if r == 'Edmd':
        return pykoop.Edmd(alpha=c['alpha'])
    if r == 'EdmdMeta':
        return pykoop.EdmdMeta()
    if r == 'Dmdc':
        return pykoop.Dmdc()
    if r == 'Dmd':
        return pykoop.Dmd()
    raise ValueError(r)


def gen_pipe_case(rng):
    """any pipeline (delays at any position, nested / split / opaque stages), any episode layout - in particular episodes
    only just long enough to yield snapshot pairs (min_samples_+1 .. 2*min_samples_ samples), next to long ones, alone,
    or next to episodes that yield none - and data that are NOT fitted exactly (noise, nonlinear lifting) with alpha >= 0"""
    for _ in range(200):
        nx, nu = rng.randint(1, 3), rng.choice([0, 1, 1, 2])
        spec = pipes.gen_spec(rng, PIPE_KINDS, nx, nu, max_depth=2, max_len=3, cap=14)
        if rng.random() < 0.04:
            spec = {'k': 'pipe', 'ss': []}
        if pipes.loss(spec) == 0 and rng.random() < 0.6:
            # a delay stage somewhere in the chain
            d = {'k': 'delay', 'dx': rng.randint(0, 3), 'du': rng.randint(0, 3)}
            if rng.random() < 0.5:
                d['du'] = d['dx']
            ss = list(top_stages(spec))
            # (stages such as grid centres or angle features are generated for the width they see: a delay goes in front of
            # them only through the chain generator itself)
            free = pipes.kinds_in(spec) <= {'poly', 'bilinear', 'const', 'sk', 'delay', 'split', 'pipe'}
            ss.insert(rng.randint(0, len(ss)) if free else len(ss), d)
            spec = {'k': 'pipe', 'ss': ss}
        try:
            w = pipes.widths(spec if spec['k'] != 'pipe' or spec['ss'] else {'k': 'poly', 'order': 1, 'io': False}, nx, nu)
        except Exception:
            continue
        if not 0 < sum(w) <= 24:
            continue
        m = pipes.loss(spec) + 1            # samples needed for ONE lifted sample; m + 1 samples give one snapshot pair
        ep = rng.random() < 0.85
        n_eps = rng.randint(1, 6) if ep else 1
        style = rng.choice(['mixed', 'mixed', 'long+short', 'all short', 'any'])
        lengths = []
        for j in range(n_eps):
            r = rng.random()
            if style == 'all short' or (style == 'long+short' and j > 0) or (style == 'mixed' and r < 0.5):
                n = rng.randint(m + 1, 2 * m)                       # 1 .. m snapshot pairs
            elif style == 'long+short' and j == 0:
                n = 2 * m + sum(w) + rng.randint(0, 8)
            elif r < 0.6:
                n = m                                               # one lifted sample, no pair: contributes nothing
            elif r < 0.8:
                n = 2 * m + rng.randint(0, 2)                       # just above twice the minimum
            else:
                n = 2 * m + rng.randint(1, 12)
            lengths.append(n)
        if all(n <= m for n in lengths):
            lengths[rng.randrange(n_eps)] = m + rng.randint(1, m)
        rng.shuffle(lengths)
        rs = np.random.RandomState(rng.randint(0, 2 ** 31 - 1))
        data = rng.choice(['noisy linear', 'noisy linear', 'random', 'linear'])
        A = rs.uniform(-1, 1, (nx, nx))
        A *= rng.choice([0.5, 0.9]) / max(0.2, np.max(np.abs(np.linalg.eigvals(A))))
        B = rs.uniform(-1, 1, (nx, nu))
        noise = {'noisy linear': rng.choice([0.02, 0.2]), 'random': 0.0, 'linear': 0.0}[data]
        labels = rng.sample(range(12), n_eps)
        blocks = []
        for l, n in zip(labels, lengths):
            u = rs.uniform(-1, 1, (n, nu))
            if data == 'random':
                x = rs.uniform(-1, 1, (n, nx))
            else:
                x = np.zeros((n, nx))
                x[0] = rs.uniform(-1, 1, nx)
                for k in range(n - 1):
                    x[k + 1] = A @ x[k] + B @ u[k] + noise * rs.uniform(-1, 1, nx)
            blocks.append((l, np.hstack((x, u))))
        layout = 'contiguous'
        if not ep:
            X = blocks[0][1]
        elif len(blocks) > 1 and rng.random() < 0.3:
            X = st.interleave_blocks(rng, blocks)
            layout = 'interleaved'
        else:
            X = st.ref_combine(blocks, True)
        regs = ['Edmd'] * 8 + ['EdmdMeta', 'Dmdc'] + (['Dmd', 'Dmd'] if nu == 0 else [])
        reg, alpha = rng.choice(regs), rng.choice(PIPE_ALPHAS)
        if sum(max(0, n - m) for n in lengths) <= sum(w) + 1 and rng.random() < 0.85:
            # fewer snapshot pairs than lifted features: the regularised problem is the well-posed one
            reg, alpha = 'Edmd', rng.choice([a for a in PIPE_ALPHAS if a > 0])
        return {'spec': spec, 'nx': nx, 'nu': nu, 'ep': ep, 'lengths': lengths, 'labels': labels, 'min_samples': m,
                'style': style, 'layout': layout, 'data': data, 'alpha': alpha, 'regressor': reg,
                'perturb_seed': rng.randint(0, 2 ** 31 - 1), 'X': X.tolist()}
    raise RuntimeError('no pipeline case')


def oracle_pipeline(c, count=lambda k: None):
    """The Koopman matrix of KoopmanPipeline.fit(X) is the regularised least-squares optimum over ALL snapshot pairs of the
    pipeline's own lifted data. The lifted data come from a route that does not pass through KoopmanPipeline.fit (a second
    pipeline: fit_transformers, then transform), the snapshot pairs are formed here (consecutive lifted samples of one
    episode), the optimum is computed here (stacked least squares)."""
    X = np.array(c['X'], dtype=float)
    ep, nu, alpha, m = c['ep'], c['nu'], float(c['alpha']), c['min_samples']
    desc = (f"pipeline {json.dumps(c['spec'])} with {c['regressor']}(alpha={alpha:g}) on episodes of lengths {c['lengths']} "
            f"(min_samples {m}, {c['layout']}, {c['data']} data)")
    # ---- reference route
    try:
        with time_limit(10):
            ref = build_pipeline(c['spec'], pykoop.DataRegressor())
            ref.fit_transformers(X, n_inputs=nu, episode_feature=ep)
            Xt = np.asarray(ref.transform(X), dtype=float)
            nu_out = int(ref.n_inputs_out_)
    except Exception as ex:         # the lifting itself is not applicable to these data: out of this clause's domain
        count('pipeline:lifting not applicable')
        return None
    if not np.all(np.isfinite(Xt)):
        count('pipeline:lifting not finite')
        return None
    # every episode of n >= min_samples samples yields n - min_samples + 1 lifted samples, hence n - min_samples pairs
    lifted = st.ref_split(Xt, ep)
    got = {l: Xe.shape[0] for l, Xe in lifted}
    want = {l: n - m + 1 for l, n in zip(c['labels'] if ep else [0], c['lengths'])}
    if got != want:
        return f'the lifted data do not hold n - min_samples + 1 samples of every episode (got {got}, expected {want}): {desc}'
    p = Xt.shape[1] - (1 if ep else 0)
    p_theta = p - nu_out
    eps_ref = [Xe for _, Xe in lifted if Xe.shape[0] >= 2]
    Psi = np.vstack([Xe[:-1] for Xe in eps_ref]).T
    Theta = np.vstack([Xe[1:, :p_theta] for Xe in eps_ref]).T
    q = Psi.shape[1]
    if q != sum(max(0, n - m) for n in c['lengths']):
        return f'{q} snapshot pairs instead of sum(n - min_samples): {desc}'
    # ---- the implementation
    try:
        with time_limit(10):
            kp = build_pipeline(c['spec'], build_regressor(c))
            kp.fit(X, n_inputs=nu, episode_feature=ep)
            own = np.asarray(kp.transform(X), dtype=float)
            U = np.asarray(kp.regressor_.coef_, dtype=float).T
    except _Timeout:
        count('pipeline:timeout')
        return None
    except Exception as ex:
        if c['regressor'] != 'Edmd':
            # does the regressor itself accept these lifted data?
            try:
                with time_limit(10):
                    build_regressor(c).fit(Xt, n_inputs=nu_out, episode_feature=ep)
            except Exception:
                count('pipeline:regressor not applicable')
                return None
        return (f'KoopmanPipeline.fit raises {type(ex).__name__} ({str(ex)[:120]}) although the lifting applies to the data and '
                f'the lifted data hold {q} snapshot pairs: {desc}')
    if own.shape != Xt.shape or np.max(np.abs(own - Xt)) > 1e-9 * max(1.0, np.max(np.abs(Xt))):
        return f"after fit, the pipeline's lifting differs from the lifting fitted on the same data by fit_transformers: {desc}"
    if U.shape != (p_theta, p):
        return f'coef_ has shape {U.T.shape}, expected {(p, p_theta)}: {desc}'
    if c['regressor'] != 'Edmd':
        # any other regressor: the same regressor given the lifted data directly (its own optimality is the business of the
        # recovery oracle); only where the answer is a continuous function of the data
        if q < p + 1 or np.linalg.cond(Psi) > 1e3:
            count('pipeline:not compared (ill-conditioned lifted data)')
            return None
        try:
            with time_limit(10):
                direct = build_regressor(c).fit(Xt, n_inputs=nu_out, episode_feature=ep)
        except Exception:
            count('pipeline:regressor not applicable')
            return None
        err = np.max(np.abs(direct.coef_.T - U))
        if err > 1e-8 * max(1.0, np.max(np.abs(direct.coef_))):
            return f'pipeline fit differs from the same regressor fitted on the lifted data (max difference {err:.3g}): {desc}'
        count('pipeline:checked')
        return None
    H = Psi @ Psi.T + alpha * np.eye(p)
    if np.linalg.cond(H) > 1e6:
        count('pipeline:not compared (ill-conditioned lifted data)')
        return None
    # the optimum, computed without forming the Gram matrix: min || [Psi^T; sqrt(alpha) I] U^T - [Theta^T; 0] ||_F
    Ma = np.vstack((Psi.T, np.sqrt(alpha) * np.eye(p)))
    Mb = np.vstack((Theta.T, np.zeros((p, p_theta))))
    U_ref = np.linalg.lstsq(Ma, Mb, rcond=None)[0].T
    base, best = cost(Psi, Theta, alpha, U), cost(Psi, Theta, alpha, U_ref)
    size = max(1.0, np.linalg.norm(Theta, 'fro') ** 2)
    if base > best + 1e-9 * size:
        return (f'coef_ is not the least-squares optimum over the lifted data: cost {base:.6g} against {best:.6g} attained by '
                f'another matrix ({q} snapshot pairs): {desc}')
    grad = -2 * (Theta - U @ Psi) @ Psi.T + 2 * alpha * U
    scale = max(1.0, np.max(np.abs(Theta @ Psi.T)))
    if np.max(np.abs(grad)) > 1e-7 * scale:
        return f'normal equations over the lifted data violated: max |gradient| = {np.max(np.abs(grad)):.3g}: {desc}'
    rs = np.random.RandomState(c['perturb_seed'])
    for eps in (1e-1, 1e-3):
        for _ in range(3):
            D = rs.randn(*U.shape)
            if cost(Psi, Theta, alpha, U + eps * D) < base - 1e-9 * max(1.0, base):
                return f'a perturbed matrix has lower regularised cost over the lifted data than coef_: {desc}'
    count('pipeline:checked')
    return None


def pipe_tags(c):
    return {'part': 'pipeline', 'regressor': c['regressor'], 'delay': pipes.loss(c['spec']) > 0}


def count_pipe(ctx, c):
    m = c['min_samples']
    ctx.count('pipeline_cases')
    ctx.count('pipeline:delay' if m > 1 else 'pipeline:no delay')
    ctx.count('pipeline:alpha>0' if c['alpha'] > 0 else 'pipeline:alpha=0')
    ctx.count('pipeline:' + c['regressor'])
    ctx.count('pipeline:' + c['data'])
    if len(c['lengths']) > 1:
        ctx.count('pipeline:multi_episode')
    if c['layout'] == 'interleaved':
        ctx.count('pipeline:interleaved')
    short = [n for n in c['lengths'] if m + 1 <= n <= 2 * m]
    if m > 1 and any(n < 2 * m for n in short):
        ctx.count('pipeline:episode of min_samples+1..2*min_samples-1 samples')
        if any(n > 2 * m for n in c['lengths']):
            ctx.count('pipeline:such an episode next to a long one')
        if len(short) == len(c['lengths']):
            ctx.count('pipeline:only such episodes')
    if any(n == m for n in c['lengths']):
        ctx.count('pipeline:episode without a pair')


# ----------------------------------------------------------------------------- exception safety / process-level state
# The property quantifies over every data set given to a COMPLETE fit. What the process did before - in particular a fit
# that was stopped by an exception at an arbitrary point (Ctrl-C, MemoryError, a failing sub-call) - is not a parameter of
# the property: fresh estimators (and the interrupted object itself, fitted again) must still return the optimum / [A B].

class _Injected(Exception):
    """an ordinary exception raised by a sub-call (as opposed to KeyboardInterrupt / MemoryError)"""


INJECTED = {'KeyboardInterrupt': KeyboardInterrupt, 'MemoryError': MemoryError, 'Exception': _Injected}


class _InjectAt:
    """sys.settrace hook: raises `exc` at the k-th event counted inside the chosen pykoop source files. mode 'line': the k-th
    executed line of those files; mode 'call': entry of the k-th Python-level sub-call made from a frame of those files (the
    sub-call raises before doing anything). k = None only counts."""

    def __init__(self, files, mode, k, exc):
        self.files, self.mode, self.k, self.exc = files, mode, k, exc
        self.n = 0
        self.fired = False
        self.where = None
        self._names = {}

    def _in(self, frame):
        fn = frame.f_code.co_filename
        r = self._names.get(fn)
        if r is None:
            import os
            r = self._names[fn] = os.path.realpath(fn) in self.files
        return r

    def _hit(self, frame):
        self.n += 1
        if self.k is not None and self.n == self.k and not self.fired:
            self.fired = True
            self.where = f'{frame.f_code.co_filename.rsplit("/", 1)[-1]}:{frame.f_lineno} ({frame.f_code.co_name})'
            raise self.exc()

    def __call__(self, frame, event, arg):
        if self.fired:
            return None
        if self.mode == 'call':
            if event == 'call' and frame.f_back is not None and self._in(frame.f_back):
                self._hit(frame)
            return None
        return self._local if self._in(frame) else None

    def _local(self, frame, event, arg):
        if event == 'line' and not self.fired:
            self._hit(frame)
        return self._local


def _traced_fit(est, X, nu, ep, hook):
    """est.fit under the hook; returns the exception that ended the fit (None if it ran to completion)"""
    import sys
    old = sys.gettrace()
    sys.settrace(hook)
    try:
        est.fit(X, n_inputs=nu, episode_feature=ep)
    except BaseException as ex:
        sys.settrace(old)
        if isinstance(ex, _Timeout) or (isinstance(ex, KeyboardInterrupt) and not hook.fired):
            raise           # the harness's own time limit / a real Ctrl-C, not the injected exception
        return ex
    finally:
        sys.settrace(old)
    return None


def _pykoop_files(which):
    import os
    import pykoop.regressors
    import pykoop.koopman_pipeline
    reg = os.path.realpath(pykoop.regressors.__file__)
    if which == 'regressors.py':
        return {reg}
    d = os.path.dirname(reg)
    return {os.path.join(d, f) for f in os.listdir(d) if f.endswith('.py')}


def _linear_set(rng, rs, nx, nu, ep):
    """noise-free data of a random x+ = A x + B u with exciting inputs (cond(Psi) <= 100), its [A B] and its snapshot pairs"""
    for _ in range(50):
        A = rs.uniform(-1, 1, (nx, nx))
        A *= rng.choice([0.6, 0.95, 1.05]) / max(0.2, np.max(np.abs(np.linalg.eigvals(A))))
        B = rs.uniform(-1, 1, (nx, nu))
        blocks = []
        for l in rng.sample(range(9), rng.randint(1, 3) if ep else 1):
            n = nx + nu + rng.randint(4, 10)
            x = np.zeros((n, nx))
            u = rs.uniform(-1, 1, (n, nu))
            x[0] = rs.uniform(-1, 1, nx)
            for k in range(n - 1):
                x[k + 1] = A @ x[k] + B @ u[k]
            blocks.append((l, np.hstack((x, u))))
        Psi = np.vstack([Xe[:-1] for _, Xe in blocks]).T
        if np.linalg.cond(Psi) > 100:
            continue
        Theta = np.vstack([Xe[1:, :nx] for _, Xe in blocks]).T
        X = st.ref_combine(blocks, ep) if ep else blocks[0][1]
        return {'X': X, 'K': np.hstack((A, B)), 'Psi': Psi, 'Theta': Theta, 'nx': nx, 'nu': nu, 'ep': ep}
    return None


SAFETY_REGRESSORS = ('Edmd(0)', 'Edmd(0)', 'Edmd(alpha)', 'EdmdMeta', 'EdmdMeta', 'Dmdc', 'Dmd',
                     'pipeline(Edmd)', 'pipeline(EdmdMeta)', 'pipeline(poly, Edmd)')


def _make(name, alpha):
    if name == 'Edmd(0)':
        return pykoop.Edmd(alpha=0)
    if name == 'Edmd(alpha)':
        return pykoop.Edmd(alpha=alpha)
    if name == 'EdmdMeta':
        return pykoop.EdmdMeta()
    if name == 'Dmdc':
        return pykoop.Dmdc()
    if name == 'Dmd':
        return pykoop.Dmd()
    if name == 'pipeline(Edmd)':
        return pykoop.KoopmanPipeline(regressor=pykoop.Edmd(alpha=alpha))
    if name == 'pipeline(EdmdMeta)':
        return pykoop.KoopmanPipeline(regressor=pykoop.EdmdMeta())
    if name == 'pipeline(poly, Edmd)':
        return pykoop.KoopmanPipeline(lifting_functions=[('pl', pykoop.PolynomialLiftingFn(order=2))], regressor=pykoop.Edmd(alpha=alpha))
    raise ValueError(name)


def _complete_fits_ok(D, alpha, again=None):
    """the property, on COMPLETE fits of fresh estimators given data set D (and of `again`, an estimator object whose earlier
    fit was interrupted): [A B] is recovered by the alpha = 0 / default regressors and by a pipeline around them, Edmd(alpha)
    obeys the normal equations of D's own snapshot pairs and is not beaten by the optimum computed here"""
    X, K, Psi, Theta, nu, ep = D['X'], D['K'], D['Psi'], D['Theta'], D['nu'], D['ep']
    p = Psi.shape[0]
    tol = 1e-7 * max(1.0, np.max(np.abs(K))) * np.linalg.cond(Psi)
    fresh = [('Edmd(alpha=0)', pykoop.Edmd(alpha=0), 0.0), ('EdmdMeta()', pykoop.EdmdMeta(), None),
             (f'Edmd(alpha={alpha:g})', pykoop.Edmd(alpha=alpha), alpha), ('Dmdc()', pykoop.Dmdc(), None),
             ('KoopmanPipeline(regressor=Edmd(alpha=0))', pykoop.KoopmanPipeline(regressor=pykoop.Edmd(alpha=0)), 0.0),
             ('KoopmanPipeline(regressor=EdmdMeta())', pykoop.KoopmanPipeline(regressor=pykoop.EdmdMeta()), None)]
    if nu == 0:
        fresh.append(('Dmd()', pykoop.Dmd(), None))
    if again is not None:
        fresh.append(again)
    for name, est, a in fresh:
        try:
            with time_limit(10):
                est.fit(X, n_inputs=nu, episode_feature=ep)
        except _Timeout:
            continue
        except Exception as ex:
            return f'a complete fit of {name} on valid data raises {type(ex).__name__} ({str(ex)[:100]})'
        reg = est.regressor_ if isinstance(est, pykoop.KoopmanPipeline) else est
        U = np.asarray(reg.coef_, dtype=float).T
        if U.shape != K.shape:
            return f'a complete fit of {name} returns coef_ of shape {U.T.shape}, expected {K.T.shape}'
        if a is None or a == 0:
            err = np.max(np.abs(U - K))
            if not err <= tol:
                return f'a complete fit of {name} does not recover [A B] from noise-free data (max error {err:.3g}, cond(Psi)={np.linalg.cond(Psi):.3g})'
        if a is not None:
            grad = -2 * (Theta - U @ Psi) @ Psi.T + 2 * a * U
            scale = max(1.0, np.max(np.abs(Theta @ Psi.T)))
            if not np.max(np.abs(grad)) <= 1e-7 * scale * (1.0 if a > 0 else np.linalg.cond(Psi) ** 2):
                return f'a complete fit of {name}: normal equations violated, max |gradient| = {np.max(np.abs(grad)):.3g}'
            Ma = np.vstack((Psi.T, np.sqrt(a) * np.eye(p)))
            Mb = np.vstack((Theta.T, np.zeros((p, Theta.shape[0]))))
            U_ref = np.linalg.lstsq(Ma, Mb, rcond=None)[0].T
            base, best = cost(Psi, Theta, a, U), cost(Psi, Theta, a, U_ref)
            if not base <= best + 1e-9 * max(1.0, np.linalg.norm(Theta, 'fro') ** 2):
                return f'a complete fit of {name}: cost {base:.6g} although another matrix attains {best:.6g}'
    return None


def oracle_interrupted(rng, count=lambda k: None, max_points=40):
    """One scenario: (1) complete fits on a data set D1, (2) a fit on a data set D2 stopped by an exception injected at EVERY
    point in turn (successive line events inside pykoop, or successive sub-calls made raise), (3) complete fits of fresh
    estimators (and of the interrupted object) on D2, D1 and a third data set: all of them must obey the property.
    Returns (why, case)."""
    rs = np.random.RandomState(rng.randint(0, 2 ** 31 - 1))
    nx, nu = rng.randint(1, 4), rng.randint(0, 2)
    ep = rng.random() < 0.4
    D1 = _linear_set(rng, rs, nx, nu, ep)
    same = rng.random() < 0.8            # D2 of the same width as D1 (an alpha sweep / a re-run cell), or of another one
    D2 = _linear_set(rng, rs, nx, nu, ep) if same else _linear_set(rng, rs, rng.randint(1, 4), rng.randint(0, 2), rng.random() < 0.4)
    D3 = _linear_set(rng, rs, nx, nu, ep)
    if D1 is None or D2 is None or D3 is None:
        return None, None
    alpha = rng.choice([0.25, 0.5, 1.0, 2.5])
    prior = [rng.choice(SAFETY_REGRESSORS) for _ in range(rng.randint(0, 2))]
    prior = [r for r in prior if r != 'Dmd' or D1['nu'] == 0]
    victim = rng.choice([r for r in SAFETY_REGRESSORS if r != 'Dmd' or D2['nu'] == 0])
    which = rng.choice(['regressors.py', 'regressors.py', 'pykoop/*.py'])
    mode = rng.choice(['line', 'line', 'line', 'call'])
    exc = rng.choice(sorted(INJECTED))
    files = _pykoop_files(which)
    case = {'part': 'exception safety', 'D1': {'X': D1['X'].tolist(), 'nu': D1['nu'], 'ep': D1['ep'], 'AB': D1['K'].tolist()},
            'D2': {'X': D2['X'].tolist(), 'nu': D2['nu'], 'ep': D2['ep'], 'AB': D2['K'].tolist()},
            'D3': {'X': D3['X'].tolist(), 'nu': D3['nu'], 'ep': D3['ep'], 'AB': D3['K'].tolist()},
            'alpha': alpha, 'complete fits on D1 first': prior, 'interrupted fit on D2': victim,
            'injected': exc, 'event': mode, 'files': which}
    # how many injection points a complete fit of the victim passes (this is itself a complete, valid fit on D2)
    hook = _InjectAt(files, mode, None, None)
    try:
        with time_limit(20):
            ex = _traced_fit(_make(victim, alpha), D2['X'], D2['nu'], D2['ep'], hook)
    except _Timeout:
        count('exception safety: timeout')
        return None, case
    if ex is not None:
        return f'a complete fit of {victim} on valid data raises {type(ex).__name__} ({str(ex)[:100]})', case
    total = hook.n
    ks = list(range(1, total + 1))
    if total > max_points:
        ks = sorted(rng.sample(ks, max_points))
    count(f'exception safety: scenarios ({mode} events in {which})')
    for k in ks:
        case['k'] = k
        try:
            with time_limit(20):
                for r in prior:
                    try:
                        _make(r, alpha).fit(D1['X'], n_inputs=D1['nu'], episode_feature=D1['ep'])
                    except _Timeout:
                        raise
                    except Exception as ex:
                        return f'a complete fit of {r} on valid data (D1) raises {type(ex).__name__} ({str(ex)[:100]}) at round {k} of the scenario', case
                est = _make(victim, alpha)
                hook = _InjectAt(files, mode, k, INJECTED[exc])
                ex = _traced_fit(est, D2['X'], D2['nu'], D2['ep'], hook)
        except _Timeout:
            count('exception safety: timeout')
            continue
        if not hook.fired:
            if ex is not None:
                return f'a complete fit of {victim} on valid data raises {type(ex).__name__} ({str(ex)[:100]})', case
            count('exception safety: point not reached')
            continue
        count('exception safety: interrupted fits')
        count('exception safety: ' + ('fit ended by the injected exception' if ex is not None else 'injected exception swallowed'))
        case['interrupted at'] = hook.where
        again = None
        if ex is not None and rng.random() < 0.5:
            again = (f'the interrupted {victim} object, fitted again', est,
                     {'Edmd(0)': 0.0, 'Edmd(alpha)': alpha, 'pipeline(Edmd)': alpha}.get(victim, None if victim != 'pipeline(poly, Edmd)' else 'skip'))
            if again[2] == 'skip':
                again = None
        for tag, D in (('the same data', D2), ('the earlier data set', D1), ('another data set', D3)):
            why = _complete_fits_ok(D, alpha, again if D is D2 else None)
            if why:
                case['failing data set'] = {'the same data': 'D2', 'the earlier data set': 'D1', 'another data set': 'D3'}[tag]
                before = f"complete fits of {prior} on an earlier data set, then " if prior else ''
                return (f'{why} - given {tag} - after {before}a fit of {victim} on D2 was stopped by {exc} at '
                        f'{mode} event {k} of {total} in {which} ({hook.where}): the result of a complete fit depends on what '
                        f'the process did before'), case
            count('exception safety: complete fits checked afterwards')
    return None, case


def population_search(ctx):
    """failing-input search over a fresh population (also used when an exception raised inside the implementation
    ended the correspondence run early)"""
    for i in range(12):
        why, case = oracle_interrupted(ctx.rng)
        if why:
            ctx.fail(why, case, {'part': 'exception safety'})
            return
    for i in range(300):
        c = gen(ctx.rng)
        why = oracle_opt(c, ctx.rng)
        if why:
            ctx.fail(why, c, {'regressor': 'Edmd'})
            return
        pc = gen_pipe_case(ctx.rng)
        why = oracle_pipeline(pc)
        if why:
            ctx.fail(why, pc, pipe_tags(pc))
            return


def run(ctx):
    ctx.rule = ('integer-valued single/multi-episode data (tall, square, wide; cond(H) <= 1e4; alpha in dyadic set incl. 0) '
                'given to Edmd in both call forms and to the exact rational solver of the model (certified U H = G); '
                'recovery oracle on noise-free systems of dimension 1..6 with 0..3 inputs (stable, marginal, unstable); '
                'pipeline clause: generated pipelines (delays at any position, split / nested / opaque stages, lifted width <= 24) '
                'with Edmd(alpha >= 0) / EdmdMeta / Dmdc / Dmd on 1..6 episodes whose lengths run from min_samples_ over '
                'min_samples_+1 .. 2*min_samples_ to long (mixed, long + short, only short; contiguous or interleaved; with and '
                'without episode feature), noisy linear / random / noise-free data; exception safety: scenarios of 0..2 complete '
                'fits (Edmd / EdmdMeta / Dmdc / Dmd / pipelines around them) on one noise-free data set, then a fit on a second data '
                'set (same or other width) stopped by KeyboardInterrupt / MemoryError / an ordinary exception injected at every '
                'line event of pykoop/regressors.py (or up to 40 sampled line events of all pykoop sources, or at entry of every '
                'sub-call made from those files), then complete fits of fresh estimators - and of the interrupted object - on the '
                'second, the first and a third data set')
    ctx.explanation = ('theorems C06_* over Matrix R (gap identity, optimality, uniqueness, scaling, recovery, SVD formula) '
                       'plus the certificate theorem for the rational driver; correspondence: coef_ vs exact rational '
                       'solution (1e-9 scale); oracle: gradient / perturbation optimality, recovery, pipeline = lifted regression; '
                       'pipeline oracle: the lifted data are taken from a second pipeline (fit_transformers + transform, not fit), must '
                       'hold n - min_samples_ + 1 samples of every episode, the snapshot pairs and the stacked least-squares optimum are '
                       'computed by the harness; KoopmanPipeline.fit must not raise, must leave the same lifting, and its coef_ must '
                       'attain the optimal cost, satisfy the normal equations and beat perturbations over ALL these pairs (other '
                       'regressors: equal the same regressor fitted on the lifted data); exception-safety oracle: what the process did '
                       'before a complete fit is not a parameter of the property, so after every injected interruption (sys.settrace, '
                       'every point in turn) each complete fit must recover the generating [A B] (alpha = 0, EdmdMeta, Dmdc, Dmd, '
                       'pipelines), satisfy the normal equations of the snapshot pairs formed by the harness and attain the cost of the '
                       'stacked least-squares optimum computed by the harness (alpha > 0), and must not raise')
    ctx.proof_obligations('Properties.C06', THEOREMS)
    drv = ctx.get_driver()
    lines, meta = [], []
    for i in range(ctx.n(150, 2000)):
        c = gen(ctx.rng)
        lines.append(f"edmd {fr(Fraction(c['alpha']))} {mat_tokens(c['Psi'])} {mat_tokens(c['Theta'])}")
        meta.append(c)
    replies = drv.ask(lines)
    for c, rep in zip(meta, replies):
        X = np.array(c['rows'], dtype=float)
        alpha = float(Fraction(c['alpha']))
        ctx.count('alpha=' + c['alpha'])
        ctx.count('episode_feature' if c['ep'] else 'single')
        p, q = len(c['Psi']), len(c['Psi'][0])
        ctx.count('tall' if q > p else ('square' if q == p else 'wide'))
        ctx.record_case({k: c[k] for k in ('rows', 'nx', 'nu', 'ep', 'alpha')}, True)
        t = rep.split()
        if t[0] != 'ok':
            ctx.count('model:singular')
            continue
        r_, c_ = int(t[1]), int(t[2])
        U = np.array([float(Fraction(x)) for x in t[3:3 + r_ * c_]]).reshape(r_, c_)
        e1 = pykoop.Edmd(alpha=alpha).fit(X, n_inputs=c['nu'], episode_feature=c['ep'])
        Xu, Xs = pykoop.shift_episodes(X, n_inputs=c['nu'], episode_feature=c['ep'])
        e2 = pykoop.Edmd(alpha=alpha).fit(Xu, Xs, n_inputs=c['nu'], episode_feature=c['ep'])
        scale = max(1.0, np.max(np.abs(U)))
        for name, est in (('fit(X)', e1), ('fit(Xu, Xs)', e2)):
            if est.coef_.T.shape != U.shape or np.max(np.abs(est.coef_.T - U)) > 1e-9 * scale * max(1.0, np.linalg.cond(np.array(c['Psi'], dtype=float)) ** 2):
                ctx.mismatch(f'Edmd.{name}.coef_ vs exact normal-equation solution', c, est.coef_.T.tolist(), U.tolist())
        why = oracle_opt(c, ctx.rng)
        if why:
            ctx.fail(why, c, {'regressor': 'Edmd'})
    for i in range(ctx.n(40, 600)):
        why, case = oracle_recovery(ctx.rng)
        ctx.count('recovery_cases' if case is None or 'family' not in case else 'recovery:' + case['family'])
        if why:
            ctx.fail(why, case, {'part': 'recovery'})

    # singular Gram matrices: the hypothesis and the conclusion of C06_edmd_lstsq_optimal on the implementation
    for i in range(ctx.n(40, 600)):
        why, case = oracle_rank_deficient(ctx.rng)
        ctx.count('singular Gram matrix:' + case['kind'] + (' (alpha=0)' if case['alpha'] == 0 else ' (alpha>0)'))
        if case['rank_H'] < case['p']:
            ctx.count('singular Gram matrix: H really rank-deficient')
        if why:
            ctx.fail(why, case, {'regressor': 'Edmd', 'part': 'singular Gram matrix'})

    # exception safety / process-level state: complete fits after a fit that was stopped at an arbitrary point
    for i in range(ctx.n(14, 120)):
        why, case = oracle_interrupted(ctx.rng, ctx.count)
        if case is not None:
            ctx.record_case({k: case[k] for k in ('complete fits on D1 first', 'interrupted fit on D2', 'injected', 'event', 'files', 'alpha')}
                            | {'D2': case['D2']['X'][:2]}, True)
        if why:
            ctx.fail(why, case, {'part': 'exception safety', 'regressor': case['interrupted fit on D2']})

    for i in range(ctx.n(150, 2000)):
        pc = gen_pipe_case(ctx.rng)
        count_pipe(ctx, pc)
        ctx.record_case({k: pc[k] for k in ('spec', 'nx', 'nu', 'ep', 'lengths', 'alpha', 'regressor', 'layout', 'data')}, True)
        why = oracle_pipeline(pc, ctx.count)
        if why:
            ctx.fail(why, pc, pipe_tags(pc))

    def search(ctx):

        population_search(ctx)
    return ctx.finish('proof', search)


def replay(ctx, path):
    print(open(path).read()[:3000])
    return 1
