"""C17 - Random feature maps approximate the kernel they are named after."""
import json
import struct

import numpy as np
import scipy.stats

import pykoop
from .. import core

THEOREMS = ['Pk.C17.C17_weight_only_exact', 'Pk.C17.C17_weight_only_unit', 'Pk.C17.C17_offset_average',
            'Pk.C17.C17_streams_instance', 'Pk.C17.C17_streams_int_witness', 'Pk.C17.C17_lifting_layout',
            'Pk.C17.C17_gaussian_kernel_mean', 'PkLA.rff_gaussian_mean', 'Pk.C17.C17_cauchy_kernel_mean_1d',
            'Pk.C17.C17_cauchy_kernel_mean', 'Pk.C17.C17_laplacian_kernel_mean', 'Pk.C17.C17_offset_unbiased',
            'Pk.C17.C17_concentration', 'Pk.C17.C17_concentration_gaussian', 'Pk.C17.C17_concentration_cauchy',
            'Pk.C17.C17_concentration_laplacian', 'Pk.C17.C17_offset_concentration']
LEVEL = 'other'
KERNELS = ['gaussian', 'laplacian', 'cauchy']


def bits(x):
    return str(struct.unpack('<Q', struct.pack('<d', float(x)))[0])


def unbits(t):
    return struct.unpack('<d', struct.pack('<Q', int(t)))[0]


def fmat(M):
    M = np.atleast_2d(np.asarray(M, dtype=float))
    return f'{M.shape[0]} {M.shape[1]} ' + ' '.join(bits(v) for v in M.ravel())


def kernel_value(kernel, shape, delta):
    d = np.asarray(delta, dtype=float)
    if kernel == 'gaussian':
        return float(np.exp(-shape * np.sum(d ** 2)))
    if kernel == 'laplacian':
        return float(np.exp(-np.sqrt(2 * shape) * np.sum(np.abs(d))))
    return float(np.prod(1.0 / (1.0 + 2 * shape * d ** 2)))


def gen_fit(rng):
    n = rng.randint(1, 4)
    D = rng.choice([1, 2, 5, 16])
    kernel = rng.choice(KERNELS)
    method = rng.choice(['weight_offset', 'weight_only'])
    shape = rng.choice([0.25, 1.0, 2.5])
    seed_type = rng.choice(['int', 'instance'])
    seed = rng.randint(0, 10 ** 6)
    rs = np.random.RandomState(rng.randint(0, 2 ** 31 - 1))
    X = rs.uniform(-2, 2, (rng.randint(2, 6), n))
    est = pykoop.RandomFourierKernelApprox(kernel_or_ft=kernel, n_components=D, shape=shape, method=method,
                                           random_state=seed if seed_type == 'int' else np.random.RandomState(seed))
    est.fit(X)
    return est, X, {'n': n, 'D': D, 'kernel': kernel, 'method': method, 'shape': shape, 'seed_type': seed_type, 'seed': seed}


def stat_oracle(kernel, method, seed_type, n_seeds, rng, shape=1.0, refit_from=None):
    """mean of the kernel estimate over many seeds at fixed point pairs vs the closed-form kernel (6 standard errors);
    refit_from: the estimator was first fitted as an approximation of ANOTHER kernel, then renamed with set_params and
    fitted again - it must approximate the kernel it is named after now"""
    D = 20
    pairs = [(np.array([-1.0]), np.array([0.0])), (np.array([0.3]), np.array([1.1])), (np.array([2.0]), np.array([1.5])),
             (np.array([0.7]), np.array([0.7]))]
    if kernel == 'gaussian':
        pairs.append((np.array([0.5, -0.5]), np.array([0.0, 0.4])))
    base = rng.randint(0, 10 ** 6)
    for x, y in pairs:
        vals = []
        for s in range(n_seeds):
            seed = base + s
            est = pykoop.RandomFourierKernelApprox(kernel_or_ft=kernel if refit_from is None else refit_from, n_components=D,
                                                   shape=shape, method=method,
                                                   random_state=seed if seed_type == 'int' else np.random.RandomState(seed))
            est.fit(np.zeros((2, x.shape[0])))
            if refit_from is not None:
                est.set_params(kernel_or_ft=kernel)
                est.fit(np.zeros((2, x.shape[0])))
            z = est.transform(np.vstack((x, y)))
            vals.append(float(z[0] @ z[1]))
        vals = np.array(vals)
        want = kernel_value(kernel, shape, x - y)
        se = vals.std(ddof=1) / np.sqrt(n_seeds)
        if abs(vals.mean() - want) > 6 * se + 1e-3:
            hist = '' if refit_from is None else f' after fit as {refit_from}, set_params(kernel_or_ft={kernel!r}), fit'
            return (f'{kernel}/{method}/{seed_type} seed, shape={shape}{hist}: mean kernel estimate {vals.mean():.4f} at x={x.tolist()}, y={y.tolist()} '
                    f'is {abs(vals.mean() - want) / max(se, 1e-12):.1f} standard errors from the kernel value {want:.4f}',
                    {'kernel': kernel, 'method': method, 'seed_type': seed_type, 'x': x.tolist(), 'y': y.tolist(),
                     'shape': shape, 'refit_from': refit_from})
    return None


def run(ctx):
    ctx.rule = ('(a) fitted RandomFourierKernelApprox (kernels x methods x shapes x 1..4 features x 1..16 components x int / '
                'RandomState seeds): transform vs the Lean Float evaluation of the feature-map formula given the fitted '
                '(W, b) (rel 1e-12; absolute 1e-14 x the size of the cosine argument, which heavy-tailed Cauchy weights make large), output width, kernel-name -> sampling-distribution table, unit norm for weight_only; '
                '(b) stream model: which draws coincide with a replay of RandomState(seed); (c) KernelApproxLiftingFn '
                'layout; (d) statistical oracle, seeded and fixed-size: mean estimate over many seeds vs closed-form kernel')
    ctx.explanation = ('level "other": exact identities, layout and the stream model are theorems (C17_*); the feature-map formula '
                       'is tied to the code by a Float correspondence; the kernel means (all three named kernels, any dimension), '
                       'unbiasedness over the offset and the O(1/sqrt(D)) concentration are theorems GIVEN independent draws from '
                       'the named distributions; that scipy samplers deliver those is trusted / checked statistically only')
    ctx.assumptions = ['scipy.stats samplers have the named distributions (norm / cauchy / laplace / uniform)', 'successive draws are independent (false for integer seeds: finding F-rff)']
    ctx.proof_obligations('Properties.C17', THEOREMS)
    drv = ctx.get_driver()
    lines, meta = [], []
    table = {'gaussian': 'norm', 'laplacian': 'cauchy', 'cauchy': 'laplace'}
    for i in range(ctx.n(120, 1500)):
        est, X, tag = gen_fit(ctx.rng)
        Z = est.transform(X)
        wo = tag['method'] == 'weight_only'
        W = est.random_weights_            # (n_features, n_components)
        b = est.random_offsets_ if not wo else np.zeros((0,))
        lines.append(f"rff {1 if wo else 0} {bits(tag['shape'])} {fmat(W.T)} {fmat(np.atleast_2d(b))} {fmat(X)}")
        meta.append((est, X, Z, tag))
    for (est, X, Z, tag), rep in zip(meta, drv.ask(lines)):
        ctx.count(f"{tag['kernel']}/{tag['method']}/{tag['seed_type']}")
        ctx.record_case(tag, True)
        t = rep.split()
        vals = np.array([unbits(x) for x in t[1:]]).reshape(Z.shape) if t[0] == 'ok' and len(t) - 1 == Z.size else None
        amp = 1.0 + float(np.max(np.abs(np.sqrt(2 * tag['shape']) * X @ est.random_weights_)))
        if vals is None or not np.allclose(vals, Z, rtol=1e-12, atol=1e-14 * amp):
            ctx.mismatch('feature map formula', tag, Z.tolist(), None if vals is None else vals.tolist())
        width = tag['D'] * (2 if tag['method'] == 'weight_only' else 1)
        if Z.shape[1] != width or est.n_features_out_ != width:
            ctx.mismatch('output width', tag, [Z.shape[1], est.n_features_out_], width)
        if est.ft_.name != table[tag['kernel']]:
            ctx.mismatch('kernel -> sampling distribution table', tag, est.ft_.name, table[tag['kernel']])
        if tag['method'] == 'weight_only' and not np.allclose(np.sum(Z ** 2, axis=1), 1.0, rtol=1e-12):
            ctx.fail('weight_only feature vectors do not have unit norm', tag, {'method': 'weight_only'})
        # stream model: with an int seed BOTH draws replay RandomState(seed) from the start; with an instance the second
        # draw continues after the first
        if tag['method'] == 'weight_offset':
            rs = np.random.RandomState(tag['seed'])
            w_replay = est.ft_.rvs(scale=1, size=est.random_weights_.shape, random_state=rs)
            b_cont = scipy.stats.uniform.rvs(loc=0, scale=2 * np.pi, size=tag['D'], random_state=rs)
            b_fresh = scipy.stats.uniform.rvs(loc=0, scale=2 * np.pi, size=tag['D'], random_state=np.random.RandomState(tag['seed']))
            if not np.array_equal(w_replay, est.random_weights_):
                ctx.mismatch('weights are not the first draw of the seeded stream', tag, None, None)
            model_restart = tag['seed_type'] == 'int'       # Streams.positions .int restarts, .instance continues
            got_restart = np.array_equal(est.random_offsets_, b_fresh)
            got_cont = np.array_equal(est.random_offsets_, b_cont)
            if model_restart != got_restart or (not model_restart) != got_cont:
                ctx.mismatch('stream positions read by the offsets draw', tag, {'restart': got_restart, 'continue': got_cont},
                             {'restart': model_restart})
    # SIZE forms: the feature map is a row-by-row formula, so a big batch (many samples x many components, beyond any block
    # size) must give, for every row, exactly what that row gives alone - checked against the direct formula
    for D, n_rows in ((2048, 2100), (100, 42500)) if ctx.tier == 'quick' else ((2048, 2100), (100, 42500), (4096, 1500), (512, 9000)):
        for method in ('weight_only', 'weight_offset'):
            rs = np.random.RandomState(ctx.rng.randint(0, 2 ** 31 - 1))
            nf = ctx.rng.randint(1, 3)
            Xb = rs.uniform(-1.5, 1.5, (n_rows, nf))
            shape = ctx.rng.choice([0.5, 1.0, 2.0])
            est = pykoop.RandomFourierKernelApprox(n_components=D, random_state=np.random.RandomState(ctx.rng.randint(0, 999)),
                                                   method=method, shape=shape, kernel_or_ft='gaussian').fit(Xb)
            Zb = est.transform(Xb)
            idx = sorted({0, 1, n_rows // 2, n_rows - 2, n_rows - 1} | {ctx.rng.randrange(n_rows) for _ in range(5)})
            prod = np.sqrt(2 * shape) * Xb[idx] @ est.random_weights_
            want = (np.hstack((np.cos(prod), np.sin(prod))) if method == 'weight_only'
                    else np.sqrt(2) * np.cos(prod + est.random_offsets_)) / np.sqrt(D)
            tag = {'size_form': f'{n_rows} samples x {D} components', 'method': method, 'shape': shape}
            ctx.count('size form')
            ctx.record_case(tag, True)
            if Zb.shape[0] != n_rows or not np.allclose(Zb[idx], want, rtol=1e-10, atol=1e-13):
                bad = [i for i, (a, b) in zip(idx, zip(Zb[idx], want)) if not np.allclose(a, b, rtol=1e-10, atol=1e-13)]
                ctx.fail(f'rows {bad[:5]} of a large batch ({n_rows} samples x {D} components, {method}) are not the feature map of '
                         f'those samples (row 0: norm {float(np.linalg.norm(Zb[0])):.6g}, formula {float(np.linalg.norm(want[0])):.6g})',
                         tag, {'method': method, 'size': 'large'})
            del Zb
    # layout of the lifting function
    for i in range(ctx.n(20, 200)):
        rng = ctx.rng
        nx, nu = rng.randint(1, 3), rng.randint(0, 2)
        rs = np.random.RandomState(rng.randint(0, 2 ** 31 - 1))
        X = rs.uniform(-1, 1, (5, nx + nu))
        if rng.random() < 0.4:
            X = rs.randint(-3, 4, (5, nx + nu)).astype(rng.choice(['int64', 'int32', 'float64']))     # integer-valued samples
        ka = pykoop.RandomFourierKernelApprox(n_components=3, random_state=rng.randint(0, 99), method=rng.choice(['weight_only', 'weight_offset']))
        lf = pykoop.KernelApproxLiftingFn(kernel_approx=ka).fit(X, n_inputs=nu)
        Xt = lf.transform(X)
        feats = lf.kernel_approx_.transform(X)
        ctx.count('layout')
        if not np.array_equal(Xt, np.hstack((X, feats))):
            ctx.fail('KernelApproxLiftingFn output is not state, input, then the features', {'nx': nx, 'nu': nu}, {'part': 'layout'})
        want = (nx + feats.shape[1], 0) if nu == 0 else (nx, nu + feats.shape[1])
        if (lf.n_states_out_, lf.n_inputs_out_) != want:
            ctx.fail('kernel features are not declared in the block C02 says', {'nx': nx, 'nu': nu}, {'part': 'layout'})
    # statistical oracle
    n_seeds = 300 if ctx.tier == 'quick' else 1500
    for kernel in KERNELS:
        for method in ('weight_offset', 'weight_only'):
            for seed_type in ('int', 'instance'):
                if ctx.tier == 'quick' and method == 'weight_only' and seed_type == 'instance':
                    continue
                for shape in ((1.0, 0.4) if ctx.tier == 'quick' else (1.0, 0.4, 2.5)):
                    res = stat_oracle(kernel, method, seed_type, n_seeds if shape == 1.0 else n_seeds // 2, ctx.rng, shape)
                    ctx.count('stat:' + seed_type)
                    if res:
                        ctx.fail(res[0], res[1], {'seed_type': res[1]['seed_type'], 'method': res[1]['method']})
    # the same after a re-fit under a new name (history): fit as kernel A, set_params(kernel_or_ft=B), fit
    for kernel, other in zip(KERNELS, KERNELS[1:] + KERNELS[:1]):
        for method, seed_type in (('weight_only', 'int'), ('weight_offset', 'instance')):
            res = stat_oracle(kernel, method, seed_type, n_seeds // 2, ctx.rng, 1.0, refit_from=other)
            ctx.count('stat:refit')
            if res:
                ctx.fail(res[0], res[1], {'seed_type': res[1]['seed_type'], 'method': res[1]['method'], 'history': 'refit'})
    return ctx.finish('other', None)


def replay(ctx, path):
    print(open(path).read()[:3000])
    return 1
