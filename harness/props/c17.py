"""C17 - Random feature maps approximate the kernel they are named after."""
import json
import struct

import numpy as np
import scipy.stats

import pykoop
from .. import core

THEOREMS = ['Pk.C17.C17_weight_only_exact', 'Pk.C17.C17_weight_only_unit', 'Pk.C17.C17_offset_average',
            'Pk.C17.C17_streams_instance', 'Pk.C17.C17_streams_int_witness', 'Pk.C17.C17_lifting_layout',
            'Pk.C17.C17_gaussian_kernel_mean', 'PkLA.rff_gaussian_mean', 'Pk.C17.C17_cauchy_kernel_mean_1d',
            'Pk.C17.C17_cauchy_kernel_mean', 'Pk.C17.C17_laplacian_kernel_mean', 'Pk.C17.C17_offset_unbiased',
            'Pk.C17.C17_concentration', 'Pk.C17.C17_concentration_gaussian', 'Pk.C17.C17_concentration_cauchy',
            'Pk.C17.C17_concentration_laplacian', 'Pk.C17.C17_offset_concentration']
LEVEL = 'other'
KERNELS = ['gaussian', 'laplacian', 'cauchy']


def bits(x):
    return str(struct.unpack('<Q', struct.pack('<d', float(x)))[0])


def unbits(t):
    return struct.unpack('<d', struct.pack('<Q', int(t)))[0]


def fmat(M):
    M = np.atleast_2d(np.asarray(M, dtype=float))
    return f'{M.shape[0]} {M.shape[1]} ' + ' '.join(bits(v) for v in M.ravel())


def kernel_value(kernel, shape, delta):
    d = np.asarray(delta, dtype=float)
    if kernel == 'gaussian':
        return float(np.exp(-shape * np.sum(d ** 2)))
    if kernel == 'laplacian':
        return float(np.exp(-np.sqrt(2 * shape) * np.sum(np.abs(d))))
    return float(np.prod(1.0 / (1.0 + 2 * shape * d ** 2)))


def gen_fit(rng):
    n = rng.randint(1, 4)
    D = rng.choice([1, 2, 5, 16])
    kernel = rng.choice(KERNELS)
    method = rng.choice(['weight_offset', 'weight_only'])
    shape = rng.choice([0.25, 1.0, 2.5])
    seed_type = rng.choice(['int', 'instance'])
    seed = rng.randint(0, 10 ** 6)
    rs = np.random.RandomState(rng.randint(0, 2 ** 31 - 1))
    X = rs.uniform(-2, 2, (rng.randint(2, 6), n))
    est = pykoop.RandomFourierKernelApprox(kernel_or_ft=kernel, n_components=D, shape=shape, method=method,
                                           random_state=seed if seed_type == 'int' else np.random.RandomState(seed))
    est.fit(X)
    return est, X, {'n': n, 'D': D, 'kernel': kernel, 'method': method, 'shape': shape, 'seed_type': seed_type, 'seed': seed}


def stat_oracle(kernel, method, seed_type, n_seeds, rng, shape=1.0, refit_from=None):
    """mean of the kernel estimate over many seeds at fixed point pairs vs the closed-form kernel (6 standard errors);
    refit_from: the estimator was first fitted as an approximation of ANOTHER kernel, then renamed with set_params and
    fitted again - it must approximate the kernel it is named after now"""
    D = 20
    pairs = [(np.array([-1.0]), np.array([0.0])), (np.array([0.3]), np.array([1.1])), (np.array([2.0]), np.array([1.5])),
             (np.array([0.7]), np.array([0.7]))]
    if kernel == 'gaussian':
        pairs.append((np.array([0.5, -0.5]), np.array([0.0, 0.4])))
    base = rng.randint(0, 10 ** 6)
    for x, y in pairs:
        vals = []
        for s in range(n_seeds):
            seed = base + s
            est = pykoop.RandomFourierKernelApprox(kernel_or_ft=kernel if refit_from is None else refit_from, n_components=D,
                                                   shape=shape, method=method,
                                                   random_state=seed if seed_type == 'int' else np.random.RandomState(seed))
            est.fit(np.zeros((2, x.shape[0])))
            if refit_from is not None:
                est.set_params(kernel_or_ft=kernel)
                est.fit(np.zeros((2, x.shape[0])))
            z = est.transform(np.vstack((x, y)))
            vals.append(float(z[0] @ z[1]))
        vals = np.array(vals)
        want = kernel_value(kernel, shape, x - y)
        se = vals.std(ddof=1) / np.sqrt(n_seeds)
        if abs(vals.mean() - want) > 6 * se + 1e-3:
            hist = '' if refit_from is None else f' after fit as {refit_from}, set_params(kernel_or_ft={kernel!r}), fit'
            return (f'{kernel}/{method}/{seed_type} seed, shape={shape}{hist}: mean kernel estimate {vals.mean():.4f} at x={x.tolist()}, y={y.tolist()} '
                    f'is {abs(vals.mean() - want) / max(se, 1e-12):.1f} standard errors from the kernel value {want:.4f}',
                    {'kernel': kernel, 'method': method, 'seed_type': seed_type, 'x': x.tolist(), 'y': y.tolist(),
                     'shape': shape, 'refit_from': refit_from})
    return None


def features_direct(W, b, shape, method, Z):
    """random Fourier features of the rows of Z from the fitted frequencies W (n_features x D) and phases b, written out
    from the definition (nothing of the code under test is called)"""
    Z = np.asarray(Z, dtype=float)
    D = W.shape[1]
    arg = np.sqrt(2 * shape) * (Z @ W)
    if method == 'weight_only':
        return np.hstack((np.cos(arg), np.sin(arg))) / np.sqrt(D), 1.0 + float(np.max(np.abs(arg)))
    return np.sqrt(2.0 / D) * np.cos(arg + b), 1.0 + float(np.max(np.abs(arg)))


SPECIAL_KINDS = ['generic', 'unforced episode', 'single row, u = 0', 'all-zero batch', 'single all-zero row', 'zero state, forced',
                 'one zero row among generic rows', 'repeated rows', 'repeated row with u = 0', 'u = -0.0', 'constant input',
                 'one input column zero', 'input zero except last row', 'tiny input', 'integer-valued, u = 0',
                 'unforced episode among forced episodes', 'all episodes unforced']


def special_batch(kind, nx, nu, rng, rs):
    """-> (Z, ep): rows [x, u] and an episode index per row; the INPUT columns (or whole rows) take special values. With
    nu = 0 the input-related kinds degenerate to statements about the state alone, which are still checked."""
    m = rng.randint(2, 7)
    Z = rs.uniform(-1, 1, (m, nx + nu))
    ep = np.zeros(m)
    if kind == 'unforced episode':
        Z[:, nx:] = 0.0
    elif kind == 'single row, u = 0':
        Z = Z[:1].copy()
        Z[:, nx:] = 0.0
        ep = ep[:1]
    elif kind == 'all-zero batch':
        Z[:] = 0.0
    elif kind == 'single all-zero row':
        Z = np.zeros((1, nx + nu))
        ep = ep[:1]
    elif kind == 'zero state, forced':
        Z[:, :nx] = 0.0
    elif kind == 'one zero row among generic rows':
        Z[rng.randrange(m)] = 0.0
    elif kind == 'repeated rows':
        Z[:] = Z[0]
    elif kind == 'repeated row with u = 0':
        Z[:] = Z[0]
        Z[:, nx:] = 0.0
    elif kind == 'u = -0.0':
        Z[:, nx:] = -0.0
    elif kind == 'constant input':
        Z[:, nx:] = rng.choice([1.0, -1.0, 0.5])
    elif kind == 'one input column zero':
        if nu:
            Z[:, nx + rng.randrange(nu)] = 0.0
    elif kind == 'input zero except last row':
        Z[:-1, nx:] = 0.0
    elif kind == 'tiny input':
        Z[:, nx:] = rng.choice([5e-324, 1e-300, -1e-200, 1e-17])
    elif kind == 'integer-valued, u = 0':
        Z = rs.randint(-2, 3, (m, nx + nu)).astype(rng.choice(['int64', 'int32', 'float64']))
        Z[:, nx:] = 0
    elif kind in ('unforced episode among forced episodes', 'all episodes unforced'):
        lens = [rng.randint(1, 4) for _ in range(rng.randint(2, 4))]
        Z = rs.uniform(-1, 1, (sum(lens), nx + nu))
        ep = np.repeat(np.arange(len(lens), dtype=float), lens)
        free = set(range(len(lens))) if kind == 'all episodes unforced' else {rng.randrange(len(lens))}
        for e in free:
            Z[ep == e, nx:] = 0.0
    return Z, ep


def special_batches(ctx, n_cases):
    """DATA-VALUE forms: KernelApproxLiftingFn / RandomFourierKernelApprox applied to batches whose input columns are exactly
    zero or otherwise special. Whatever the values in the batch, the output is [x, u, z([x; u])] row by row, z computed here
    from random_weights_ / random_offsets_; weight_only blocks have unit norm."""
    rng = ctx.rng
    for i in range(n_cases):
        nx = rng.randint(1, 3)
        nu = rng.choice([0, 1, 1, 1, 2, 2, 3])
        kernel, method = rng.choice(KERNELS), rng.choice(['weight_offset', 'weight_only'])
        shape = rng.choice([0.25, 1.0, 2.5])
        D = rng.choice([1, 2, 5, 16, 64])
        seed_type, seed = rng.choice(['int', 'instance']), rng.randint(0, 10 ** 6)
        fit_ep = rng.random() < 0.5
        rs = np.random.RandomState(rng.randint(0, 2 ** 31 - 1))
        cfg = {'nx': nx, 'nu': nu, 'kernel': kernel, 'method': method, 'shape': shape, 'D': D, 'seed_kind': seed_type,
               'seed': seed, 'fitted_with_episode_feature': fit_ep}

        def make():
            return pykoop.KernelApproxLiftingFn(kernel_approx=pykoop.RandomFourierKernelApprox(
                kernel_or_ft=kernel, n_components=D, shape=shape, method=method,
                random_state=seed if seed_type == 'int' else np.random.RandomState(seed)))

        Xtr = rs.uniform(-1, 1, (rng.randint(2, 6), nx + nu))
        if fit_ep:
            Xtr = np.hstack((np.zeros((Xtr.shape[0], 1)), Xtr))
        lf = make().fit(Xtr, n_inputs=nu, episode_feature=fit_ep)
        pipe = pykoop.KoopmanPipeline(lifting_functions=[('ka', make())], regressor=None)
        pipe.fit_transformers(Xtr, n_inputs=nu, episode_feature=fit_ep)
        kinds = ['unforced episode', 'single row, u = 0'] + rng.sample(SPECIAL_KINDS, 5)
        for kind in kinds:
            Z, ep = special_batch(kind, nx, nu, rng, rs)
            Zf = np.asarray(Z, dtype=float)
            Zep = np.hstack((ep.reshape(-1, 1), Zf)).astype(Z.dtype if Z.dtype.kind == 'i' else float)
            multi = len(set(ep.tolist())) > 1
            case = dict(cfg, batch=kind, Z=Zf.tolist(), episodes=ep.tolist(), dtype=str(Z.dtype))
            ctx.count('special batch: ' + kind + (' (n_inputs = 0)' if nu == 0 else ''))
            ctx.record_case({k: v for k, v in case.items() if k not in ('Z', 'episodes')} | {'rows': Zf.shape[0]}, True)
            # routes: (name, fitted object, call) -> rows without the episode feature, [x, u, features] or the input block
            routes = []
            if fit_ep:
                routes.append(('transform', lf, lambda o: o.transform(Zep)[:, 1:], 'full'))
                routes.append(('lift(episode_feature=True)', lf, lambda o: o.lift(Zep, episode_feature=True)[:, 1:], 'full'))
                routes.append(('lift_input(default episode feature)', lf, lambda o: o.lift_input(Zep)[:, 1:], 'input'))
                if not multi:
                    routes.append(('lift(episode_feature=False)', lf, lambda o: o.lift(Z, episode_feature=False), 'full'))
                    routes.append(('lift_input(episode_feature=False)', lf, lambda o: o.lift_input(Z, episode_feature=False), 'input'))
            else:
                routes.append(('lift(episode_feature=True)', lf, lambda o: o.lift(Zep, episode_feature=True)[:, 1:], 'full'))
                routes.append(('lift_input(episode_feature=True)', lf, lambda o: o.lift_input(Zep, episode_feature=True)[:, 1:], 'input'))
                if not multi:
                    routes.append(('transform', lf, lambda o: o.transform(Z), 'full'))
                    routes.append(('lift(default episode feature)', lf, lambda o: o.lift(Z), 'full'))
                    routes.append(('lift_input(episode_feature=False)', lf, lambda o: o.lift_input(Z, episode_feature=False), 'input'))
            routes.append(('lift_state(episode_feature=True)', lf, lambda o: o.lift_state(Zep[:, :1 + nx], episode_feature=True)[:, 1:], 'state'))
            routes.append(('KoopmanPipeline.lift(episode_feature=True)', pipe, lambda o: o.lift(Zep, episode_feature=True)[:, 1:], 'full'))
            routes.append(('KoopmanPipeline.lift_input(episode_feature=True)', pipe,
                           lambda o: o.lift_input(Zep, episode_feature=True)[:, 1:], 'input'))
            if Zf.shape[0] >= 2:
                # fitted on the special batch itself (fit only reads its shape)
                own = make()
                routes.append(('fit_transform', own, lambda o: o.fit_transform(Zep, n_inputs=nu, episode_feature=True)[:, 1:], 'full'))
            routes.append(('kernel_approx_.transform', lf, lambda o: o.kernel_approx_.transform(Z), 'features'))
            for name, obj, call, what in routes:
                got = np.asarray(call(obj), dtype=float)
                ka = (obj.lifting_functions_[0][1] if obj is pipe else obj).kernel_approx_
                W, b = ka.random_weights_, ka.random_offsets_
                if W.shape != (nx + nu, D) or (method == 'weight_offset' and np.shape(b) != (D,)):
                    ctx.mismatch('fitted weights / offsets of the kernel lifting function have unexpected shapes', case,
                                 [list(np.shape(W)), list(np.shape(b))], [[nx + nu, D], [D]])
                    continue
                feats, amp = features_direct(W, b, shape, method, Zf)
                if what == 'state':
                    # lift_state: the state, followed by the features of the state alone only when there is no input
                    want = Zf[:, :nx] if nu else np.hstack((Zf, feats))
                    lead = nx
                elif what == 'input':
                    want = np.hstack((Zf[:, nx:], feats)) if nu else np.zeros((Zf.shape[0], 0))
                    lead = nu
                elif what == 'features':
                    want, lead = feats, 0
                else:
                    want, lead = np.hstack((Zf, feats)), nx + nu
                tags = {'part': 'special batch', 'batch': kind, 'route': name.split('(')[0]}
                if got.shape != want.shape:
                    ctx.fail(f'{name} of a batch of kind "{kind}" ({Zf.shape[0]} rows, nx={nx}, nu={nu}) has shape {list(got.shape)}, '
                             f'expected {list(want.shape)} (original columns, then one feature block)', dict(case, route=name), tags)
                    continue
                if not np.array_equal(got[:, :lead], want[:, :lead]):
                    ctx.fail(f'{name} of a batch of kind "{kind}": the leading columns are not the original state / input',
                             dict(case, route=name), tags)
                    continue
                if want.shape[1] == lead:
                    continue
                blk, wblk = got[:, lead:], want[:, lead:]
                if not np.allclose(blk, wblk, rtol=1e-10, atol=1e-13 * amp):
                    dev = float(np.max(np.abs(blk - wblk)))
                    ctx.fail(f'{name} of a batch of kind "{kind}" ({kernel}/{method}, shape={shape}, D={D}, nx={nx}, nu={nu}, '
                             f'{Zf.shape[0]} rows): the appended block is not the random Fourier features z([x; u]) computed from '
                             f'random_weights_ / random_offsets_ (max deviation {dev:.3g}; block norms '
                             f'{np.linalg.norm(blk, axis=1)[:3].round(6).tolist()}, expected {np.linalg.norm(wblk, axis=1)[:3].round(6).tolist()})',
                             dict(case, route=name, got=blk.tolist(), expected=wblk.tolist()), tags)
                    continue
                if method == 'weight_only' and not np.allclose(np.sum(blk ** 2, axis=1), 1.0, rtol=1e-12):
                    ctx.fail(f'{name} of a batch of kind "{kind}": weight_only feature vectors do not have unit norm',
                             dict(case, route=name), tags)


def special_kernel_estimate(ctx, n_cases):
    """the property itself on special batches: inner products of the block appended by KernelApproxLiftingFn estimate the
    named kernel of the difference of the [x; u] rows within 6 / sqrt(D) (several standard deviations; independent draws:
    RandomState seeds, or weight_only), also when the input is identically zero"""
    rng = ctx.rng
    for i in range(n_cases):
        nx, nu = rng.randint(1, 2), rng.randint(1, 2)
        kernel = KERNELS[i % 3]
        method = rng.choice(['weight_offset', 'weight_only'])
        shape = rng.choice([0.25, 1.0])
        D = 1024
        seed = rng.randint(0, 10 ** 6)
        rs = np.random.RandomState(rng.randint(0, 2 ** 31 - 1))
        lf = pykoop.KernelApproxLiftingFn(kernel_approx=pykoop.RandomFourierKernelApprox(
            kernel_or_ft=kernel, n_components=D, shape=shape, method=method, random_state=np.random.RandomState(seed)))
        lf.fit(rs.uniform(-1, 1, (4, nx + nu)), n_inputs=nu)
        for kind in ('unforced episode', 'generic', 'single row, u = 0', 'repeated row with u = 0', 'all-zero batch'):
            Z, _ = special_batch(kind, nx, nu, rng, rs)
            for name, F in (('transform', lf.transform(Z)[:, nx + nu:]),
                            ('lift_input', lf.lift_input(Z, episode_feature=False)[:, nu:])):
                ctx.count('special batch: kernel estimate')
                K = F @ F.T
                Kt = np.array([[kernel_value(kernel, shape, a - c) for c in Z] for a in Z])
                err = float(np.max(np.abs(K - Kt))) if K.shape == Kt.shape else float('inf')
                case = {'kernel': kernel, 'method': method, 'shape': shape, 'D': D, 'seed': seed, 'seed_kind': 'instance', 'nx': nx,
                        'nu': nu, 'batch': kind, 'Z': Z.tolist(), 'route': name}
                ctx.record_case({k: v for k, v in case.items() if k != 'Z'}, True)
                if err > 6 / np.sqrt(D):
                    ctx.fail(f'{name} of a batch of kind "{kind}" ({kernel}/{method}, shape={shape}, D={D}): inner products of the '
                             f'appended features are {err:.3g} away from the kernel of the row differences (bound {6 / np.sqrt(D):.3g})',
                             case, {'part': 'special batch', 'batch': kind, 'route': name, 'what': 'kernel estimate'})


def run(ctx):
    ctx.rule = ('(a) fitted RandomFourierKernelApprox (kernels x methods x shapes x 1..4 features x 1..16 components x int / '
                'RandomState seeds): transform vs the Lean Float evaluation of the feature-map formula given the fitted '
                '(W, b) (rel 1e-12; absolute 1e-14 x the size of the cosine argument, which heavy-tailed Cauchy weights make large), output width, kernel-name -> sampling-distribution table, unit norm for weight_only; '
                '(b) stream model: which draws coincide with a replay of RandomState(seed); (c) KernelApproxLiftingFn '
                'layout; (d) statistical oracle, seeded and fixed-size: mean estimate over many seeds vs closed-form kernel; '
                '(e) data-value forms: KernelApproxLiftingFn (n_inputs 0..3, with / without episode feature) and its estimator on batches '
                'whose input columns are exactly zero (unforced episode, single row with u = 0, -0.0, one unforced episode among forced ones), '
                'all-zero / repeated / integer-valued rows, constant or tiny inputs: transform, lift, lift_input, lift_state, fit_transform '
                'and a KoopmanPipeline around it must return [x, u, z([x; u])] with z computed here from random_weights_ / random_offsets_ '
                '(rel 1e-10), unit norm for weight_only, and with D = 1024 the inner products of the appended block within 6/sqrt(D) of the kernel')
    ctx.explanation = ('level "other": exact identities, layout and the stream model are theorems (C17_*); the feature-map formula '
                       'is tied to the code by a Float correspondence; the kernel means (all three named kernels, any dimension), '
                       'unbiasedness over the offset and the O(1/sqrt(D)) concentration are theorems GIVEN independent draws from '
                       'the named distributions; that scipy samplers deliver those is trusted / checked statistically only; '
                       'that the lifting function appends the features of [x; u] for EVERY batch (no branch on the values in the '
                       'batch, e.g. an input that is identically zero) is checked by a direct oracle on special-valued batches')
    ctx.assumptions = ['scipy.stats samplers have the named distributions (norm / cauchy / laplace / uniform)', 'successive draws are independent (false for integer seeds: finding F-rff)']
    ctx.proof_obligations('Properties.C17', THEOREMS)
    drv = ctx.get_driver()
    lines, meta = [], []
    table = {'gaussian': 'norm', 'laplacian': 'cauchy', 'cauchy': 'laplace'}
    for i in range(ctx.n(120, 1500)):
        est, X, tag = gen_fit(ctx.rng)
        Z = est.transform(X)
        wo = tag['method'] == 'weight_only'
        W = est.random_weights_            # (n_features, n_components)
        b = est.random_offsets_ if not wo else np.zeros((0,))
        lines.append(f"rff {1 if wo else 0} {bits(tag['shape'])} {fmat(W.T)} {fmat(np.atleast_2d(b))} {fmat(X)}")
        meta.append((est, X, Z, tag))
    for (est, X, Z, tag), rep in zip(meta, drv.ask(lines)):
        ctx.count(f"{tag['kernel']}/{tag['method']}/{tag['seed_type']}")
        ctx.record_case(tag, True)
        t = rep.split()
        vals = np.array([unbits(x) for x in t[1:]]).reshape(Z.shape) if t[0] == 'ok' and len(t) - 1 == Z.size else None
        amp = 1.0 + float(np.max(np.abs(np.sqrt(2 * tag['shape']) * X @ est.random_weights_)))
        if vals is None or not np.allclose(vals, Z, rtol=1e-12, atol=1e-14 * amp):
            ctx.mismatch('feature map formula', tag, Z.tolist(), None if vals is None else vals.tolist())
        width = tag['D'] * (2 if tag['method'] == 'weight_only' else 1)
        if Z.shape[1] != width or est.n_features_out_ != width:
            ctx.mismatch('output width', tag, [Z.shape[1], est.n_features_out_], width)
        if est.ft_.name != table[tag['kernel']]:
            ctx.mismatch('kernel -> sampling distribution table', tag, est.ft_.name, table[tag['kernel']])
        if tag['method'] == 'weight_only' and not np.allclose(np.sum(Z ** 2, axis=1), 1.0, rtol=1e-12):
            ctx.fail('weight_only feature vectors do not have unit norm', tag, {'method': 'weight_only'})
        # stream model: with an int seed BOTH draws replay RandomState(seed) from the start; with an instance the second
        # draw continues after the first
        if tag['method'] == 'weight_offset':
            rs = np.random.RandomState(tag['seed'])
            w_replay = est.ft_.rvs(scale=1, size=est.random_weights_.shape, random_state=rs)
            b_cont = scipy.stats.uniform.rvs(loc=0, scale=2 * np.pi, size=tag['D'], random_state=rs)
            b_fresh = scipy.stats.uniform.rvs(loc=0, scale=2 * np.pi, size=tag['D'], random_state=np.random.RandomState(tag['seed']))
            if not np.array_equal(w_replay, est.random_weights_):
                ctx.mismatch('weights are not the first draw of the seeded stream', tag, None, None)
            model_restart = tag['seed_type'] == 'int'       # Streams.positions .int restarts, .instance continues
            got_restart = np.array_equal(est.random_offsets_, b_fresh)
            got_cont = np.array_equal(est.random_offsets_, b_cont)
            if model_restart != got_restart or (not model_restart) != got_cont:
                ctx.mismatch('stream positions read by the offsets draw', tag, {'restart': got_restart, 'continue': got_cont},
                             {'restart': model_restart})
    # SIZE forms: the feature map is a row-by-row formula, so a big batch (many samples x many components, beyond any block
    # size) must give, for every row, exactly what that row gives alone - checked against the direct formula
    for D, n_rows in ((2048, 2100), (100, 42500)) if ctx.tier == 'quick' else ((2048, 2100), (100, 42500), (4096, 1500), (512, 9000)):
        for method in ('weight_only', 'weight_offset'):
            rs = np.random.RandomState(ctx.rng.randint(0, 2 ** 31 - 1))
            nf = ctx.rng.randint(1, 3)
            Xb = rs.uniform(-1.5, 1.5, (n_rows, nf))
            shape = ctx.rng.choice([0.5, 1.0, 2.0])
            est = pykoop.RandomFourierKernelApprox(n_components=D, random_state=np.random.RandomState(ctx.rng.randint(0, 999)),
                                                   method=method, shape=shape, kernel_or_ft='gaussian').fit(Xb)
            Zb = est.transform(Xb)
            idx = sorted({0, 1, n_rows // 2, n_rows - 2, n_rows - 1} | {ctx.rng.randrange(n_rows) for _ in range(5)})
            prod = np.sqrt(2 * shape) * Xb[idx] @ est.random_weights_
            want = (np.hstack((np.cos(prod), np.sin(prod))) if method == 'weight_only'
                    else np.sqrt(2) * np.cos(prod + est.random_offsets_)) / np.sqrt(D)
            tag = {'size_form': f'{n_rows} samples x {D} components', 'method': method, 'shape': shape}
            ctx.count('size form')
            ctx.record_case(tag, True)
            if Zb.shape[0] != n_rows or not np.allclose(Zb[idx], want, rtol=1e-10, atol=1e-13):
                bad = [i for i, (a, b) in zip(idx, zip(Zb[idx], want)) if not np.allclose(a, b, rtol=1e-10, atol=1e-13)]
                ctx.fail(f'rows {bad[:5]} of a large batch ({n_rows} samples x {D} components, {method}) are not the feature map of '
                         f'those samples (row 0: norm {float(np.linalg.norm(Zb[0])):.6g}, formula {float(np.linalg.norm(want[0])):.6g})',
                         tag, {'method': method, 'size': 'large'})
            del Zb
    # layout of the lifting function
    for i in range(ctx.n(20, 200)):
        rng = ctx.rng
        nx, nu = rng.randint(1, 3), rng.randint(0, 2)
        rs = np.random.RandomState(rng.randint(0, 2 ** 31 - 1))
        X = rs.uniform(-1, 1, (5, nx + nu))
        if rng.random() < 0.4:
            X = rs.randint(-3, 4, (5, nx + nu)).astype(rng.choice(['int64', 'int32', 'float64']))     # integer-valued samples
        ka = pykoop.RandomFourierKernelApprox(n_components=3, random_state=rng.randint(0, 99), method=rng.choice(['weight_only', 'weight_offset']))
        lf = pykoop.KernelApproxLiftingFn(kernel_approx=ka).fit(X, n_inputs=nu)
        Xt = lf.transform(X)
        feats = lf.kernel_approx_.transform(X)
        ctx.count('layout')
        if not np.array_equal(Xt, np.hstack((X, feats))):
            ctx.fail('KernelApproxLiftingFn output is not state, input, then the features', {'nx': nx, 'nu': nu}, {'part': 'layout'})
        want = (nx + feats.shape[1], 0) if nu == 0 else (nx, nu + feats.shape[1])
        if (lf.n_states_out_, lf.n_inputs_out_) != want:
            ctx.fail('kernel features are not declared in the block C02 says', {'nx': nx, 'nu': nu}, {'part': 'layout'})
    # data-value forms: special batches (zero input columns, zero / repeated rows, ...) through every route
    special_batches(ctx, ctx.n(40, 400))
    special_kernel_estimate(ctx, ctx.n(6, 36))
    # statistical oracle
    n_seeds = 300 if ctx.tier == 'quick' else 1500
    for kernel in KERNELS:
        for method in ('weight_offset', 'weight_only'):
            for seed_type in ('int', 'instance'):
                if ctx.tier == 'quick' and method == 'weight_only' and seed_type == 'instance':
                    continue
                for shape in ((1.0, 0.4) if ctx.tier == 'quick' else (1.0, 0.4, 2.5)):
                    res = stat_oracle(kernel, method, seed_type, n_seeds if shape == 1.0 else n_seeds // 2, ctx.rng, shape)
                    ctx.count('stat:' + seed_type)
                    if res:
                        ctx.fail(res[0], res[1], {'seed_type': res[1]['seed_type'], 'method': res[1]['method']})
    # the same after a re-fit under a new name (history): fit as kernel A, set_params(kernel_or_ft=B), fit
    for kernel, other in zip(KERNELS, KERNELS[1:] + KERNELS[:1]):
        for method, seed_type in (('weight_only', 'int'), ('weight_offset', 'instance')):
            res = stat_oracle(kernel, method, seed_type, n_seeds // 2, ctx.rng, 1.0, refit_from=other)
            ctx.count('stat:refit')
            if res:
                ctx.fail(res[0], res[1], {'seed_type': res[1]['seed_type'], 'method': res[1]['method'], 'history': 'refit'})
    return ctx.finish('other', None)


def replay(ctx, path):
    print(open(path).read()[:3000])
    return 1
