"""C17 - Random feature maps approximate the kernel they are named after."""
import json
import struct

import numpy as np
import scipy.stats

import pykoop
from .. import core

THEOREMS = ['Pk.C17.C17_weight_only_exact', 'Pk.C17.C17_weight_only_unit', 'Pk.C17.C17_offset_average',
            'Pk.C17.C17_streams_instance', 'Pk.C17.C17_streams_int_witness', 'Pk.C17.C17_lifting_layout',
            'Pk.C17.C17_gaussian_kernel_mean', 'PkLA.rff_gaussian_mean', 'Pk.C17.C17_cauchy_kernel_mean_1d',
            'Pk.C17.C17_cauchy_kernel_mean', 'Pk.C17.C17_laplacian_kernel_mean', 'Pk.C17.C17_offset_unbiased',
            'Pk.C17.C17_concentration', 'Pk.C17.C17_concentration_gaussian', 'Pk.C17.C17_concentration_cauchy',
            'Pk.C17.C17_concentration_laplacian', 'Pk.C17.C17_offset_concentration', 'Pk.C17.C17_offset_hoeffding']
LEVEL = 'other'
KERNELS = ['gaussian', 'laplacian', 'cauchy']


def bits(x):
    return str(struct.unpack('<Q', struct.pack('<d', float(x)))[0])


def unbits(t):
    return struct.unpack('<d', struct.pack('<Q', int(t)))[0]


def fmat(M):
    M = np.atleast_2d(np.asarray(M, dtype=float))
    return f'{M.shape[0]} {M.shape[1]} ' + ' '.join(bits(v) for v in M.ravel())


def kernel_value(kernel, shape, delta):
    d = np.asarray(delta, dtype=float)
    if kernel == 'gaussian':
        return float(np.exp(-shape * np.sum(d ** 2)))
    if kernel == 'laplacian':
        return float(np.exp(-np.sqrt(2 * shape) * np.sum(np.abs(d))))
    return float(np.prod(1.0 / (1.0 + 2 * shape * d ** 2)))


def gen_fit(rng):
    n = rng.randint(1, 4)
    D = rng.choice([1, 2, 5, 16])
    kernel = rng.choice(KERNELS)
    method = rng.choice(['weight_offset', 'weight_only'])
    shape = rng.choice([0.25, 1.0, 2.5])
    seed_type = rng.choice(['int', 'instance'])
    seed = rng.randint(0, 10 ** 6)
    rs = np.random.RandomState(rng.randint(0, 2 ** 31 - 1))
    X = rs.uniform(-2, 2, (rng.randint(2, 6), n))
    est = pykoop.RandomFourierKernelApprox(kernel_or_ft=kernel, n_components=D, shape=shape, method=method,
                                           random_state=seed if seed_type == 'int' else np.random.RandomState(seed))
    est.fit(X)
    return est, X, {'n': n, 'D': D, 'kernel': kernel, 'method': method, 'shape': shape, 'seed_type': seed_type, 'seed': seed}


def stat_oracle(kernel, method, seed_type, n_seeds, rng, shape=1.0, refit_from=None):
    """mean of the kernel estimate over many seeds at fixed point pairs vs the closed-form kernel (6 standard errors);
    refit_from: the estimator was first fitted as an approximation of ANOTHER kernel, then renamed with set_params and
    fitted again - it must approximate the kernel it is named after now"""
    D = 20
    pairs = [(np.array([-1.0]), np.array([0.0])), (np.array([0.3]), np.array([1.1])), (np.array([2.0]), np.array([1.5])),
             (np.array([0.7]), np.array([0.7]))]
    if kernel == 'gaussian':
        pairs.append((np.array([0.5, -0.5]), np.array([0.0, 0.4])))
    base = rng.randint(0, 10 ** 6)
    for x, y in pairs:
        vals = []
        for s in range(n_seeds):
            seed = base + s
            est = pykoop.RandomFourierKernelApprox(kernel_or_ft=kernel if refit_from is None else refit_from, n_components=D,
                                                   shape=shape, method=method,
                                                   random_state=seed if seed_type == 'int' else np.random.RandomState(seed))
            est.fit(np.zeros((2, x.shape[0])))
            if refit_from is not None:
                est.set_params(kernel_or_ft=kernel)
                est.fit(np.zeros((2, x.shape[0])))
            z = est.transform(np.vstack((x, y)))
            vals.append(float(z[0] @ z[1]))
        vals = np.array(vals)
        want = kernel_value(kernel, shape, x - y)
        se = vals.std(ddof=1) / np.sqrt(n_seeds)
        if abs(vals.mean() - want) > 6 * se + 1e-3:
            hist = '' if refit_from is None else f' after fit as {refit_from}, set_params(kernel_or_ft={kernel!r}), fit'
            return (f'{kernel}/{method}/{seed_type} seed, shape={shape}{hist}: mean kernel estimate {vals.mean():.4f} at x={x.tolist()}, y={y.tolist()} '
                    f'is {abs(vals.mean() - want) / max(se, 1e-12):.1f} standard errors from the kernel value {want:.4f}',
                    {'kernel': kernel, 'method': method, 'seed_type': seed_type, 'x': x.tolist(), 'y': y.tolist(),
                     'shape': shape, 'refit_from': refit_from})
    return None


def features_direct(W, b, shape, method, Z):
    """random Fourier features of the rows of Z from the fitted frequencies W (n_features x D) and phases b, written out
    from the definition (nothing of the code under test is called)"""
    Z = np.asarray(Z, dtype=float)
    D = W.shape[1]
    arg = np.sqrt(2 * shape) * (Z @ W)
    if method == 'weight_only':
        return np.hstack((np.cos(arg), np.sin(arg))) / np.sqrt(D), 1.0 + float(np.max(np.abs(arg)))
    return np.sqrt(2.0 / D) * np.cos(arg + b), 1.0 + float(np.max(np.abs(arg)))


SPECIAL_KINDS = ['generic', 'unforced episode', 'single row, u = 0', 'all-zero batch', 'single all-zero row', 'zero state, forced',
                 'one zero row among generic rows', 'repeated rows', 'repeated row with u = 0', 'u = -0.0', 'constant input',
                 'one input column zero', 'input zero except last row', 'tiny input', 'integer-valued, u = 0',
                 'unforced episode among forced episodes', 'all episodes unforced']


def special_batch(kind, nx, nu, rng, rs):
    """-> (Z, ep): rows [x, u] and an episode index per row; the INPUT columns (or whole rows) take special values. With
    nu = 0 the input-related kinds degenerate to statements about the state alone, which are still checked."""
    m = rng.randint(2, 7)
    Z = rs.uniform(-1, 1, (m, nx + nu))
    ep = np.zeros(m)
    if kind == 'unforced episode':
        Z[:, nx:] = 0.0
    elif kind == 'single row, u = 0':
        Z = Z[:1].copy()
        Z[:, nx:] = 0.0
        ep = ep[:1]
    elif kind == 'all-zero batch':
        Z[:] = 0.0
    elif kind == 'single all-zero row':
        Z = np.zeros((1, nx + nu))
        ep = ep[:1]
    elif kind == 'zero state, forced':
        Z[:, :nx] = 0.0
    elif kind == 'one zero row among generic rows':
        Z[rng.randrange(m)] = 0.0
    elif kind == 'repeated rows':
        Z[:] = Z[0]
    elif kind == 'repeated row with u = 0':
        Z[:] = Z[0]
        Z[:, nx:] = 0.0
    elif kind == 'u = -0.0':
        Z[:, nx:] = -0.0
    elif kind == 'constant input':
        Z[:, nx:] = rng.choice([1.0, -1.0, 0.5])
    elif kind == 'one input column zero':
        if nu:
            Z[:, nx + rng.randrange(nu)] = 0.0
    elif kind == 'input zero except last row':
        Z[:-1, nx:] = 0.0
    elif kind == 'tiny input':
        Z[:, nx:] = rng.choice([5e-324, 1e-300, -1e-200, 1e-17])
    elif kind == 'integer-valued, u = 0':
        Z = rs.randint(-2, 3, (m, nx + nu)).astype(rng.choice(['int64', 'int32', 'float64']))
        Z[:, nx:] = 0
    elif kind in ('unforced episode among forced episodes', 'all episodes unforced'):
        lens = [rng.randint(1, 4) for _ in range(rng.randint(2, 4))]
        Z = rs.uniform(-1, 1, (sum(lens), nx + nu))
        ep = np.repeat(np.arange(len(lens), dtype=float), lens)
        free = set(range(len(lens))) if kind == 'all episodes unforced' else {rng.randrange(len(lens))}
        for e in free:
            Z[ep == e, nx:] = 0.0
    return Z, ep


def special_batches(ctx, n_cases):
    """DATA-VALUE forms: KernelApproxLiftingFn / RandomFourierKernelApprox applied to batches whose input columns are exactly
    zero or otherwise special. Whatever the values in the batch, the output is [x, u, z([x; u])] row by row, z computed here
    from random_weights_ / random_offsets_; weight_only blocks have unit norm."""
    rng = ctx.rng
    for i in range(n_cases):
        nx = rng.randint(1, 3)
        nu = rng.choice([0, 1, 1, 1, 2, 2, 3])
        kernel, method = rng.choice(KERNELS), rng.choice(['weight_offset', 'weight_only'])
        shape = rng.choice([0.25, 1.0, 2.5])
        D = rng.choice([1, 2, 5, 16, 64])
        seed_type, seed = rng.choice(['int', 'instance']), rng.randint(0, 10 ** 6)
        fit_ep = rng.random() < 0.5
        rs = np.random.RandomState(rng.randint(0, 2 ** 31 - 1))
        cfg = {'nx': nx, 'nu': nu, 'kernel': kernel, 'method': method, 'shape': shape, 'D': D, 'seed_kind': seed_type,
               'seed': seed, 'fitted_with_episode_feature': fit_ep}

        def make():
            return pykoop.KernelApproxLiftingFn(kernel_approx=pykoop.RandomFourierKernelApprox(
                kernel_or_ft=kernel, n_components=D, shape=shape, method=method,
                random_state=seed if seed_type == 'int' else np.random.RandomState(seed)))

        Xtr = rs.uniform(-1, 1, (rng.randint(2, 6), nx + nu))
        if fit_ep:
            Xtr = np.hstack((np.zeros((Xtr.shape[0], 1)), Xtr))
        lf = make().fit(Xtr, n_inputs=nu, episode_feature=fit_ep)
        pipe = pykoop.KoopmanPipeline(lifting_functions=[('ka', make())], regressor=None)
        pipe.fit_transformers(Xtr, n_inputs=nu, episode_feature=fit_ep)
        kinds = ['unforced episode', 'single row, u = 0'] + rng.sample(SPECIAL_KINDS, 5)
        for kind in kinds:
            Z, ep = special_batch(kind, nx, nu, rng, rs)
            Zf = np.asarray(Z, dtype=float)
            Zep = np.hstack((ep.reshape(-1, 1), Zf)).astype(Z.dtype if Z.dtype.kind == 'i' else float)
            multi = len(set(ep.tolist())) > 1
            case = dict(cfg, batch=kind, Z=Zf.tolist(), episodes=ep.tolist(), dtype=str(Z.dtype))
            ctx.count('special batch: ' + kind + (' (n_inputs = 0)' if nu == 0 else ''))
            ctx.record_case({k: v for k, v in case.items() if k not in ('Z', 'episodes')} | {'rows': Zf.shape[0]}, True)
            # routes: (name, fitted object, call) -> rows without the episode feature, [x, u, features] or the input block
            routes = []
            if fit_ep:
                routes.append(('transform', lf, lambda o: o.transform(Zep)[:, 1:], 'full'))
                routes.append(('lift(episode_feature=True)', lf, lambda o: o.lift(Zep, episode_feature=True)[:, 1:], 'full'))
                routes.append(('lift_input(default episode feature)', lf, lambda o: o.lift_input(Zep)[:, 1:], 'input'))
                if not multi:
                    routes.append(('lift(episode_feature=False)', lf, lambda o: o.lift(Z, episode_feature=False), 'full'))
                    routes.append(('lift_input(episode_feature=False)', lf, lambda o: o.lift_input(Z, episode_feature=False), 'input'))
            else:
                routes.append(('lift(episode_feature=True)', lf, lambda o: o.lift(Zep, episode_feature=True)[:, 1:], 'full'))
                routes.append(('lift_input(episode_feature=True)', lf, lambda o: o.lift_input(Zep, episode_feature=True)[:, 1:], 'input'))
                if not multi:
                    routes.append(('transform', lf, lambda o: o.transform(Z), 'full'))
                    routes.append(('lift(default episode feature)', lf, lambda o: o.lift(Z), 'full'))
                    routes.append(('lift_input(episode_feature=False)', lf, lambda o: o.lift_input(Z, episode_feature=False), 'input'))
            routes.append(('lift_state(episode_feature=True)', lf, lambda o: o.lift_state(Zep[:, :1 + nx], episode_feature=True)[:, 1:], 'state'))
            routes.append(('KoopmanPipeline.lift(episode_feature=True)', pipe, lambda o: o.lift(Zep, episode_feature=True)[:, 1:], 'full'))
            routes.append(('KoopmanPipeline.lift_input(episode_feature=True)', pipe,
                           lambda o: o.lift_input(Zep, episode_feature=True)[:, 1:], 'input'))
            if Zf.shape[0] >= 2:
                # fitted on the special batch itself (fit only reads its shape)
                own = make()
                routes.append(('fit_transform', own, lambda o: o.fit_transform(Zep, n_inputs=nu, episode_feature=True)[:, 1:], 'full'))
            routes.append(('kernel_approx_.transform', lf, lambda o: o.kernel_approx_.transform(Z), 'features'))
            for name, obj, call, what in routes:
                got = np.asarray(call(obj), dtype=float)
                ka = (obj.lifting_functions_[0][1] if obj is pipe else obj).kernel_approx_
                W, b = ka.random_weights_, ka.random_offsets_
                if W.shape != (nx + nu, D) or (method == 'weight_offset' and np.shape(b) != (D,)):
                    ctx.mismatch('fitted weights / offsets of the kernel lifting function have unexpected shapes', case,
                                 [list(np.shape(W)), list(np.shape(b))], [[nx + nu, D], [D]])
                    continue
                feats, amp = features_direct(W, b, shape, method, Zf)
                if what == 'state':
                    # lift_state: the state, followed by the features of the state alone only when there is no input
                    want = Zf[:, :nx] if nu else np.hstack((Zf, feats))
                    lead = nx
                elif what == 'input':
                    want = np.hstack((Zf[:, nx:], feats)) if nu else np.zeros((Zf.shape[0], 0))
                    lead = nu
                elif what == 'features':
                    want, lead = feats, 0
                else:
                    want, lead = np.hstack((Zf, feats)), nx + nu
                tags = {'part': 'special batch', 'batch': kind, 'route': name.split('(')[0]}
                if got.shape != want.shape:
                    ctx.fail(f'{name} of a batch of kind "{kind}" ({Zf.shape[0]} rows, nx={nx}, nu={nu}) has shape {list(got.shape)}, '
                             f'expected {list(want.shape)} (original columns, then one feature block)', dict(case, route=name), tags)
                    continue
                if not np.array_equal(got[:, :lead], want[:, :lead]):
                    ctx.fail(f'{name} of a batch of kind "{kind}": the leading columns are not the original state / input',
                             dict(case, route=name), tags)
                    continue
                if want.shape[1] == lead:
                    continue
                blk, wblk = got[:, lead:], want[:, lead:]
                if not np.allclose(blk, wblk, rtol=1e-10, atol=1e-13 * amp):
                    dev = float(np.max(np.abs(blk - wblk)))
                    ctx.fail(f'{name} of a batch of kind "{kind}" ({kernel}/{method}, shape={shape}, D={D}, nx={nx}, nu={nu}, '
                             f'{Zf.shape[0]} rows): the appended block is not the random Fourier features z([x; u]) computed from '
                             f'random_weights_ / random_offsets_ (max deviation {dev:.3g}; block norms '
                             f'{np.linalg.norm(blk, axis=1)[:3].round(6).tolist()}, expected {np.linalg.norm(wblk, axis=1)[:3].round(6).tolist()})',
                             dict(case, route=name, got=blk.tolist(), expected=wblk.tolist()), tags)
                    continue
                if method == 'weight_only' and not np.allclose(np.sum(blk ** 2, axis=1), 1.0, rtol=1e-12):
                    ctx.fail(f'{name} of a batch of kind "{kind}": weight_only feature vectors do not have unit norm',
                             dict(case, route=name), tags)


def special_kernel_estimate(ctx, n_cases):
    """the property itself on special batches: inner products of the block appended by KernelApproxLiftingFn estimate the
    named kernel of the difference of the [x; u] rows within 6 / sqrt(D) (several standard deviations; independent draws:
    RandomState seeds, or weight_only), also when the input is identically zero"""
    rng = ctx.rng
    for i in range(n_cases):
        nx, nu = rng.randint(1, 2), rng.randint(1, 2)
        kernel = KERNELS[i % 3]
        method = rng.choice(['weight_offset', 'weight_only'])
        shape = rng.choice([0.25, 1.0])
        D = 1024
        seed = rng.randint(0, 10 ** 6)
        rs = np.random.RandomState(rng.randint(0, 2 ** 31 - 1))
        lf = pykoop.KernelApproxLiftingFn(kernel_approx=pykoop.RandomFourierKernelApprox(
            kernel_or_ft=kernel, n_components=D, shape=shape, method=method, random_state=np.random.RandomState(seed)))
        lf.fit(rs.uniform(-1, 1, (4, nx + nu)), n_inputs=nu)
        for kind in ('unforced episode', 'generic', 'single row, u = 0', 'repeated row with u = 0', 'all-zero batch'):
            Z, _ = special_batch(kind, nx, nu, rng, rs)
            for name, F in (('transform', lf.transform(Z)[:, nx + nu:]),
                            ('lift_input', lf.lift_input(Z, episode_feature=False)[:, nu:])):
                ctx.count('special batch: kernel estimate')
                K = F @ F.T
                Kt = np.array([[kernel_value(kernel, shape, a - c) for c in Z] for a in Z])
                err = float(np.max(np.abs(K - Kt))) if K.shape == Kt.shape else float('inf')
                case = {'kernel': kernel, 'method': method, 'shape': shape, 'D': D, 'seed': seed, 'seed_kind': 'instance', 'nx': nx,
                        'nu': nu, 'batch': kind, 'Z': Z.tolist(), 'route': name}
                ctx.record_case({k: v for k, v in case.items() if k != 'Z'}, True)
                if err > 6 / np.sqrt(D):
                    ctx.fail(f'{name} of a batch of kind "{kind}" ({kernel}/{method}, shape={shape}, D={D}): inner products of the '
                             f'appended features are {err:.3g} away from the kernel of the row differences (bound {6 / np.sqrt(D):.3g})',
                             case, {'part': 'special batch', 'batch': kind, 'route': name, 'what': 'kernel estimate'})


BUFFER_LAYOUTS = ['C', 'C', 'C', 'F', 'column-slice view', 'row-slice view', 'strided rows', 'int64']
BUFFER_STEPS = ['refill', 'refill', 'refill', 'refill one row', 'refill one entry', 'negate in place', 'unchanged',
                'another array in between', 'shifted copy of itself']


def make_buffer(layout, m, w, rs):
    """an m x w array of the requested memory layout (the SAME object is handed to every call of a sequence)"""
    if layout == 'F':
        return np.asfortranarray(np.zeros((m, w)))
    if layout == 'column-slice view':
        return np.zeros((m, w + 3))[:, 1:1 + w]
    if layout == 'row-slice view':
        return np.zeros((m + 4, w))[2:2 + m]
    if layout == 'strided rows':
        return np.zeros((2 * m, w))[::2]
    if layout == 'int64':
        return np.zeros((m, w), dtype='int64')
    return np.zeros((m, w))


def fresh_content(buf, rs, lo=0):
    """new values for the columns lo.. of the buffer (integers for an integer buffer)"""
    shp = (buf.shape[0], buf.shape[1] - lo)
    if buf.dtype.kind == 'i':
        return rs.randint(-3, 4, shp)
    return rs.uniform(-1.5, 1.5, shp)


def buffer_reuse(ctx, n_cases):
    """OBJECT-IDENTITY forms: ONE ndarray object used by the caller as a work buffer. It is handed to transform / lift / lift_input of
    one fitted estimator (RandomFourierKernelApprox, KernelApproxLiftingFn with / without episode feature, a KoopmanPipeline around
    it) several times in a row; between the calls its contents are overwritten IN PLACE (whole, one row, one entry, negated, left
    unchanged, another array lifted in between) and the matrices returned earlier are sometimes edited in place by the caller.
    Every answer must be [x, u, z([x; u])] of the contents AT THAT CALL, z computed here from random_weights_ / random_offsets_;
    the call must not write into the buffer, and a matrix returned earlier must not change during a later call."""
    rng = ctx.rng
    for i in range(n_cases):
        nx = rng.randint(1, 3)
        nu = rng.choice([0, 1, 1, 2])
        kernel, method = rng.choice(KERNELS), rng.choice(['weight_offset', 'weight_only'])
        shape = rng.choice([0.25, 1.0, 2.5])
        D = rng.choice([1, 2, 5, 16, 64])
        seed_type, seed = rng.choice(['int', 'instance']), rng.randint(0, 10 ** 6)
        target = rng.choice(['estimator', 'estimator', 'lifting function', 'lifting function', 'lifting function', 'pipeline'])
        fit_ep = target != 'estimator' and rng.random() < 0.4
        layout = rng.choice(BUFFER_LAYOUTS)
        fit_on_buffer = rng.random() < 0.3
        rs = np.random.RandomState(rng.randint(0, 2 ** 31 - 1))
        m = rng.randint(1, 6) if not fit_on_buffer else rng.randint(2, 6)
        w = nx + nu
        lo = 1 if fit_ep else 0
        cfg = {'nx': nx, 'nu': nu, 'kernel': kernel, 'method': method, 'shape': shape, 'D': D, 'seed_kind': seed_type, 'seed': seed,
               'object': target, 'fitted_with_episode_feature': fit_ep, 'buffer_layout': layout, 'rows': m,
               'fitted_on_the_buffer': fit_on_buffer}

        def make_ka():
            return pykoop.RandomFourierKernelApprox(kernel_or_ft=kernel, n_components=D, shape=shape, method=method,
                                                    random_state=seed if seed_type == 'int' else np.random.RandomState(seed))

        buf = make_buffer(layout, m, w + lo, rs)
        if fit_ep:
            # episode column: one episode, or (sorted) several
            ep = np.sort(rs.randint(0, 2, m)) if rng.random() < 0.5 else np.zeros(m)
            buf[:, 0] = ep
        buf[:, lo:] = fresh_content(buf, rs, lo)
        Xtr = buf if fit_on_buffer else np.hstack((np.zeros((4, lo)), rs.uniform(-1, 1, (4, w))))
        if target == 'estimator':
            obj = make_ka().fit(Xtr)
            ka_of = lambda o: o
        elif target == 'lifting function':
            obj = pykoop.KernelApproxLiftingFn(kernel_approx=make_ka()).fit(Xtr, n_inputs=nu, episode_feature=fit_ep)
            ka_of = lambda o: o.kernel_approx_
        else:
            obj = pykoop.KoopmanPipeline(lifting_functions=[('ka', pykoop.KernelApproxLiftingFn(kernel_approx=make_ka()))],
                                         regressor=None)
            obj.fit_transformers(Xtr, n_inputs=nu, episode_feature=fit_ep)
            ka_of = lambda o: o.lifting_functions_[0][1].kernel_approx_
        single_ep = (not fit_ep) or len(set(buf[:, 0].tolist())) == 1
        # routes: (name, call on the buffer, which block comes back, episode column in the answer)
        if target == 'estimator':
            routes = [('RandomFourierKernelApprox.transform', lambda b: obj.transform(b), 'features', False)]
        elif target == 'lifting function' and not fit_ep:
            routes = [('transform', lambda b: obj.transform(b), 'full', False),
                      ('transform', lambda b: obj.transform(b), 'full', False),
                      ('lift(default episode feature)', lambda b: obj.lift(b), 'full', False),
                      ('lift(episode_feature=False)', lambda b: obj.lift(b, episode_feature=False), 'full', False),
                      ('lift_input(episode_feature=False)', lambda b: obj.lift_input(b, episode_feature=False), 'input', False),
                      ('kernel_approx_.transform', lambda b: obj.kernel_approx_.transform(b), 'features', False)]
        elif target == 'lifting function':
            routes = [('transform', lambda b: obj.transform(b), 'full', True),
                      ('lift(episode_feature=True)', lambda b: obj.lift(b, episode_feature=True), 'full', True),
                      ('lift_input(default episode feature)', lambda b: obj.lift_input(b), 'input', True)]
            if single_ep:
                routes.append(('lift(episode_feature=False) of the data columns of the buffer',
                               lambda b: obj.lift(b[:, 1:], episode_feature=False), 'full', False))
                routes.append(('kernel_approx_.transform of the data columns of the buffer',
                               lambda b: obj.kernel_approx_.transform(b[:, 1:]), 'features', False))
        else:
            routes = [('KoopmanPipeline.lift', lambda b: obj.lift(b, episode_feature=fit_ep), 'full', fit_ep),
                      ('KoopmanPipeline.lift_input', lambda b: obj.lift_input(b, episode_feature=fit_ep), 'input', fit_ep)]
        steps = ['first call'] + [rng.choice(BUFFER_STEPS) for _ in range(rng.randint(2, 5))]
        if 'refill' not in steps:
            steps[rng.randint(1, len(steps) - 1)] = 'refill'
        kept = []            # (matrix returned earlier - the caller's reference, what it held when the caller last looked)
        history = []
        failed = False
        for k, step in enumerate(steps):
            if step in ('refill', 'another array in between'):
                buf[:, lo:] = fresh_content(buf, rs, lo)
            elif step == 'refill one row':
                r = rng.randrange(m)
                buf[r, lo:] = fresh_content(buf, rs, lo)[r]
            elif step == 'refill one entry':
                r, c = rng.randrange(m), lo + rng.randrange(w)
                buf[r, c] = fresh_content(buf, rs, lo)[r, c - lo] + (1 if buf.dtype.kind == 'i' else 0.25)
            elif step == 'negate in place':
                buf[:, lo:] *= -1
            elif step == 'shifted copy of itself':
                buf[:, lo:] = np.roll(buf[:, lo:], 1, axis=0) + (1 if buf.dtype.kind == 'i' else 0.5)
            name, call, what, has_ep = routes[rng.randrange(len(routes))]
            if step == 'another array in between':
                other = np.array(buf, dtype=float)
                other[:, lo:] = rs.uniform(-1.5, 1.5, (m, w))
                call(other)
            before = np.array(buf)
            got_ref = call(buf)
            got = np.array(got_ref, dtype=float)
            Zf = np.asarray(before[:, lo:], dtype=float)
            history.append({'step': step, 'route': name, 'contents': before.tolist()})
            ctx.count('buffer reuse: ' + step)
            ctx.count('buffer reuse: layout ' + layout)
            case = dict(cfg, sequence=history, failing_step=k)
            ctx.record_case(dict(cfg, step=step, route=name.split('(')[0]), True)
            tags = {'part': 'buffer reuse', 'step': step, 'route': name.split('(')[0], 'object': target}
            ka = ka_of(obj)
            W, b = ka.random_weights_, ka.random_offsets_
            if W.shape != (w, D) or (method == 'weight_offset' and np.shape(b) != (D,)):
                ctx.mismatch('fitted weights / offsets of the kernel approximation have unexpected shapes', case,
                             [list(np.shape(W)), list(np.shape(b))], [[w, D], [D]])
                break
            feats, amp = features_direct(W, b, shape, method, Zf)
            if what == 'features':
                want, lead = feats, 0
            elif what == 'input':
                want, lead = (np.hstack((Zf[:, nx:], feats)), nu) if nu else (np.zeros((m, 0)), 0)
            else:
                want, lead = np.hstack((Zf, feats)), w
            if has_ep:
                want, lead = np.hstack((np.asarray(before[:, :1], dtype=float), want)), lead + 1
            where = (f'call {k + 1} of {len(steps)} on the same {layout} buffer ({target}, {kernel}/{method}, shape={shape}, D={D}, nx={nx}, '
                     f'nu={nu}, {m} rows; since the previous call: {step}), {name}')
            if not np.array_equal(np.array(buf), before):
                ctx.fail(f'{where}: the call wrote into the caller\'s array', case, tags)
                failed = True
                break
            if got.shape != want.shape:
                ctx.fail(f'{where}: shape {list(got.shape)}, expected {list(want.shape)}', case, tags)
                failed = True
                break
            if not np.array_equal(got[:, :lead], want[:, :lead]):
                ctx.fail(f'{where}: the leading columns are not the state / input that are in the buffer at this call', case, tags)
                failed = True
                break
            blk, wblk = got[:, lead:], want[:, lead:]
            if blk.shape[1] and not np.allclose(blk, wblk, rtol=1e-10, atol=1e-13 * amp):
                dev = float(np.max(np.abs(blk - wblk)))
                stale = ''
                for j, h in enumerate(history[:-1]):
                    old = features_direct(W, b, shape, method, np.asarray(h['contents'], dtype=float)[:, lo:])[0]
                    if old.shape == wblk.shape and np.allclose(blk, old, rtol=1e-10, atol=1e-13 * amp):
                        stale = f'; they ARE the features of the contents at call {j + 1}'
                        break
                ctx.fail(f'{where}: the features returned are not the random Fourier features of the points that are in the buffer at this '
                         f'call, computed from random_weights_ / random_offsets_ (max deviation {dev:.3g}){stale}',
                         dict(case, got=blk.tolist(), expected=wblk.tolist()), tags)
                failed = True
                break
            if method == 'weight_only' and blk.shape[1] and not np.allclose(np.sum(blk ** 2, axis=1), 1.0, rtol=1e-12):
                ctx.fail(f'{where}: weight_only feature vectors do not have unit norm', case, tags)
                failed = True
                break
            # the caller may do what it likes with the matrix it received
            if isinstance(got_ref, np.ndarray) and got_ref.size and got_ref.flags.writeable and rng.random() < 0.5:
                edit = rng.choice(['zeroed', 'doubled', 'one entry set'])
                if edit == 'zeroed':
                    got_ref[:] = 0.0
                elif edit == 'doubled':
                    got_ref *= 2.0
                else:
                    got_ref[rng.randrange(got_ref.shape[0]), got_ref.shape[1] - 1] = 7.0
                history[-1]['caller_then'] = 'returned matrix ' + edit + ' in place'
                ctx.count('buffer reuse: returned matrix edited in place before the next call')
                if not np.array_equal(np.array(buf), before):
                    ctx.fail(f'{where}: the returned matrix shares memory with the caller\'s array (editing it changed the buffer)', case, tags)
                    failed = True
                    break
            if isinstance(got_ref, np.ndarray):
                kept.append((k, got_ref, np.array(got_ref)))
        if not failed:
            for k, ref, snap in kept:
                if ref.shape[1] and not np.array_equal(ref, snap, equal_nan=True):
                    ctx.fail(f'the matrix returned by call {k + 1} on a re-used {layout} buffer ({target}, {kernel}/{method}, D={D}) changed '
                             f'during later calls / refills of the buffer: answers given earlier are no longer the features of the points '
                             f'they were computed for', dict(cfg, sequence=history, changed_answer_of_step=k),
                             {'part': 'buffer reuse', 'step': 'earlier answer kept', 'object': target})
                    break


def buffer_kernel_estimate(ctx, n_cases):
    """the property itself across two fills of one buffer: batch A is lifted, the buffer is overwritten in place with batch B and
    lifted again; <z(a), z(b)> must be within 6 / sqrt(D) of the named kernel of a - b for every a in A, b in B (independent draws:
    RandomState seeds, or weight_only), and also within each batch"""
    rng = ctx.rng
    for i in range(n_cases):
        nx, nu = rng.randint(1, 2), rng.randint(0, 2)
        kernel = KERNELS[i % 3]
        method = ('weight_offset', 'weight_only')[(i // 3) % 2]
        shape = rng.choice([0.25, 1.0, 2.0])
        D = 1024
        seed = rng.randint(0, 10 ** 6)
        seed_type = 'instance' if method == 'weight_offset' else rng.choice(['int', 'instance'])
        rs = np.random.RandomState(rng.randint(0, 2 ** 31 - 1))
        m, w = rng.randint(2, 6), nx + nu
        ka = pykoop.RandomFourierKernelApprox(kernel_or_ft=kernel, n_components=D, shape=shape, method=method,
                                              random_state=seed if seed_type == 'int' else np.random.RandomState(seed))
        route = rng.choice(['RandomFourierKernelApprox.transform', 'KernelApproxLiftingFn.transform', 'KernelApproxLiftingFn.lift'])
        buf = np.zeros((m, w))
        A = rs.uniform(-0.8, 0.8, (m, w))
        B = A[::-1] * rs.uniform(0.2, 1.0) + rs.uniform(-0.9, 0.9, w)        # clearly different points, same box size
        buf[:] = A
        if route == 'RandomFourierKernelApprox.transform':
            ka.fit(buf if rng.random() < 0.5 else rs.uniform(-1, 1, (3, w)))
            call = lambda: np.array(ka.transform(buf), dtype=float)
        else:
            lf = pykoop.KernelApproxLiftingFn(kernel_approx=ka).fit(buf if m >= 2 and rng.random() < 0.5 else rs.uniform(-1, 1, (3, w)),
                                                                    n_inputs=nu, episode_feature=False)
            if route.endswith('transform'):
                call = lambda: np.array(lf.transform(buf), dtype=float)[:, w:]
            else:
                call = lambda: np.array(lf.lift(buf, episode_feature=False), dtype=float)[:, w:]
        Fa = call()
        buf[:] = B
        Fb = call()
        buf[:] = A
        Fa2 = call()
        case = {'kernel': kernel, 'method': method, 'shape': shape, 'D': D, 'seed': seed, 'seed_kind': seed_type, 'nx': nx, 'nu': nu,
                'route': route, 'first_fill': A.tolist(), 'second_fill': B.tolist(), 'third_fill': 'the first again'}
        ctx.count('buffer reuse: kernel estimate across two fills')
        ctx.record_case({k: v for k, v in case.items() if not k.endswith('_fill')}, True)
        bound = 6 / np.sqrt(D)
        for label, F, G, P, Q in (('first and second fill', Fa, Fb, A, B), ('second fill', Fb, Fb, B, B),
                                  ('second and third fill', Fb, Fa2, B, A)):
            Kt = np.array([[kernel_value(kernel, shape, p - q) for q in Q] for p in P])
            K = F @ G.T if F.shape[1:] == G.shape[1:] else np.zeros((0, 0))
            err = float(np.max(np.abs(K - Kt))) if K.shape == Kt.shape else float('inf')
            if err > bound:
                ctx.fail(f'{route} on one buffer filled in place with batch A, then B, then A again ({kernel}/{method}, shape={shape}, D={D}, '
                         f'{m} rows of {w}): inner products of the features of the {label} are {err:.3g} away from the kernel of the '
                         f'differences of the points (bound {bound:.3g})', dict(case, pair=label),
                         {'part': 'buffer reuse', 'what': 'kernel estimate', 'route': route})
                break


def run(ctx):
    ctx.rule = ('(a) fitted RandomFourierKernelApprox (kernels x methods x shapes x 1..4 features x 1..16 components x int / '
                'RandomState seeds): transform vs the Lean Float evaluation of the feature-map formula given the fitted '
                '(W, b) (rel 1e-12; absolute 1e-14 x the size of the cosine argument, which heavy-tailed Cauchy weights make large), output width, kernel-name -> sampling-distribution table, unit norm for weight_only; '
                '(b) stream model: which draws coincide with a replay of RandomState(seed); (c) KernelApproxLiftingFn '
                'layout; (d) statistical oracle, seeded and fixed-size: mean estimate over many seeds vs closed-form kernel; '
                '(e) data-value forms: KernelApproxLiftingFn (n_inputs 0..3, with / without episode feature) and its estimator on batches '
                'whose input columns are exactly zero (unforced episode, single row with u = 0, -0.0, one unforced episode among forced ones), '
                'all-zero / repeated / integer-valued rows, constant or tiny inputs: transform, lift, lift_input, lift_state, fit_transform '
                'and a KoopmanPipeline around it must return [x, u, z([x; u])] with z computed here from random_weights_ / random_offsets_ '
                '(rel 1e-10), unit norm for weight_only, and with D = 1024 the inner products of the appended block within 6/sqrt(D) of the kernel; '
                '(f) object-identity forms: ONE ndarray (C / Fortran order, column- / row-slice and strided views, int64) handed 3..6 times in a row to '
                'transform / lift / lift_input / kernel_approx_.transform of one fitted RandomFourierKernelApprox, KernelApproxLiftingFn (with / '
                'without episode feature, also fitted on the buffer itself) or KoopmanPipeline, its contents overwritten IN PLACE between the calls '
                '(whole, one row, one entry, negated, unchanged, another array lifted in between) and the returned matrices edited in place by the '
                'caller: every answer must be [x, u, z([x; u])] of the contents AT THAT CALL (z computed here from random_weights_ / random_offsets_, '
                'rel 1e-10), the call must not write into the buffer, answers returned earlier must not change later; with D = 1024 and the buffer '
                'filled with batch A, then B, then A, the inner products <z(a), z(b)> are within 6/sqrt(D) of the kernel of a - b')
    ctx.explanation = ('level "other": exact identities, layout and the stream model are theorems (C17_*); the feature-map formula '
                       'is tied to the code by a Float correspondence; the kernel means (all three named kernels, any dimension), '
                       'unbiasedness over the offset and the O(1/sqrt(D)) concentration are theorems GIVEN independent draws from '
                       'the named distributions; that scipy samplers deliver those is trusted / checked statistically only; '
                       'that the lifting function appends the features of [x; u] for EVERY batch (no branch on the values in the '
                       'batch, e.g. an input that is identically zero) is checked by a direct oracle on special-valued batches; that the '
                       'answer depends on the VALUES handed over at the call and on nothing remembered about the array object (a caller '
                       're-using one array as a work buffer, or editing a returned matrix) is checked by a direct oracle on call sequences')
    ctx.assumptions = ['scipy.stats samplers have the named distributions (norm / cauchy / laplace / uniform)', 'successive draws are independent (false for integer seeds: finding F-rff)']
    ctx.proof_obligations('Properties.C17', THEOREMS)
    drv = ctx.get_driver()
    lines, meta = [], []
    table = {'gaussian': 'norm', 'laplacian': 'cauchy', 'cauchy': 'laplace'}
    for i in range(ctx.n(120, 1500)):
        est, X, tag = gen_fit(ctx.rng)
        Z = est.transform(X)
        wo = tag['method'] == 'weight_only'
        W = est.random_weights_            # (n_features, n_components)
        b = est.random_offsets_ if not wo else np.zeros((0,))
        lines.append(f"rff {1 if wo else 0} {bits(tag['shape'])} {fmat(W.T)} {fmat(np.atleast_2d(b))} {fmat(X)}")
        meta.append((est, X, Z, tag))
    for (est, X, Z, tag), rep in zip(meta, drv.ask(lines)):
        ctx.count(f"{tag['kernel']}/{tag['method']}/{tag['seed_type']}")
        ctx.record_case(tag, True)
        t = rep.split()
        vals = np.array([unbits(x) for x in t[1:]]).reshape(Z.shape) if t[0] == 'ok' and len(t) - 1 == Z.size else None
        amp = 1.0 + float(np.max(np.abs(np.sqrt(2 * tag['shape']) * X @ est.random_weights_)))
        if vals is None or not np.allclose(vals, Z, rtol=1e-12, atol=1e-14 * amp):
            ctx.mismatch('feature map formula', tag, Z.tolist(), None if vals is None else vals.tolist())
        width = tag['D'] * (2 if tag['method'] == 'weight_only' else 1)
        if Z.shape[1] != width or est.n_features_out_ != width:
            ctx.mismatch('output width', tag, [Z.shape[1], est.n_features_out_], width)
        if est.ft_.name != table[tag['kernel']]:
            ctx.mismatch('kernel -> sampling distribution table', tag, est.ft_.name, table[tag['kernel']])
        if tag['method'] == 'weight_only' and not np.allclose(np.sum(Z ** 2, axis=1), 1.0, rtol=1e-12):
            ctx.fail('weight_only feature vectors do not have unit norm', tag, {'method': 'weight_only'})
        # stream model: with an int seed BOTH draws replay RandomState(seed) from the start; with an instance the second
        # draw continues after the first
        if tag['method'] == 'weight_offset':
            rs = np.random.RandomState(tag['seed'])
            w_replay = est.ft_.rvs(scale=1, size=est.random_weights_.shape, random_state=rs)
            b_cont = scipy.stats.uniform.rvs(loc=0, scale=2 * np.pi, size=tag['D'], random_state=rs)
            b_fresh = scipy.stats.uniform.rvs(loc=0, scale=2 * np.pi, size=tag['D'], random_state=np.random.RandomState(tag['seed']))
            if not np.array_equal(w_replay, est.random_weights_):
                ctx.mismatch('weights are not the first draw of the seeded stream', tag, None, None)
            model_restart = tag['seed_type'] == 'int'       # Streams.positions .int restarts, .instance continues
            got_restart = np.array_equal(est.random_offsets_, b_fresh)
            got_cont = np.array_equal(est.random_offsets_, b_cont)
            if model_restart != got_restart or (not model_restart) != got_cont:
                ctx.mismatch('stream positions read by the offsets draw', tag, {'restart': got_restart, 'continue': got_cont},
                             {'restart': model_restart})
    # SIZE forms: the feature map is a row-by-row formula, so a big batch (many samples x many components, beyond any block
    # size) must give, for every row, exactly what that row gives alone - checked against the direct formula
    for D, n_rows in ((2048, 2100), (100, 42500)) if ctx.tier == 'quick' else ((2048, 2100), (100, 42500), (4096, 1500), (512, 9000)):
        for method in ('weight_only', 'weight_offset'):
            rs = np.random.RandomState(ctx.rng.randint(0, 2 ** 31 - 1))
            nf = ctx.rng.randint(1, 3)
            Xb = rs.uniform(-1.5, 1.5, (n_rows, nf))
            shape = ctx.rng.choice([0.5, 1.0, 2.0])
            est = pykoop.RandomFourierKernelApprox(n_components=D, random_state=np.random.RandomState(ctx.rng.randint(0, 999)),
                                                   method=method, shape=shape, kernel_or_ft='gaussian').fit(Xb)
            Zb = est.transform(Xb)
            idx = sorted({0, 1, n_rows // 2, n_rows - 2, n_rows - 1} | {ctx.rng.randrange(n_rows) for _ in range(5)})
            prod = np.sqrt(2 * shape) * Xb[idx] @ est.random_weights_
            want = (np.hstack((np.cos(prod), np.sin(prod))) if method == 'weight_only'
                    else np.sqrt(2) * np.cos(prod + est.random_offsets_)) / np.sqrt(D)
            tag = {'size_form': f'{n_rows} samples x {D} components', 'method': method, 'shape': shape}
            ctx.count('size form')
            ctx.record_case(tag, True)
            if Zb.shape[0] != n_rows or not np.allclose(Zb[idx], want, rtol=1e-10, atol=1e-13):
                bad = [i for i, (a, b) in zip(idx, zip(Zb[idx], want)) if not np.allclose(a, b, rtol=1e-10, atol=1e-13)]
                ctx.fail(f'rows {bad[:5]} of a large batch ({n_rows} samples x {D} components, {method}) are not the feature map of '
                         f'those samples (row 0: norm {float(np.linalg.norm(Zb[0])):.6g}, formula {float(np.linalg.norm(want[0])):.6g})',
                         tag, {'method': method, 'size': 'large'})
            del Zb
    # layout of the lifting function
    for i in range(ctx.n(20, 200)):
        rng = ctx.rng
        nx, nu = rng.randint(1, 3), rng.randint(0, 2)
        rs = np.random.RandomState(rng.randint(0, 2 ** 31 - 1))
        X = rs.uniform(-1, 1, (5, nx + nu))
        if rng.random() < 0.4:
            X = rs.randint(-3, 4, (5, nx + nu)).astype(rng.choice(['int64', 'int32', 'float64']))     # integer-valued samples
        ka = pykoop.RandomFourierKernelApprox(n_components=3, random_state=rng.randint(0, 99), method=rng.choice(['weight_only', 'weight_offset']))
        lf = pykoop.KernelApproxLiftingFn(kernel_approx=ka).fit(X, n_inputs=nu)
        Xt = lf.transform(X)
        feats = lf.kernel_approx_.transform(X)
        ctx.count('layout')
        if not np.array_equal(Xt, np.hstack((X, feats))):
            ctx.fail('KernelApproxLiftingFn output is not state, input, then the features', {'nx': nx, 'nu': nu}, {'part': 'layout'})
        want = (nx + feats.shape[1], 0) if nu == 0 else (nx, nu + feats.shape[1])
        if (lf.n_states_out_, lf.n_inputs_out_) != want:
            ctx.fail('kernel features are not declared in the block C02 says', {'nx': nx, 'nu': nu}, {'part': 'layout'})
    # data-value forms: special batches (zero input columns, zero / repeated rows, ...) through every route
    special_batches(ctx, ctx.n(40, 400))
    special_kernel_estimate(ctx, ctx.n(6, 36))
    # object-identity forms: one ndarray re-used as a work buffer across calls on one fitted estimator
    buffer_reuse(ctx, ctx.n(150, 1500))
    buffer_kernel_estimate(ctx, ctx.n(12, 72))
    # statistical oracle
    n_seeds = 300 if ctx.tier == 'quick' else 1500
    for kernel in KERNELS:
        for method in ('weight_offset', 'weight_only'):
            for seed_type in ('int', 'instance'):
                if ctx.tier == 'quick' and method == 'weight_only' and seed_type == 'instance':
                    continue
                for shape in ((1.0, 0.4) if ctx.tier == 'quick' else (1.0, 0.4, 2.5)):
                    res = stat_oracle(kernel, method, seed_type, n_seeds if shape == 1.0 else n_seeds // 2, ctx.rng, shape)
                    ctx.count('stat:' + seed_type)
                    if res:
                        ctx.fail(res[0], res[1], {'seed_type': res[1]['seed_type'], 'method': res[1]['method']})
    # the same after a re-fit under a new name (history): fit as kernel A, set_params(kernel_or_ft=B), fit
    for kernel, other in zip(KERNELS, KERNELS[1:] + KERNELS[:1]):
        for method, seed_type in (('weight_only', 'int'), ('weight_offset', 'instance')):
            res = stat_oracle(kernel, method, seed_type, n_seeds // 2, ctx.rng, 1.0, refit_from=other)
            ctx.count('stat:refit')
            if res:
                ctx.fail(res[0], res[1], {'seed_type': res[1]['seed_type'], 'method': res[1]['method'], 'history': 'refit'})
    return ctx.finish('other', None)


def replay(ctx, path):
    print(open(path).read()[:3000])
    return 1
