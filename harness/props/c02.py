"""C02 - Lifted state block never depends on the exogenous input."""
import json

import numpy as np

from .. import core, pipes, structural as st

THEOREMS = ['Pk.C02.C02_partition', 'Pk.C02.C02_state_independent', 'Pk.C02.C02_state_independent_matrix',
            'Pk.rowFn_xloc', 'Pk.C02.C02_dependency_sound']
KINDS = ['poly', 'bilinear', 'const', 'delay', 'sk', 'angle', 'rbf', 'kernel']
ALG = ['poly', 'bilinear', 'const', 'delay']


def col_deps_model(reply, case):
    """dependency instance: for each output column, the set of source columns it may depend on"""
    rows, err = st.parse_reply_mat(reply)
    if err:
        return None
    w = case['nx'] + case['nu']
    if not rows:
        return []
    deps = [set() for _ in rows[0][1]]
    for _, cells in rows:
        for j, c in enumerate(cells):
            if c != '-':
                deps[j] |= {int(x) % w for x in c.split(',')}
    return deps


def same(a, b):
    """unchanged up to the last bits (vectorised elementary functions may round a lane differently when OTHER lanes change)"""
    a, b = np.asarray(a, dtype=float), np.asarray(b, dtype=float)
    return a.shape == b.shape and np.allclose(a, b, rtol=1e-11, atol=1e-13, equal_nan=True)


def col_deps_impl(case, est, rng):
    """perturb one input column at a time; which output columns move"""
    X = st.X_of(case)
    ep = 1 if case['ep'] else 0
    base = est.transform(X)
    deps = [set() for _ in range(base.shape[1] - ep)]
    for j in range(case['nx'] + case['nu']):
        Xp = X.copy()
        Xp[:, ep + j] = (Xp[:, ep + j] * 3 + 7) if Xp.dtype.kind in 'iu' else (Xp[:, ep + j] * 1.37 + 0.211)
        out = est.transform(Xp)
        for k in range(base.shape[1] - ep):
            if not same(out[:, ep + k], base[:, ep + k]):
                deps[k].add(j)
    return deps


def _oracle(case, rng, est=None):
    """replace only the input columns: the lifted-state block must be bit-identical, and the output must
    have exactly episode + n_states_out_ + n_inputs_out_ columns"""
    try:
        if est is None:
            est = st.fit_case(case)
    except Exception:
        return None
    X = st.X_of(case)
    ep = 1 if case['ep'] else 0
    nx, nu = case['nx'], case['nu']
    Xt = est.transform(X)
    if Xt.shape[1] != ep + est.n_states_out_ + est.n_inputs_out_:
        return 'lifted width is not episode + n_states_out_ + n_inputs_out_'
    if nu == 0:
        if est.n_inputs_out_ != 0:
            return 'input-dependent features declared without any input'
        return None
    for trial in range(3):
        Xp = X.copy()
        Xp[:, ep + nx:] = np.array([[rng.uniform(-3, 3) for _ in range(nu)] for _ in range(X.shape[0])])
        Xtp = est.transform(Xp)
        a = Xt[:, :ep + est.n_states_out_]
        b = Xtp[:, :ep + est.n_states_out_]
        if not np.array_equal(a, b):
            bad = sorted({int(k) for k in np.argwhere(a != b)[:, 1]})
            return f'lifted-state columns {bad} changed when only the input columns were replaced'
    return None


def unexcited_cases(rng):
    """every kind of stage, alone and behind a polynomial stage, fitted on data whose INPUT columns are identically zero
    (an unexcited input is valid data); the oracle then replaces the inputs by non-zero values"""
    for kind in KINDS:
        for nu in (1, 2):
            nx = 2
            stage = None
            for _ in range(20):
                stage = pipes.gen_row_stage(rng, [kind], nx, nu)
                if kind != 'delay' or stage['dx'] + stage['du'] <= 3:
                    break
            ep = rng.random() < 0.5
            m = pipes.loss(stage) + 2
            n = m + 3
            rows = [([0] if ep else []) + [round(rng.uniform(-2, 2), 3) for _ in range(nx)] + [0.0] * nu for _ in range(n)]
            yield {'spec': stage, 'nx': nx, 'nu': nu, 'ep': ep, 'rows': rows, 'min_len': m, 'form': 'c', 'degenerate': True}


def opaque_sweep(rng):
    """every centre generator (QMC: every engine, sample counts that are and are not powers of two) and every kernel
    approximation (incl. more components than samples), alone and before a polynomial stage, with at least one input"""
    specs = []
    for c in ('grid', 'uniform', 'data', 'gaussian'):
        specs.append({'k': 'rbf', 'centers': c, 'rbf': 'gaussian', 'shape': 1, 'seed': 3, 'n': 3, 'ppf': 2, 'n_feat': 3, 'n_out': 3})
    for eng in (None, 'sobol', 'halton'):
        for n in (3, 4, 5):
            specs.append({'k': 'rbf', 'centers': 'qmc', 'engine': eng, 'rbf': 'gaussian', 'shape': 1, 'seed': 3, 'n': n, 'n_out': n})
    for m, n in (('rff', 2), ('binning', 2), ('rbfsampler', 3), ('nystroem', 3), ('nystroem', 100)):
        specs.append({'k': 'kernel', 'method': m, 'n': n, 'seed': 5, 'rff_method': 'weight_offset', 'kernel': 'gaussian', 'n_out': n})
    for sp in specs:
        for wrap in (False, True):
            spec = {'k': 'pipe', 'ss': [sp, {'k': 'poly', 'order': 2, 'io': False}]} if wrap else sp
            ep = rng.random() < 0.5
            rows = [([0] if ep else []) + [round(rng.uniform(-2, 2), 3) for _ in range(3)] for _ in range(7)]
            yield {'spec': spec, 'nx': 2, 'nu': 1, 'ep': ep, 'rows': rows, 'min_len': 1, 'form': 'c', 'degenerate': False}


def oracle(case, rng, est=None):
    try:
        return _oracle(case, rng, est)
    except Exception as ex:
        return f'transform raised {type(ex).__name__}: {ex}'


def population_search(ctx):
    """failing-input search over a fresh population (also used when an exception raised inside the implementation
    ended the correspondence run early)"""
    for i in range(400):
        c = st.gen_case(ctx.rng, KINDS, max_depth=3, cap=40, opaque=True)
        why = oracle(c, ctx.rng)
        if why:
            ctx.fail(why, c, {'kinds': sorted(pipes.kinds_in(c['spec']))})
            return


def run(ctx):
    ctx.rule = ('random lifting-function trees (all kinds, depth<=3) x dims x layouts; observation: the full '
                'transform (tagged integers exact / symbolic terms rel 1e-9), the declared partition, and the '
                'column dependency map (model: dependency-set instance; implementation: single-column '
                'perturbation); non-trivial = at least one stage, two rows')
    ctx.explanation = ('theorems C02_* (state block locality by induction over the tree, every kind contributing '
                       'its row-level lemma rowFn_xloc); correspondence on values, partition and dependency map; '
                       'oracle: replace the input columns, state block must be bit-identical')
    ctx.proof_obligations('Properties.C02', THEOREMS)
    drv = ctx.get_driver()
    n = ctx.n(160, 2000)
    lines, meta = [], []
    for i in range(n):
        opaque = i % 3 == 0
        c = st.gen_case(ctx.rng, KINDS if opaque else ALG, max_depth=3 if ctx.tier == 'thorough' else 2,
                        cap=40 if ctx.tier == 'quick' else 80, opaque=opaque)
        try:
            est = st.fit_case(c)
        except Exception as e:
            ctx.count('rejected:' + st.err_enum(e))
            continue
        try:
            Xt = est.transform(st.X_of(c))
        except Exception as ex:
            ctx.mismatch(f'implementation raised {type(ex).__name__}: {ex} (model returns a matrix)', c, None, None)
            continue
        l1, cells, reg = st.value_line('tr', c, est)
        l2, _, _ = st.value_line('tr', c, est, mode='dep')
        toks, _ = pipes.tokens(c['spec'], est)
        lines += [l1, l2, f"fit {c['nx']} {c['nu']} {toks}"]
        meta.append((c, est, Xt, cells, reg))
    for c in unexcited_cases(ctx.rng):
        ctx.count('unexcited-input sweep')
        why = oracle(c, ctx.rng)
        if why:
            ctx.fail(why + ' (estimator fitted on data with identically zero input columns)', c, st.case_tags(c))
    for c in opaque_sweep(ctx.rng):
        ctx.count('opaque-stage sweep')
        why = oracle(c, ctx.rng)
        if why:
            ctx.fail(why, c, st.case_tags(c))
    replies = drv.ask(lines)
    bad = []
    for i, (c, est, Xt, cells, reg) in enumerate(meta):
        st.count_dist(ctx, c)
        ctx.record_case({k: c[k] for k in ('spec', 'nx', 'nu', 'ep', 'rows')}, st.nontrivial(c))
        why = st.compare_values(Xt, replies[3 * i], c, cells, reg)
        if why:
            ctx.mismatch('transform(X): ' + why, c, None, None)
            bad.append(c)
        t = replies[3 * i + 2].split()
        decl = [int(est.n_states_out_), int(est.n_inputs_out_)]
        if t[0] != 'ok' or [int(t[1]), int(t[2])] != decl:
            ctx.mismatch('declared partition', c, decl, replies[3 * i + 2][:80])
            bad.append(c)
        dm = col_deps_model(replies[3 * i + 1], c)
        di = col_deps_impl(c, est, ctx.rng)
        algebraic = pipes.kinds_in(c['spec']) <= {'poly', 'bilinear', 'const', 'delay', 'split', 'pipe'}
        if dm is None or len(dm) != len(di):
            ctx.mismatch('dependency map shape', c, [sorted(d) for d in di], None if dm is None else [sorted(d) for d in dm])
            bad.append(c)
        else:
            for k, (a, b) in enumerate(zip(di, dm)):
                # (zero columns hide genuine dependencies from a perturbation experiment: only soundness is compared then)
                if not (a <= b) or (algebraic and a != b and not c.get('degenerate')):
                    ctx.mismatch(f'dependency of lifted column {k}', c, sorted(a), sorted(b))
                    bad.append(c)
                    break
        fc = st.float_case(ctx.rng, c)
        why = oracle(fc, ctx.rng)
        if why:
            small = st.shrink(fc, lambda x: oracle(x, ctx.rng))
            ctx.fail(oracle(small, ctx.rng) or why, small, {'kinds': sorted(pipes.kinds_in(c['spec']))})

    def search(ctx):
        for c in bad[:40]:
            for _ in range(3):
                why = oracle(st.float_case(ctx.rng, c), ctx.rng)
                if why:
                    ctx.fail(why, c, {'kinds': sorted(pipes.kinds_in(c['spec']))})
                    return
        population_search(ctx)
    return ctx.finish('proof', search)


def replay(ctx, path):
    obj = json.load(open(path))
    case = obj.get('case') or (obj.get('first_disagreement') or {}).get('case')
    why = oracle(case, ctx.rng)
    print('oracle:', why)
    return 1 if why else 0
