"""C02 - Lifted state block never depends on the exogenous input."""
import json

import numpy as np

from .. import core, pipes, structural as st

THEOREMS = ['Pk.C02.C02_partition', 'Pk.C02.C02_state_independent', 'Pk.C02.C02_state_independent_matrix',
            'Pk.rowFn_xloc', 'Pk.C02.C02_dependency_sound']
KINDS = ['poly', 'bilinear', 'const', 'delay', 'sk', 'angle', 'rbf', 'kernel']
ALG = ['poly', 'bilinear', 'const', 'delay']


def col_deps_model(reply, case):
    """dependency instance: for each output column, the set of source columns it may depend on"""
    rows, err = st.parse_reply_mat(reply)
    if err:
        return None
    w = case['nx'] + case['nu']
    if not rows:
        return []
    deps = [set() for _ in rows[0][1]]
    for _, cells in rows:
        for j, c in enumerate(cells):
            if c != '-':
                deps[j] |= {int(x) % w for x in c.split(',')}
    return deps


def same(a, b):
    """unchanged up to the last bits (vectorised elementary functions may round a lane differently when OTHER lanes change)"""
    a, b = np.asarray(a, dtype=float), np.asarray(b, dtype=float)
    return a.shape == b.shape and np.allclose(a, b, rtol=1e-11, atol=1e-13, equal_nan=True)


def col_deps_impl(case, est, rng):
    """perturb one input column at a time; which output columns move"""
    X = st.X_of(case)
    ep = 1 if case['ep'] else 0
    base = est.transform(X)
    deps = [set() for _ in range(base.shape[1] - ep)]
    for j in range(case['nx'] + case['nu']):
        Xp = X.copy()
        Xp[:, ep + j] = (Xp[:, ep + j] * 3 + 7) if Xp.dtype.kind in 'iu' else (Xp[:, ep + j] * 1.37 + 0.211)
        out = est.transform(Xp)
        for k in range(base.shape[1] - ep):
            if not same(out[:, ep + k], base[:, ep + k]):
                deps[k].add(j)
    return deps


def rounding_noise(case, est, Xt):
    """how far rounding-level changes of the data (relative / absolute 1e-15 and 1e-14, a few units in the last place)
    move the implementation's own output, in the measure of the value comparison (relative to max(1, |value|))"""
    worst = 0.0
    try:
        X = np.array(st.X_of(case), dtype=float)
        ep = 1 if case['ep'] else 0
        for eps in (1e-15, -1e-15, 1e-14, -1e-14):
            Z = X.copy(order='K')
            Z[:, ep:] = Z[:, ep:] * (1 + eps) + eps
            out = est.transform(Z)
            if out.shape != Xt.shape:
                return 0.0
            d = np.abs(out - Xt) / np.maximum(1.0, np.abs(Xt))
            d = d[np.isfinite(d)]
            if d.size:
                worst = max(worst, float(d.max()))
    except Exception:
        return 0.0
    return worst


def _oracle(case, rng, est=None):
    """replace only the input columns: the lifted-state block must be bit-identical, and the output must
    have exactly episode + n_states_out_ + n_inputs_out_ columns"""
    try:
        if est is None:
            est = st.fit_case(case)
    except Exception:
        return None
    X = st.X_of(case)
    ep = 1 if case['ep'] else 0
    nx, nu = case['nx'], case['nu']
    Xt = est.transform(X)
    if Xt.shape[1] != ep + est.n_states_out_ + est.n_inputs_out_:
        return 'lifted width is not episode + n_states_out_ + n_inputs_out_'
    if nu == 0:
        if est.n_inputs_out_ != 0:
            return 'input-dependent features declared without any input'
        return None
    for trial in range(3):
        # (same memory layout as X: the SAME values in C and in Fortran order can differ in the last bit downstream)
        Xp = X.copy(order='K')
        Xp[:, ep + nx:] = np.array([[rng.uniform(-3, 3) for _ in range(nu)] for _ in range(X.shape[0])])
        Xtp = est.transform(Xp)
        a = Xt[:, :ep + est.n_states_out_]
        b = Xtp[:, :ep + est.n_states_out_]
        if not np.array_equal(a, b):
            bad = sorted({int(k) for k in np.argwhere(a != b)[:, 1]})
            return f'lifted-state columns {bad} changed when only the input columns were replaced'
    return None


def unexcited_cases(rng):
    """every kind of stage, alone and behind a polynomial stage, fitted on data whose INPUT columns are identically zero
    (an unexcited input is valid data); the oracle then replaces the inputs by non-zero values"""
    for kind in KINDS:
        for nu in (1, 2):
            nx = 2
            stage = None
            for _ in range(20):
                stage = pipes.gen_row_stage(rng, [kind], nx, nu)
                if kind != 'delay' or stage['dx'] + stage['du'] <= 3:
                    break
            ep = rng.random() < 0.5
            m = pipes.loss(stage) + 2
            n = m + 3
            rows = [([0] if ep else []) + [round(rng.uniform(-2, 2), 3) for _ in range(nx)] + [0.0] * nu for _ in range(n)]
            yield {'spec': stage, 'nx': nx, 'nu': nu, 'ep': ep, 'rows': rows, 'min_len': m, 'form': 'c', 'degenerate': True}


def opaque_sweep(rng):
    """every centre generator (QMC: every engine, sample counts that are and are not powers of two) and every kernel
    approximation (incl. more components than samples), alone and before a polynomial stage, with at least one input"""
    specs = []
    for c in ('grid', 'uniform', 'data', 'gaussian'):
        specs.append({'k': 'rbf', 'centers': c, 'rbf': 'gaussian', 'shape': 1, 'seed': 3, 'n': 3, 'ppf': 2, 'n_feat': 3, 'n_out': 3})
    for eng in (None, 'sobol', 'halton'):
        for n in (3, 4, 5):
            specs.append({'k': 'rbf', 'centers': 'qmc', 'engine': eng, 'rbf': 'gaussian', 'shape': 1, 'seed': 3, 'n': n, 'n_out': n})
    for m, n in (('rff', 2), ('binning', 2), ('rbfsampler', 3), ('nystroem', 3), ('nystroem', 100)):
        specs.append({'k': 'kernel', 'method': m, 'n': n, 'seed': 5, 'rff_method': 'weight_offset', 'kernel': 'gaussian', 'n_out': n})
    for sp in specs:
        for wrap in (False, True):
            spec = {'k': 'pipe', 'ss': [sp, {'k': 'poly', 'order': 2, 'io': False}]} if wrap else sp
            ep = rng.random() < 0.5
            rows = [([0] if ep else []) + [round(rng.uniform(-2, 2), 3) for _ in range(3)] for _ in range(7)]
            yield {'spec': spec, 'nx': 2, 'nu': 1, 'ep': ep, 'rows': rows, 'min_len': 1, 'form': 'c', 'degenerate': False}


# ----------------------------------------------------------------------------- object lifecycle: edits after fit, no refit

_RBFS = ('gaussian', 'exponential', 'multiquadric', 'inverse_quadratic')
_REPLACEMENTS = ({'k': 'delay', 'dx': 1, 'du': 0}, {'k': 'delay', 'dx': 0, 'du': 1}, {'k': 'poly', 'order': 2, 'io': False},
                 {'k': 'sk', 'scaler': 'maxabs'})


def _value(vs):
    """a stored (JSON-able) edit value -> the object handed to set_params"""
    if 'v' in vs:
        return vs['v']
    if 'stage' in vs:
        return pipes.build(vs['stage'])
    if 'centers' in vs:
        return pipes._centers(vs['centers'])
    if 'kernel' in vs:
        return pipes._kernel(vs['kernel'])
    if 'scaler' in vs:
        return pipes._SCALERS[vs['scaler']]()
    if 'array' in vs:
        return np.array(vs['array'], dtype=int)
    raise ValueError(vs)


def gen_edits(rng, spec):
    """parameter edits that reach a NESTED stage through the composite (`name__...__param` keys of set_params, every
    scalar / object-valued parameter of every stage at every depth), and whole steps replaced by name; values are other
    valid values of the same parameter. Returns a list of [key, stored value]."""
    import pykoop
    params = pipes.build(spec).get_params(deep=True)
    keys = sorted(params)
    groups = []
    for k in keys:
        parts = k.split('__')
        leaf, v = parts[-1], params[k]
        if 'regressor' in parts or leaf.startswith('lifting_functions'):
            continue
        if leaf == 'copy':
            continue        # (copy=False asks scikit-learn to work in place on the caller's matrix: the data itself would change)
        if isinstance(v, pykoop.KoopmanLiftingFn):
            if not isinstance(v, (pykoop.KoopmanPipeline, pykoop.SplitPipeline)):
                groups.append([[k, {'stage': dict(rng.choice(_REPLACEMENTS))}]])      # a whole step replaced by name
            continue
        if len(parts) < 2:
            continue
        if isinstance(v, (bool, np.bool_)):
            groups.append([[k, {'v': not bool(v)}]])
        elif isinstance(v, (int, np.integer)):
            nv = int(v) + 1 if leaf == 'random_state' else rng.choice([x for x in (0, 1, 2, 3) if x != int(v)])
            groups.append([[k, {'v': nv}]])
        elif isinstance(v, (float, np.floating)):
            groups.append([[k, {'v': round(float(v) * 2 + 0.5, 3)}]])
        elif leaf == 'offset' and v is None:
            groups.append([[k, {'v': 0.5}]])
        elif leaf == 'rbf' and isinstance(v, str):
            groups.append([[k, {'v': rng.choice([r for r in _RBFS if r != v])}]])
        elif leaf == 'centers':
            groups.append([[k, {'centers': {'centers': rng.choice(['uniform', 'gaussian', 'qmc']), 'n': rng.choice([1, 2, 5]), 'seed': 7}}]])
        elif leaf == 'kernel_approx':
            groups.append([[k, {'kernel': {'method': rng.choice(['rff', 'rbfsampler']), 'n': rng.choice([1, 4]), 'seed': 11}}]])
        elif leaf == 'transformer':
            groups.append([[k, {'scaler': rng.choice(sorted(pipes._SCALERS))}]])
        elif leaf == 'angle_features':
            groups.append([[k, {'array': [] if len(v) else [0]}]])
    # both delays of one stage in a single call: exchanged (with as many inputs as states the lifted width and the number
    # of dropped samples stay what they were), or a fresh pair
    for k in keys:
        if k.endswith('__n_delays_state') and (k[:-5] + 'input') in params:
            ki = k[:-5] + 'input'
            dx, du = int(params[k]), int(params[ki])
            if dx != du:
                groups.append([[k, {'v': du}], [ki, {'v': dx}]])
            for _ in range(2):
                pair = rng.choice([(a, b) for a in range(4) for b in range(4) if (a, b) != (dx, du)])
                groups.append([[k, {'v': pair[0]}], [ki, {'v': pair[1]}]])
    if not groups:
        return []
    r = rng.random()
    chosen = groups if r < 0.15 else rng.sample(groups, min(len(groups), rng.choice([1, 1, 2, 3])))
    edits, replaced = [], []
    for g in chosen:
        for k, vs in g:
            if 'v' not in vs and 'array' not in vs:
                replaced.append(k + '__')
    for g in chosen:
        for k, vs in g:
            # (a parameter below a step / sub-object that is itself replaced would name a parameter of the OLD object)
            if any(k.startswith(p) for p in replaced) or any(k == e[0] for e in edits):
                continue
            edits.append([k, vs])
    return edits


def _refit(est, case, X):
    n_inputs, epf = pipes.arg_forms(case['spec'], case['nu'], case['ep'])
    if case['spec']['k'] == 'pipe':
        est.fit_transformers(X, n_inputs=n_inputs, episode_feature=epf)
    else:
        est.fit(X, n_inputs=n_inputs, episode_feature=epf)
    return est


_SIZES = ('order', 'n_delays_state', 'n_delays_input', 'n_points_per_feature', 'n_components', 'n_centers')


def _refit_stays_small(case):
    """(only bounds the COST of the refit part: widths multiply along a chain, and the generators' width cap was applied to
    the parameters before the edit; growing edits are refitted only where no polynomial / grid stage can multiply them)"""
    old = pipes.build(case['spec']).get_params(deep=True)
    grows = False
    for k, vs in case['edits']:
        leaf = k.rsplit('__', 1)[-1]
        if 'stage' in vs:
            grows = True
        elif leaf in _SIZES and not int(vs['v']) <= int(old[k]):
            grows = True
        if leaf == 'interaction_only' and not vs['v']:
            grows = True
    if not grows:
        return True
    multiplies = 'poly' in pipes.kinds_in(case['spec']) or any(
        type(v).__name__ == 'GridCenters' for v in old.values())
    return not multiplies


def _apply_edits(est, case):
    edits = [(k, _value(vs)) for k, vs in case['edits']]
    if case.get('one_call', True):
        est.set_params(**dict(edits))
    else:
        for k, v in edits:
            est.set_params(**{k: v})


def _declared(est):
    return [int(est.n_states_out_), int(est.n_inputs_out_), int(est.n_features_out_), int(est.min_samples_)]


def _lifecycle(case, rng):
    """a fitted composite, nested parameters edited through set_params, used WITHOUT refit: (status, why).
    The fitted object must keep lifting exactly as it was fitted: expected values come from the outputs recorded before
    the edit and from a second estimator, fitted from the same spec on the same data, that is never edited; the partition
    is checked directly (width = episode + n_states_out_ + n_inputs_out_, state block bit-identical under replacement of
    the input columns, lift_state / lift_input = the two declared blocks)."""
    X = np.array(st.X_of(case), dtype=float)
    ep = 1 if case['ep'] else 0
    nx, nu = case['nx'], case['nu']
    try:
        est = st.fit_case(case)
        ref = st.fit_case(case)
        Zs = [X]
        for _ in range(2 if nu else 0):
            Z = X.copy()
            Z[:, ep + nx:] = np.array([[rng.uniform(-3, 3) for _ in range(nu)] for _ in range(X.shape[0])])
            Zs.append(Z)
        before = [est.transform(Z) for Z in Zs]
        expect = [ref.transform(Z) for Z in Zs]
        decl = _declared(est)
    except Exception:
        return 'rejected:fit', None
    ns, ni = decl[0], decl[1]

    def blocks(e, when):
        """lift_state sees only the state columns, lift_input the whole matrix: the two declared blocks of transform"""
        for Z, want in zip(Zs[:2], expect[:2]):
            ls = e.lift_state(Z[:, :ep + nx])
            if not same(ls, want[:, :ep + ns]):
                return f'lift_state is not the declared lifted-state block of the fitted pipeline ({when})'
            li = e.lift_input(Z)
            w = np.hstack((want[:, :ep], want[:, ep + ns:]))
            if not same(li, w):
                return f'lift_input is not the declared lifted-input block of the fitted pipeline ({when})'
        return None

    for b, w in zip(before, expect):
        if not same(b, w):
            return 'rejected:fit-not-reproducible', None
    try:
        why = blocks(est, 'freshly fitted')
    except Exception as ex:
        why = f'lift_state / lift_input raised {type(ex).__name__}: {ex} (freshly fitted)'
    if why:
        return 'fresh', why
    try:
        _apply_edits(est, case)
    except Exception:
        return 'rejected:set_params', None
    what = 'after set_params(' + ', '.join(k for k, _ in case['edits']) + ') on the fitted object, no refit'
    try:
        if _declared(est) != decl:
            return 'edited', f'declared sizes {decl} became {_declared(est)} {what}'
        for Z, b, w in zip(Zs, before, expect):
            a = est.transform(Z)
            if a.shape[1] != ep + ns + ni:
                return 'edited', f'lifted width {a.shape[1]} is not episode + n_states_out_ ({ns}) + n_inputs_out_ ({ni}) {what}'
            if a.shape != b.shape or not np.array_equal(a, b, equal_nan=True):
                return 'edited', f'transform of the same data changed {what}'
            if not same(a, w):
                return 'edited', f'transform differs from an identically fitted, never edited estimator {what}'
        why = _oracle(case, rng, est) or blocks(est, what)
        if why:
            return 'edited', why + ('' if what in why else f' ({what})')
    except Exception as ex:
        return 'edited', f'{type(ex).__name__}: {ex} raised {what}'
    # and a refit follows the edited parameters: same partition oracle, same lifting as a new estimator given the same edits
    if not _refit_stays_small(case):
        return 'ok:refit-skipped', None
    try:
        _refit(est, case, X)
        new = pipes.build(case['spec'])
        _apply_edits(new, case)
        _refit(new, case, X)
    except Exception:
        return 'ok:refit-rejected', None
    try:
        if _declared(est) != _declared(new) or not same(est.transform(Zs[-1]), new.transform(Zs[-1])):
            return 'refit', 'a refit after set_params does not lift like a new estimator with the same parameters'
        why = _oracle(case, rng, est)
        if why:
            return 'refit', why + ' (refitted after set_params)'
    except Exception as ex:
        return 'refit', f'{type(ex).__name__}: {ex} raised after set_params and refit'
    return 'ok', None


def _lifecycle_case(rng, spec, nx, nu):
    epf = rng.random() < 0.6
    m = pipes.loss(spec) + 3
    eps, order = pipes.gen_layout(rng, m, extra=3, ep=epf)
    rows = [([l] if epf else []) + [round(rng.uniform(-2.0, 2.0), 3) for _ in range(nx + nu)] for (l, t) in order]
    case = {'spec': spec, 'nx': nx, 'nu': nu, 'ep': epf, 'rows': rows, 'min_len': m, 'form': 'c', 'degenerate': False}
    try:
        case['edits'] = gen_edits(rng, spec)
    except Exception:
        case['edits'] = []
    case['one_call'] = rng.random() < 0.6
    return case


def lifecycle_sweep(rng):
    """every kind of stage at every nesting position of a composite (pipeline, state / input branch of a split pipeline,
    split pipeline inside a pipeline, pipeline inside a pipeline), as many inputs as states"""
    nx = nu = 2
    for kind in KINDS:
        for wrap in ('pipe', 'split-state', 'split-input', 'pipe-split', 'pipe-pipe', 'pipe-split-input'):
            for rep in range(2):
                w = (nx, 0) if wrap in ('split-state', 'pipe-split') else ((0, nu) if wrap.endswith('input') else (nx, nu))
                if kind == 'bilinear' and w[1] == 0 or kind == 'const' and w[0] == 0:
                    continue
                s = None
                for _ in range(20):
                    s = pipes.gen_row_stage(rng, [kind], *w)
                    if kind != 'delay' or (s['dx'] + s['du'] <= 4 and (rep == 0 or s['dx'] != s['du'])):
                        break
                spec = {'pipe': {'k': 'pipe', 'ss': [s]},
                        'split-state': {'k': 'split', 'a': [s], 'b': []},
                        'split-input': {'k': 'split', 'a': [], 'b': [s]},
                        'pipe-split': {'k': 'pipe', 'ss': [{'k': 'split', 'a': [s], 'b': []}]},
                        'pipe-split-input': {'k': 'pipe', 'ss': [{'k': 'split', 'a': [], 'b': [s]}, {'k': 'poly', 'order': 2, 'io': False}]},
                        'pipe-pipe': {'k': 'pipe', 'ss': [{'k': 'pipe', 'ss': [s]}]}}[wrap]
                yield _lifecycle_case(rng, spec, nx, nu)


def lifecycle_random(rng, n):
    """random trees (all kinds, depth <= 3) below a composite, random nested edits"""
    for _ in range(n):
        c = st.gen_case(rng, KINDS, max_depth=3, cap=30, opaque=True)
        spec = c['spec'] if c['spec']['k'] in ('pipe', 'split') else {'k': 'pipe', 'ss': [c['spec']]}
        yield _lifecycle_case(rng, spec, c['nx'], c['nu'])


# ----------------------------------------------------------------------------- named columns: later calls with a DataFrame

_NAME_POOL = ('alpha', 'beta', 'gamma', 'pos', 'vel', 'acc', 'tau', 'q', 'w', 'z', 'x0', 'x1', 'x2', 'u0', 'u1', 'cart pos', 'Zeta', 'a_b')
_INDEX_KINDS = ('default', 'reversed', 'offset', 'shuffled', 'strings', 'duplicate', 'floats', 'dates')


def _index(kind, n, salt):
    """row labels of a frame; pykoop reads rows by position, so the labels carry no meaning"""
    import pandas
    if kind == 'default':
        return None
    if kind == 'reversed':
        return list(range(n - 1, -1, -1))
    if kind == 'offset':
        return list(range(5 + salt, 5 + salt + n))
    if kind == 'shuffled':
        return sorted(range(n), key=lambda i: (i * 7919 + salt * 31 + 17) % 104729)
    if kind == 'strings':
        return [f'r{(i * 37 + salt) % 101}_{i}' for i in range(n)]
    if kind == 'duplicate':
        return [salt % 3] * n
    if kind == 'floats':
        return [0.5 * i - 1.25 for i in range(n)]
    if kind == 'dates':
        return pandas.date_range('2001-01-01', periods=n, freq='D')[::-1]
    raise ValueError(kind)


def _frame(X, names, order, index_kind, salt=0):
    """the columns of X under their names, listed in `order` (positions of the fit order), rows labelled by `index_kind`;
    built column by column from the named data, so that X itself stays what the columns mean BY NAME"""
    import pandas
    df = pandas.DataFrame({names[j]: np.array(X[:, j], dtype=float) for j in order})
    idx = _index(index_kind, X.shape[0], salt)
    if idx is not None:
        df.index = idx
    assert list(df.columns) == [names[j] for j in order]
    return df


def _close(a, b, rtol):
    a, b = np.asarray(a, dtype=float), np.asarray(b, dtype=float)
    return a.shape == b.shape and np.allclose(a, b, rtol=rtol, atol=rtol, equal_nan=True)


def _all_perms(items):
    if len(items) <= 1:
        return [list(items)]
    out = []
    for i in range(len(items)):
        out += [[items[i]] + p for p in _all_perms(items[:i] + items[i + 1:])]
    return out


def _cycle_type(order):
    """(is it its own inverse, longest cycle) of a column order"""
    inv = all(order[order[j]] == j for j in range(len(order)))
    seen, longest = set(), 1
    for j in range(len(order)):
        k, l = j, 0
        while k not in seen:
            seen.add(k)
            k, l = order[k], l + 1
        longest = max(longest, l)
    return inv, longest


def gen_calls(rng, ep, w, thorough=False):
    """column orders (positions in the fit order; EVERY permutation when there are at most three data columns, otherwise
    the fit order, the rotations, and random shuffles) x row-label kinds for the later calls"""
    e = 1 if ep else 0
    cols = list(range(e, e + w))
    if w <= 3:
        perms = _all_perms(cols)
    else:
        perms = [cols[:], cols[1:] + cols[:1], cols[-1:] + cols[:-1], cols[2:] + cols[:2]]
        for _ in range(4):
            p = cols[:]
            rng.shuffle(p)
            perms.append(p)
    calls = []
    for p in perms:
        order = ([0] if ep else []) + p
        calls.append({'order': order, 'index': 'default' if rng.random() < 0.6 else rng.choice(_INDEX_KINDS)})
    # the fit order under every kind of row labels, and some orders that move the episode column as well
    for kind in (_INDEX_KINDS if thorough else rng.sample(_INDEX_KINDS, 3)):
        calls.append({'order': list(range(e + w)), 'index': kind})
    if ep:
        for _ in range(2):
            order = list(range(e + w))
            while order[0] == 0:
                rng.shuffle(order)
            calls.append({'order': order, 'index': 'default'})
    return calls


def _frame_check(case, rng):
    """an estimator fitted on a DataFrame (string column names), later called with DataFrames holding the same named columns
    in another order and / or under other row labels: (status, why, failing call).
    Each call is either refused (ValueError, consistently for every input signal) or the columns are consumed BY NAME. The
    expected values never pass through the name handling: a twin estimator is fitted on the plain array and lifts the plain
    array whose column j holds the data NAMED as the j-th fit column. Then: lifted width = episode + n_states_out_ +
    n_inputs_out_; the lifted-state block is the twin's (the lift of the columns named as states); it is bit-identical when
    only the columns named as inputs are replaced; lift_input is the declared input block; for a pipeline with a regressor
    predict / score are the twin's."""
    import pykoop
    fr = case['frame']
    X = np.array(case['rows'], dtype=float)
    ep = 1 if case['ep'] else 0
    nx, nu = case['nx'], case['nu']
    names = fr['names']
    n_inputs, epf = pipes.arg_forms(case['spec'], nu, case['ep'])
    Xs = [X]
    for _ in range(2):
        Z = X.copy()
        Z[:, ep + nx:] = np.array([[rng.uniform(-3, 3) for _ in range(nu)] for _ in range(X.shape[0])])
        Xs.append(Z)
    fit_order = list(range(X.shape[1]))
    reg = bool(fr.get('regressor'))
    try:
        est, ref = pipes.build(case['spec']), pipes.build(case['spec'])
        dfit = _frame(X, names, fit_order, fr.get('fit_index', 'default'))
        if reg:
            est.set_params(regressor=pykoop.Edmd(alpha=1))
            ref.set_params(regressor=pykoop.Edmd(alpha=1))
            est.fit(dfit, n_inputs=n_inputs, episode_feature=epf)
            ref.fit(X, n_inputs=n_inputs, episode_feature=epf)
        elif case['spec']['k'] == 'pipe':
            est.fit_transformers(dfit, n_inputs=n_inputs, episode_feature=epf)
            ref.fit_transformers(X, n_inputs=n_inputs, episode_feature=epf)
        else:
            est.fit(dfit, n_inputs=n_inputs, episode_feature=epf)
            ref.fit(X, n_inputs=n_inputs, episode_feature=epf)
        want = [ref.transform(Z) for Z in Xs]
        ns, ni = int(ref.n_states_out_), int(ref.n_inputs_out_)
        got = np.asarray(est.transform(_frame(X, names, fit_order, 'default')))
        if [int(est.n_states_out_), int(est.n_inputs_out_)] != [ns, ni]:
            return 'rejected:fit-not-reproducible', None, None
        rtol = 1e-11
        if not same(got, want[0]):
            # (a lifting that amplifies rounding: compare at 100 x its measured rounding noise, as the value comparison does)
            noise = rounding_noise({**case, 'form': 'c'}, ref, want[0])
            rtol = max(1e-11, 100 * noise)
            if rtol > 1e-6 or not _close(got, want[0], rtol):
                return 'rejected:fit-not-reproducible', None, None
        pred = score = None
        if reg:
            pred = [np.asarray(ref.predict(Z)) for Z in Xs]
            try:
                score = [float(ref.score(Z)) for Z in Xs]
            except Exception:
                score = None
            if not _close(est.predict(_frame(X, names, fit_order, 'default')), pred[0], 1e-7):
                return 'rejected:fit-not-reproducible', None, None
    except Exception:
        return 'rejected:fit', None, None
    if list(getattr(est, 'feature_names_in_', None) if getattr(est, 'feature_names_in_', None) is not None else []) != list(names):
        return 'rejected:names-not-captured', None, None

    def attempt(f, frames):
        outs, refused = [], 0
        for F in frames:
            try:
                outs.append(f(F))
            except ValueError:
                refused += 1
        return outs, refused

    n_ref = 0
    for ci, call in enumerate(fr['calls']):
        order, kind = call['order'], call['index']
        as_fit = order == fit_order
        what = (f"fitted on a DataFrame with columns {names} (n_inputs={nu}, episode_feature={bool(ep)}), called with columns "
                f"{[names[j] for j in order]}" + ('' if kind == 'default' else f' and {kind} row labels'))
        frames = [_frame(Z, names, order, kind, salt=ci) for Z in Xs]
        try:
            outs, refused = attempt(lambda F: np.asarray(est.transform(F)), frames)
            if refused == len(frames):
                n_ref += 1
                if as_fit and kind == 'default':
                    return 'call', 'transform refuses the DataFrame it was fitted on', call
                continue
            if refused:
                return 'call', f'transform refuses the frame for one input signal but not for another ({what})', call
            T = outs[0]
            if T.ndim != 2 or T.shape[1] != ep + ns + ni:
                return 'call', f'lifted width {T.shape[1:]} is not episode + n_states_out_ ({ns}) + n_inputs_out_ ({ni}) ({what})', call
            for k in (1, 2):
                a, b = T[:, :ep + ns], outs[k][:, :ep + ns]
                if a.shape != b.shape or not np.array_equal(a, b, equal_nan=True):
                    bad = sorted({int(c) for c in np.argwhere(~((a == b) | (np.isnan(a) & np.isnan(b))))[:, 1]}) if a.shape == b.shape else '?'
                    return 'call', (f'lifted-state columns {bad} changed when only the columns named as inputs '
                                    f'({names[ep + nx:]}) were replaced ({what})'), call
            for k in range(3):
                if not _close(outs[k][:, :ep + ns], want[k][:, :ep + ns], rtol):
                    return 'call', f'the lifted-state block is not the lift of the columns named as states ({names[ep:ep + nx]}) ({what})', call
                if not _close(outs[k][:, ep + ns:], want[k][:, ep + ns:], rtol):
                    return 'call', f'the lifted-input block is not the lift of the columns under their fit names ({what})', call
            outs, refused = attempt(lambda F: np.asarray(est.lift_input(F)), frames[:2])
            if refused not in (0, 2):
                return 'call', f'lift_input refuses the frame for one input signal but not for another ({what})', call
            for k, li in enumerate(outs):
                if not _close(li, np.hstack((want[k][:, :ep], want[k][:, ep + ns:])), rtol):
                    return 'call', f'lift_input is not the declared lifted-input block of the columns under their fit names ({what})', call
            if reg:
                outs, refused = attempt(lambda F: np.asarray(est.predict(F)), frames)
                if refused not in (0, len(frames)):
                    return 'call', f'predict refuses the frame for one input signal but not for another ({what})', call
                for k, p in enumerate(outs):
                    if not _close(p, pred[k], 1e-7):
                        return 'call', f'predict does not use the columns under their fit names ({what})', call
                outs, refused = attempt(lambda F: float(est.score(F)), frames) if score is not None else ([], 0)
                if refused not in (0, len(frames)):
                    return 'call', f'score refuses the frame for one input signal but not for another ({what})', call
                for k, s in enumerate(outs):
                    if not (np.isclose(s, score[k], rtol=1e-6, atol=1e-6) or (np.isnan(s) and np.isnan(score[k]))):
                        return 'call', f'score does not use the columns under their fit names ({what})', call
        except _TimeUp:
            raise
        except Exception as ex:
            if as_fit:
                return 'call', f'{type(ex).__name__}: {ex} raised ({what})', call
            n_ref += 1          # (not a ValueError, but nothing was computed from wrongly matched columns)
    return ('ok:all reordered frames refused' if n_ref >= sum(1 for c in fr['calls'] if c['order'] != fit_order)
            else 'ok:some reordered frames consumed by name'), None, None


def _frame_case(rng, spec, nx, nu, thorough=False, regressor=False):
    epf = rng.random() < 0.5
    m = pipes.loss(spec) + 3
    eps, order = pipes.gen_layout(rng, m, extra=3, ep=epf)
    rows = [([l] if epf else []) + [round(rng.uniform(-2.0, 2.0), 3) for _ in range(nx + nu)] for (l, t) in order]
    names = rng.sample(_NAME_POOL, nx + nu)
    if rng.random() < 0.3:
        names = [f'x{j}' for j in range(nx)] + [f'u{j}' for j in range(nu)]
    names = ([rng.choice(['episode', 'ep', 'run'])] if epf else []) + names
    return {'spec': spec, 'nx': nx, 'nu': nu, 'ep': epf, 'rows': rows, 'min_len': m, 'form': 'c', 'degenerate': False,
            'frame': {'names': names, 'calls': gen_calls(rng, epf, nx + nu, thorough), 'regressor': regressor,
                      'fit_index': 'default' if rng.random() < 0.7 else rng.choice(_INDEX_KINDS)}}


def frame_sweep(rng):
    """every kind of stage alone, in a pipeline and in the state branch of a split pipeline, two states and one input (all
    six orders of the three data columns) and two states and two inputs; pipelines with a regressor (predict / score)"""
    for kind in KINDS:
        for wrap in ('alone', 'pipe', 'split', 'pipe+regressor'):
            nx, nu = (2, 1) if wrap != 'pipe' or rng.random() < 0.5 else (2, 2)
            w = (nx, 0) if wrap == 'split' else (nx, nu)
            if kind == 'bilinear' and w[1] == 0:
                continue
            s = None
            for _ in range(20):
                s = pipes.gen_row_stage(rng, [kind], *w)
                if kind != 'delay' or s['dx'] + s['du'] <= 3:
                    break
            spec = {'alone': s, 'pipe': {'k': 'pipe', 'ss': [s]}, 'pipe+regressor': {'k': 'pipe', 'ss': [s]},
                    'split': {'k': 'split', 'a': [s], 'b': []}}[wrap]
            yield _frame_case(rng, spec, nx, nu, thorough=(wrap == 'alone'), regressor=(wrap == 'pipe+regressor'))


def frame_random(rng, n):
    """random trees (all kinds) with at least one input and at least three data columns"""
    for _ in range(n):
        for _ in range(50):
            c = st.gen_case(rng, KINDS, max_depth=2, cap=30, opaque=True)
            if c['nu'] >= 1 and c['nx'] + c['nu'] >= 3:
                break
        else:
            continue
        yield _frame_case(rng, c['spec'], c['nx'], c['nu'])


def frame_checks(ctx, n):
    for gen, label in ((frame_sweep(ctx.rng), 'sweep'), (frame_random(ctx.rng, n), 'random')):
        for c in gen:
            try:
                with _time_limit(30):
                    status, why, call = _frame_check(c, ctx.rng)
            except _TimeUp:
                status, why, call = 'not evaluated (time limit)', None, None
            except Exception as ex:
                status, why, call = 'call', f'named-column check raised {type(ex).__name__}: {ex}', None
            ctx.count(f'named columns {label}: {status}')
            for cl in c['frame']['calls']:
                inv, longest = _cycle_type(cl['order'])
                if cl['order'] != sorted(cl['order']):
                    ctx.count('named columns: call order is ' + ('a swap-like permutation (its own inverse)' if inv else
                                                                  f'not its own inverse (cycle of length {min(longest, 4)}{"+" if longest > 4 else ""})'))
                if cl['index'] != 'default':
                    ctx.count('named columns: non-default row labels')
            if why:
                small = dict(c)
                if call is not None:
                    small['frame'] = {**c['frame'], 'calls': [call]}
                tags = st.case_tags(c)
                tags['named_columns'] = status
                ctx.fail(why, small, tags)


def oracle(case, rng, est=None):
    if case.get('frame') is not None:
        try:
            return _frame_check(case, rng)[1]
        except Exception as ex:
            return f'named-column check raised {type(ex).__name__}: {ex}'
    if case.get('edits') is not None:
        try:
            return _lifecycle(case, rng)[1]
        except Exception as ex:
            return f'lifecycle check raised {type(ex).__name__}: {ex}'
    try:
        return _oracle(case, rng, est)
    except Exception as ex:
        return f'transform raised {type(ex).__name__}: {ex}'


class _TimeUp(BaseException):
    pass


class _time_limit:
    """wall-clock bound for one case (main thread only; elsewhere no bound)"""

    def __init__(self, seconds):
        self.seconds = seconds
        self.armed = False

    def _ring(self, *a):
        raise _TimeUp()

    def __enter__(self):
        import signal
        import threading
        if threading.current_thread() is threading.main_thread() and hasattr(signal, 'setitimer'):
            self.prev = signal.signal(signal.SIGALRM, self._ring)
            signal.setitimer(signal.ITIMER_REAL, self.seconds)
            self.armed = True
        return self

    def __exit__(self, *a):
        if self.armed:
            import signal
            signal.setitimer(signal.ITIMER_REAL, 0)
            signal.signal(signal.SIGALRM, self.prev)
        return False


def lifecycle_checks(ctx, n):
    for gen, label in ((lifecycle_sweep(ctx.rng), 'sweep'), (lifecycle_random(ctx.rng, n), 'random')):
        for c in gen:
            if not c['edits']:
                ctx.count('lifecycle: nothing to edit')
                continue
            try:
                with _time_limit(30):
                    status, why = _lifecycle(c, ctx.rng)
            except _TimeUp:
                status, why = 'not evaluated (time limit)', None
            except Exception as ex:
                status, why = 'edited', f'lifecycle check raised {type(ex).__name__}: {ex}'
            ctx.count(f'lifecycle {label}: {status}')
            if why:
                tags = st.case_tags(c)
                tags['lifecycle'] = status
                ctx.fail(why, c, tags)


def population_search(ctx):
    """failing-input search over a fresh population (also used when an exception raised inside the implementation
    ended the correspondence run early)"""
    for i in range(400):
        c = st.gen_case(ctx.rng, KINDS, max_depth=3, cap=40, opaque=True)
        why = oracle(c, ctx.rng)
        if why:
            ctx.fail(why, c, {'kinds': sorted(pipes.kinds_in(c['spec']))})
            return


def run(ctx):
    ctx.rule = ('random lifting-function trees (all kinds, depth<=3) x dims x layouts; observation: the full '
                'transform (tagged integers exact / symbolic terms rel 1e-9), the declared partition, and the '
                'column dependency map (model: dependency-set instance; implementation: single-column '
                'perturbation); non-trivial = at least one stage, two rows; object lifecycle: fitted composites '
                '(every kind at every nesting position + random trees) whose nested stage parameters are edited through '
                'set_params / whose steps are replaced by name AFTER fit, then used without refit and after a refit; named '
                'columns: estimators (every kind alone / in a pipeline / in a split pipeline / in a pipeline with a regressor + '
                'random trees, n_inputs >= 1) fitted on a pandas DataFrame, then called with DataFrames holding the same named '
                'columns in another order (every permutation of up to three data columns, rotations and shuffles of more, the '
                'episode column moved) and / or under non-default row labels')
    ctx.explanation = ('theorems C02_* (state block locality by induction over the tree, every kind contributing '
                       'its row-level lemma rowFn_xloc); correspondence on values, partition and dependency map; '
                       'oracle: replace the input columns, state block must be bit-identical; lifecycle oracle: after '
                       'nested set_params on a fitted composite (no refit) transform is bit-identical to the output '
                       'recorded before the edit and equal to a never-edited twin, width = episode + n_states_out_ + '
                       'n_inputs_out_, state block input-independent, lift_state / lift_input = the declared blocks; a '
                       'refit lifts like a new estimator with the edited parameters; named-column oracle: a later call with '
                       'a reordered / relabelled DataFrame is refused (ValueError, for every input signal alike) or consumed BY '
                       'NAME - width = episode + n_states_out_ + n_inputs_out_, the lifted-state block equals the lift (by a '
                       'twin fitted and called on plain arrays) of the columns NAMED as states and is bit-identical when only '
                       'the columns named as inputs are replaced, lift_input / predict / score agree with the twin')
    ctx.proof_obligations('Properties.C02', THEOREMS)
    drv = ctx.get_driver()
    n = ctx.n(160, 2000)
    lines, meta = [], []
    for i in range(n):
        opaque = i % 3 == 0
        c = st.gen_case(ctx.rng, KINDS if opaque else ALG, max_depth=3 if ctx.tier == 'thorough' else 2,
                        cap=40 if ctx.tier == 'quick' else 80, opaque=opaque)
        try:
            est = st.fit_case(c)
        except Exception as e:
            ctx.count('rejected:' + st.err_enum(e))
            continue
        try:
            Xt = est.transform(st.X_of(c))
        except Exception as ex:
            ctx.mismatch(f'implementation raised {type(ex).__name__}: {ex} (model returns a matrix)', c, None, None)
            continue
        l1, cells, reg = st.value_line('tr', c, est)
        l2, _, _ = st.value_line('tr', c, est, mode='dep')
        toks, _ = pipes.tokens(c['spec'], est)
        lines += [l1, l2, f"fit {c['nx']} {c['nu']} {toks}"]
        meta.append((c, est, Xt, cells, reg))
    for c in unexcited_cases(ctx.rng):
        ctx.count('unexcited-input sweep')
        why = oracle(c, ctx.rng)
        if why:
            ctx.fail(why + ' (estimator fitted on data with identically zero input columns)', c, st.case_tags(c))
    for c in opaque_sweep(ctx.rng):
        ctx.count('opaque-stage sweep')
        why = oracle(c, ctx.rng)
        if why:
            ctx.fail(why, c, st.case_tags(c))
    replies = drv.ask(lines)
    bad = []
    for i, (c, est, Xt, cells, reg) in enumerate(meta):
        st.count_dist(ctx, c)
        ctx.record_case({k: c[k] for k in ('spec', 'nx', 'nu', 'ep', 'rows')}, st.nontrivial(c))
        why = st.compare_values(Xt, replies[3 * i], c, cells, reg)
        if why and cells is not None:
            # a lifting that amplifies rounding (e.g. a Nystroem map fitted on repeated samples: its normalisation has gain
            # 1e6, so batch and row-wise evaluation of the SAME fitted map differ by 1e-10 .. 1e-8): where the measured
            # rounding noise of the implementation's own output comes within two orders of the tolerance, the values are
            # compared at 100 x that noise instead (never below 1e-9)
            noise = rounding_noise(c, est, Xt)
            if noise > 1e-11:
                ctx.count('values compared at 100 x the measured rounding noise of the lifting')
                why = st.compare_values(Xt, replies[3 * i], c, cells, reg, rtol=max(1e-9, 100 * noise))
        if why:
            ctx.mismatch('transform(X): ' + why, c, None, None)
            bad.append(c)
        t = replies[3 * i + 2].split()
        decl = [int(est.n_states_out_), int(est.n_inputs_out_)]
        if t[0] != 'ok' or [int(t[1]), int(t[2])] != decl:
            ctx.mismatch('declared partition', c, decl, replies[3 * i + 2][:80])
            bad.append(c)
        dm = col_deps_model(replies[3 * i + 1], c)
        di = col_deps_impl(c, est, ctx.rng)
        algebraic = pipes.kinds_in(c['spec']) <= {'poly', 'bilinear', 'const', 'delay', 'split', 'pipe'}
        if dm is None or len(dm) != len(di):
            ctx.mismatch('dependency map shape', c, [sorted(d) for d in di], None if dm is None else [sorted(d) for d in dm])
            bad.append(c)
        else:
            for k, (a, b) in enumerate(zip(di, dm)):
                # (zero columns hide genuine dependencies from a perturbation experiment: only soundness is compared then)
                if not (a <= b) or (algebraic and a != b and not c.get('degenerate')):
                    ctx.mismatch(f'dependency of lifted column {k}', c, sorted(a), sorted(b))
                    bad.append(c)
                    break
        fc = st.float_case(ctx.rng, c)
        why = oracle(fc, ctx.rng)
        if why:
            small = st.shrink(fc, lambda x: oracle(x, ctx.rng))
            ctx.fail(oracle(small, ctx.rng) or why, small, {'kinds': sorted(pipes.kinds_in(c['spec']))})
    lifecycle_checks(ctx, ctx.n(60, 600))
    frame_checks(ctx, ctx.n(40, 400))

    def search(ctx):
        for c in bad[:40]:
            for _ in range(3):
                why = oracle(st.float_case(ctx.rng, c), ctx.rng)
                if why:
                    ctx.fail(why, c, {'kinds': sorted(pipes.kinds_in(c['spec']))})
                    return
        population_search(ctx)
    return ctx.finish('proof', search)


def replay(ctx, path):
    obj = json.load(open(path))
    case = obj.get('case') or (obj.get('first_disagreement') or {}).get('case')
    why = oracle(case, ctx.rng)
    print('oracle:', why)
    return 1 if why else 0
