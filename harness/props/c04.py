"""C04 - Declared dimensions and sample counts match the arrays produced."""
import itertools
import json

import numpy as np
import sklearn.base
import sklearn.utils.validation

import pykoop
from .. import core, pipes, structural as st

THEOREMS = ['Pk.C04.C04_width', 'Pk.C04.C04_rows', 'Pk.C04.C04_rows_short', 'Pk.C04.C04_min',
            'Pk.C04.C04_additive', 'Pk.C04.C04_additive_closed', 'Pk.C04.C04_split_min',
            'Pk.C04.C04_chain', 'Pk.C04.C04_attrs_head', 'Pk.C04.C04_matrix']
KINDS = ['poly', 'bilinear', 'const', 'delay', 'sk', 'angle', 'rbf', 'kernel']


def impl_obs(case):
    """Fit the real tree; report attributes of every estimator (pre-order), n_samples_in(1..4),
    output shape per episode, name counts."""
    try:
        est = st.fit_case(case)
    except Exception as e:      # noqa
        if 'binning' in json.dumps(case['spec']) or 'nystroem' in json.dumps(case['spec']):
            return {'skip': 'fit error after a data-dependent width (binning, Nystroem): widths unknown to the generator'}, None
        if 'Bounds are not consistent' in str(e):
            return {'skip': 'QmcCenters on a constant column (out of domain)'}, None
        return {'err': st.err_enum(e)}, None
    attrs = []
    for sp, e in pipes.walk(case['spec'], est):
        attrs.append([int(e.n_states_in_), int(e.n_inputs_in_), int(e.n_states_out_), int(e.n_inputs_out_),
                      int(e.min_samples_)])
    ns = [int(est.n_samples_in(k)) for k in (1, 2, 3, 4)]
    return {'attrs': attrs, 'ns': ns, 'out': [int(est.n_states_out_), int(est.n_inputs_out_)]}, est


def model_line(case, est):
    toks, _ = pipes.tokens(case['spec'], est)
    return f"fit {case['nx']} {case['nu']} {toks}"


def parse_model(reply):
    t = reply.split()
    if t[0] == 'err':
        return {'err': t[1]}
    assert t[0] == 'ok', reply
    out = [int(t[1]), int(t[2])]
    ns = [int(x) for x in t[5:9]]
    k = int(t[10])
    nums = [int(x) for x in t[11:11 + 5 * k]]
    attrs = [nums[5 * i:5 * i + 5] for i in range(k)]
    return {'attrs': attrs, 'ns': ns, 'out': out}


def oracle(case, est=None):
    """The property statement evaluated directly on the implementation. Returns None or a description."""
    try:
        if est is None:
            est = st.fit_case(case)
    except Exception:
        return None
    X = st.X_of(case)
    ep = 1 if case['ep'] else 0
    Xt = est.transform(X)
    if Xt.shape[1] != est.n_features_out_:
        return f'transform width {Xt.shape[1]} != n_features_out_ {est.n_features_out_}'
    if est.n_features_out_ != ep + est.n_states_out_ + est.n_inputs_out_:
        return 'n_features_out_ != episode column + n_states_out_ + n_inputs_out_'
    if est.n_features_in_ != ep + est.n_states_in_ + est.n_inputs_in_:
        return 'n_features_in_ != episode column + n_states_in_ + n_inputs_in_'
    if est.min_samples_ != est.n_samples_in(1):
        return f'min_samples_ {est.min_samples_} != n_samples_in(1) {est.n_samples_in(1)}'
    # every stage of every chain: in dims = previous out dims; chain reports its last stage's
    for sp, e in pipes.walk(case['spec'], est):
        if sp['k'] == 'pipe':
            prev = (e.n_states_in_, e.n_inputs_in_)
            total = 1
            for _, lf in e.lifting_functions_:
                if (lf.n_states_in_, lf.n_inputs_in_) != prev:
                    return f'stage {lf} input dims {(lf.n_states_in_, lf.n_inputs_in_)} != previous output {prev}'
                prev = (lf.n_states_out_, lf.n_inputs_out_)
            if (e.n_states_out_, e.n_inputs_out_) != prev:
                return 'pipeline does not report its last stage dims'
            for k in (1, 2, 5):
                n = k
                for _, lf in e.lifting_functions_[::-1]:
                    n = lf.n_samples_in(n)
                if e.n_samples_in(k) != n:
                    return f'n_samples_in({k}) not additive over stages'
        if e.min_samples_ != e.n_samples_in(1):
            return f'{type(e).__name__}.min_samples_ != n_samples_in(1)'
    # rows per episode
    for l, Xe in st.ref_split(X, case['ep']):
        got = [Xt_e for ll, Xt_e in st.ref_split(Xt, case['ep']) if ll == l]
        n_out = got[0].shape[0] if got else 0
        if Xe.shape[0] >= est.min_samples_ and n_out != Xe.shape[0] - est.min_samples_ + 1:
            return f'episode {l}: {Xe.shape[0]} samples -> {n_out} lifted, min_samples_={est.min_samples_}'
    for fmt in (None, 'latex'):
        if len(est.get_feature_names_out(format=fmt)) != est.n_features_out_:
            return 'len(get_feature_names_out) != n_features_out_'
        if len(est.get_feature_names_in(format=fmt)) != est.n_features_in_:
            return 'len(get_feature_names_in) != n_features_in_'
    return None


# ----------------------------------------------------------------------------- the single-call route fit_transform
# The declared dimensions and sample counts must describe the arrays of EVERY public route that fits and lifts, not only
# fit(X).transform(X): fit_transform(X, n_inputs=..., episode_feature=...) of every lifting function, SplitPipeline and
# KoopmanPipeline (with a regressor) must return exactly what fit(X).transform(X) returns.

ROUTE_KINDS = ['delay'] * 5 + ['poly', 'poly', 'sk', 'const', 'bilinear', 'angle', 'rbf', 'kernel']


def node_inputs(spec, est, X, nu, ep, out=None):
    """Pre-order list of (spec, the matrix this estimator is handed inside the tree, its n_inputs). The matrices are
    rebuilt here (columns of a SplitPipeline sliced by hand, stages of a chain applied one by one through transform of
    the estimator fitted on the fit route), so that every estimator of the tree can be exercised on its own."""
    out = [] if out is None else out
    out.append((spec, X, nu))
    e0 = 1 if ep else 0
    k = spec['k']
    if k == 'pipe':
        cur, cur_nu = X, nu
        for s, (_, e) in zip(spec['ss'], est.lifting_functions_):
            node_inputs(s, e, cur, cur_nu, ep, out)
            cur, cur_nu = np.array(e.transform(cur), dtype=float), int(e.n_inputs_out_)
    elif k == 'split':
        nx = X.shape[1] - e0 - nu
        cur = np.array(X[:, :e0 + nx], dtype=float)
        for s, (_, e) in zip(spec['a'], est.lifting_functions_state_):
            node_inputs(s, e, cur, 0, ep, out)
            cur = np.array(e.transform(cur), dtype=float)
        cur = np.hstack((np.array(X[:, :e0], dtype=float), np.array(X[:, e0 + nx:], dtype=float)))
        for s, (_, e) in zip(spec['b'], est.lifting_functions_input_):
            node_inputs(s, e, cur, cur.shape[1] - e0, ep, out)
            cur = np.array(e.transform(cur), dtype=float)
    return out


def _dims(e):
    return [int(e.n_features_in_), int(e.n_states_in_), int(e.n_inputs_in_), int(e.n_features_out_),
            int(e.n_states_out_), int(e.n_inputs_out_), int(e.min_samples_)]


def route_node(spec, X, nu, ep):
    """fit_transform of ONE estimator on the matrix X against the property and against fit(X).transform(X) of a second,
    separately built estimator. Returns (None | description, 'checked' | 'skipped')."""
    a_nu, a_ep = pipes.arg_forms(spec, nu, ep)
    try:
        ref = pipes.build(spec)
        ref.fit(X, n_inputs=a_nu, episode_feature=a_ep)
        Y_ref = np.asarray(ref.transform(X), dtype=float)
    except Exception:
        return None, 'skipped'          # the two-call route does not accept this input: nothing to compare with
    name = type(ref).__name__
    est = pipes.build(spec)
    try:
        Y = est.fit_transform(X, n_inputs=a_nu, episode_feature=a_ep)
    except Exception as e:      # noqa
        return f'{name}.fit_transform raised {type(e).__name__} where fit(X).transform(X) succeeds', 'checked'
    Y = np.asarray(Y, dtype=float)
    e0 = 1 if ep else 0
    if Y.ndim != 2:
        return f'{name}.fit_transform returned an array of {Y.ndim} dimensions', 'checked'
    # the property, stated on the array this route returns
    if Y.shape[1] != est.n_features_out_:
        return f'{name}.fit_transform width {Y.shape[1]} != n_features_out_ {est.n_features_out_}', 'checked'
    if est.n_features_out_ != e0 + est.n_states_out_ + est.n_inputs_out_:
        return f'{name} after fit_transform: n_features_out_ != episode column + n_states_out_ + n_inputs_out_', 'checked'
    if est.min_samples_ != est.n_samples_in(1):
        return f'{name} after fit_transform: min_samples_ != n_samples_in(1)', 'checked'
    ms = int(est.min_samples_)
    got = dict((l, B.shape[0]) for l, B in st.ref_split(Y, ep)) if Y.shape[0] else {}
    for l, Xe in st.ref_split(X, ep):
        n = Xe.shape[0]
        if n >= ms and got.get(l, 0) != n - ms + 1:
            return (f'{name}.fit_transform: episode {l} of {n} samples -> {got.get(l, 0)} lifted samples, '
                    f'n - min_samples_ + 1 = {n - ms + 1}'), 'checked'
    # the same estimator fitted through fit: same declared dimensions, same array
    if _dims(est) != _dims(ref):
        return f'{name}: declared dimensions after fit_transform {_dims(est)} != after fit {_dims(ref)}', 'checked'
    if Y.shape != Y_ref.shape:
        return f'{name}.fit_transform shape {Y.shape} != fit(X).transform(X) shape {Y_ref.shape}', 'checked'
    if ep and not np.array_equal(Y[:, 0], Y_ref[:, 0]):
        return f'{name}.fit_transform episode column differs from fit(X).transform(X)', 'checked'
    if not np.allclose(Y, Y_ref, rtol=1e-9, atol=1e-12, equal_nan=True):
        bad = ~np.isclose(Y, Y_ref, rtol=1e-9, atol=1e-12, equal_nan=True)
        i, j = [int(v[0]) for v in np.nonzero(bad)]
        return (f'{name}.fit_transform values differ from fit(X).transform(X): first at row {i} column {j}: '
                f'{Y[i, j]!r} vs {Y_ref[i, j]!r} ({int(bad.sum())} entries)'), 'checked'
    return None, 'checked'


def route_oracle(case, est=None, ctx=None):
    """fit_transform == fit().transform(), with the declared width / samples per episode, for EVERY estimator of the tree
    (each on the matrix it is handed inside the tree). Returns None or a description."""
    try:
        if est is None:
            est = st.fit_case(case)
        X = st.X_of(case)
        nodes = node_inputs(case['spec'], est, X, case['nu'], case['ep'])
    except Exception:
        return None
    for i, (sp, Xin, nu) in enumerate(nodes):
        why, status = route_node(sp, Xin, nu, case['ep'])
        if ctx is not None:
            ctx.count('route:fit_transform ' + status)
            if status == 'checked':
                ctx.count('route:fit_transform of ' + sp['k'])
        if why:
            return why + (f' [estimator {i} of the tree (pre-order): {json.dumps(sp, default=str)[:200]}, n_inputs={nu}]' if i else '')
    return None


def chain_losses_differ(spec):
    """some SplitPipeline of the tree whose two chains drop a different number of samples"""
    if spec['k'] == 'split' and sum(pipes.loss(s) for s in spec['a']) != sum(pipes.loss(s) for s in spec['b']):
        return True
    return any(chain_losses_differ(s) for key in ('a', 'b', 'ss') for s in spec.get(key, []))


def route_cases(rng, n):
    """Trees in which samples are dropped at many places (delays in chains, in both branches of splits, nested), on
    records with an episode feature and two to four episodes of unequal length: the inputs on which a per-episode
    sample count can go wrong. A third of them are SplitPipelines at top level with a delay in each branch."""
    out = []
    for i in range(n):
        c = st.gen_case(rng, ROUTE_KINDS, max_depth=2, cap=40, opaque=True, ep=True, n_eps=rng.randint(2, 4), extra=5)
        if i % 3 == 0 and c['nu'] > 0:
            def chain(branch):
                ss = [{'k': 'delay', 'dx': rng.randint(0, 3), 'du': 0} if branch == 'a'
                      else {'k': 'delay', 'dx': 0, 'du': rng.randint(0, 3)}]
                if rng.random() < 0.4:
                    extra = rng.choice([{'k': 'poly', 'order': 2, 'io': False}, {'k': 'sk', 'scaler': 'standard'},
                                        {'k': 'delay', 'dx': 1, 'du': 0} if branch == 'a' else {'k': 'delay', 'dx': 0, 'du': 1}])
                    ss.insert(rng.randint(0, 1), extra)
                return ss
            spec = {'k': 'split', 'a': chain('a'), 'b': chain('b')}
            if rng.random() < 0.3:
                wrapped = {'k': 'pipe', 'ss': [spec] + ([{'k': 'poly', 'order': 2, 'io': False}] if rng.random() < 0.5 else [])}
                if sum(pipes.widths(wrapped, c['nx'], c['nu'])) <= 60:      # lifted width stays bounded
                    spec = wrapped
            m = pipes.loss(spec) + 2
            eps, order = pipes.gen_layout(rng, m, n_eps=rng.randint(2, 4), extra=5, ep=True)
            rows = [[l] + [round(rng.uniform(-2.0, 2.0), 3) for _ in range(c['nx'] + c['nu'])] for (l, t) in order]
            c = {'spec': spec, 'nx': c['nx'], 'nu': c['nu'], 'ep': True, 'rows': rows, 'min_len': m, 'form': 'c',
                 'degenerate': False}
        out.append(c)
    return out


def error_cases(rng, n):
    """Malformed stream: fit must raise, and the model must name the same error."""
    out = []
    for _ in range(n):
        nx, nu = rng.randint(1, 3), rng.randint(0, 2)
        kind = rng.choice(['order0', 'const_in_input', 'zero_width_input', 'angle_oob'])
        if kind == 'order0':
            spec = {'k': 'pipe', 'ss': [{'k': 'poly', 'order': 0, 'io': False}]}
        elif kind == 'const_in_input':
            nu = max(nu, 1)
            spec = {'k': 'split', 'a': [{'k': 'poly', 'order': 2, 'io': False}], 'b': [{'k': 'const'}]}
        elif kind == 'zero_width_input':
            nu = 0
            spec = {'k': 'split', 'a': [], 'b': [{'k': 'delay', 'dx': 0, 'du': 1}]}
        else:
            spec = {'k': 'angle', 'feat': [nx + nu + rng.randint(0, 2)]}
        ep = rng.random() < 0.5
        rows = [([0] if ep else []) + [rng.randint(2, 9) for _ in range(nx + nu)] for _ in range(4)]
        out.append({'spec': spec, 'nx': nx, 'nu': nu, 'ep': ep, 'rows': rows, 'min_len': 1, 'malformed': kind})
    return out


def enumerate_structures(rng, limit):
    """Thorough tier: systematic enumeration of (nx, nu, ep) x kinds x hyper-parameters x chains of
    length <= 2 x splits with branches of length <= 1 (bounded), data values irrelevant."""
    singles = ([{'k': 'poly', 'order': o, 'io': io} for o in (1, 2, 3) for io in (False, True)]
               + [{'k': 'bilinear'}, {'k': 'const'}]
               + [{'k': 'delay', 'dx': dx, 'du': du} for dx in (0, 1, 2) for du in (0, 1, 2)]
               + [{'k': 'sk', 'scaler': 'standard'}])
    specs = list(singles)
    specs += [{'k': 'pipe', 'ss': [a, b]} for a in singles for b in singles]
    no_const = [s for s in singles if s['k'] != 'const']
    specs += [{'k': 'split', 'a': [a], 'b': [b]} for a in singles for b in no_const]
    specs += [{'k': 'split', 'a': [a], 'b': []} for a in singles]
    rng.shuffle(specs)
    out = []
    for spec in specs:
        for nx, nu, ep in itertools.product((1, 2), (0, 1, 2), (False, True)):
            if spec['k'] == 'split' and spec['b'] and nu == 0:
                continue
            try:
                if sum(pipes.widths(spec, nx, nu)) > 150:
                    continue
            except Exception:
                continue
            m = pipes.loss(spec) + 1
            n = m + 2
            rows = [([rng.choice([3, 5])] if ep else []) + [rng.randint(2, 5) for _ in range(nx + nu)]
                    for _ in range(2 * n)]
            if ep:
                rows.sort(key=lambda r: r[0])
                if len({r[0] for r in rows}) == 2:
                    c = sum(1 for r in rows if r[0] == 3)
                    if c < m or 2 * n - c < m:
                        rows = [[3] + r[1:] for r in rows]
            out.append({'spec': spec, 'nx': nx, 'nu': nu, 'ep': ep, 'rows': rows, 'min_len': m})
            if len(out) >= limit:
                return out
    return out


# ----------------------------------------------------------------------------- exception safety of fitted composites
# The declared dimensions must describe the arrays produced at EVERY moment of an object's life, in particular after a call
# that RAISED. Sequence: a composite (KoopmanPipeline / SplitPipeline) is fitted successfully; a second fit / fit_transformers
# / fit_transform on the SAME object, announced with another partition of the same columns (another n_inputs and / or
# episode_feature), raises part-way (the announced episode column does not hold episode labels, a stage whose parameter was
# made invalid, a stage that rejects the data, invalid stage names, a stage that no longer fits the new partition); then
# valid transform calls follow without another fit. Each of them must either refuse (raise) or return an array that the
# attributes the object declares AT THAT MOMENT describe: widths, the chain of stage dimensions and episode flags, the
# samples per episode (episodes cut by the harness according to the declared flag), min_samples_. A refit that does not
# raise is checked the same way (it is then simply a second fit).

class _Tripwire(sklearn.base.BaseEstimator, sklearn.base.TransformerMixin):
    """An identity transformer (wrapped in SkLearnLiftingFn it is a width-preserving stage) that rejects the data handed to
    fit while the class-wide switch is on: a stand-in for any stage whose fit stops with an exception."""
    armed = False

    def fit(self, X, y=None):
        if _Tripwire.armed:
            raise ValueError('this stage rejects the data')
        self.n_features_in_ = np.asarray(X).shape[1]
        return self

    def transform(self, X):
        sklearn.utils.validation.check_is_fitted(self, 'n_features_in_')    # like every scikit-learn transformer
        return np.array(X, dtype=float)

    def inverse_transform(self, X):
        sklearn.utils.validation.check_is_fitted(self, 'n_features_in_')
        return np.array(X, dtype=float)


CHAINS = {'pipe': ['lifting_functions'], 'split': ['lifting_functions_state', 'lifting_functions_input']}
SPEC_CHAINS = {'pipe': ['ss'], 'split': ['a', 'b']}
BAD_PARAM = {'poly': ('order', 0), 'delay': ('n_delays_state', -1), 'rbf': ('shape', -1.0)}


def _bounded(spec, nx, nu):
    """the lifted width stays small under this partition of the columns too (or the partition is rejected)"""
    try:
        return sum(pipes.widths(spec, nx, nu)) <= 120
    except Exception:
        return True


def safety_cases(rng, n):
    """Fitted composites x a disturbance that makes the next fit raise x another partition of the same columns."""
    out = []
    for i in range(n):
        c = st.gen_case(rng, KINDS, max_depth=2, cap=40, opaque=True, extra=5)
        if i % 4 == 0:
            # chains that keep going for a while before the stage that cuts episodes: the stage that notices a wrong
            # episode column is not the first one
            head = rng.choice([{'k': 'poly', 'order': 2, 'io': False}, {'k': 'sk', 'scaler': 'standard'}, {'k': 'bilinear'}])
            if head['k'] == 'bilinear' and c['nu'] == 0:
                head = {'k': 'poly', 'order': 2, 'io': False}
            spec = {'k': 'pipe', 'ss': [head, {'k': 'delay', 'dx': rng.randint(0, 2), 'du': rng.randint(0, 2)}]}
            m = pipes.loss(spec) + 2
            eps, order = pipes.gen_layout(rng, m, extra=5, ep=c['ep'])
            rows = [([l] if c['ep'] else []) + [round(rng.uniform(-2.0, 2.0), 3) for _ in range(c['nx'] + c['nu'])]
                    for (l, t) in order]
            c = {'spec': spec, 'nx': c['nx'], 'nu': c['nu'], 'ep': c['ep'], 'rows': rows, 'min_len': m, 'form': 'c',
                 'degenerate': False}
        if c['spec']['k'] not in CHAINS:
            c['spec'] = {'k': 'pipe', 'ss': [c['spec']]}
        spec = c['spec']
        total = (1 if c['ep'] else 0) + c['nx'] + c['nu']
        options = [(nu2, ep2) for ep2 in (False, True) for nu2 in range(0, total - (1 if ep2 else 0))
                   if (nu2, ep2) != (c['nu'], c['ep']) and _bounded(spec, total - (1 if ep2 else 0) - nu2, nu2)]
        if not options:
            continue
        nu2, ep2 = rng.choice(options)
        chains = [(ck, j) for ck in SPEC_CHAINS[spec['k']] for j in range(len(spec[ck]))]
        disturb = rng.choice(['flags', 'flags', 'param', 'trip', 'trip', 'names'])
        sf = {'nu2': nu2, 'ep2': ep2, 'call': rng.choice(['fit_transformers', 'fit'] if spec['k'] == 'pipe'
                                                         else ['fit', 'fit_transform'])}
        if disturb == 'param':
            cand = [(ck, j) for ck, j in chains if spec[ck][j]['k'] in BAD_PARAM]
            if cand:
                sf['at'] = list(rng.choice(cand))
            else:
                disturb = 'trip'
        if disturb == 'trip':
            ck = rng.choice(SPEC_CHAINS[spec['k']])
            if spec['k'] == 'split' and ck == 'b' and c['nu'] == 0:
                ck = 'a'
            sf['at'] = [ck, rng.randint(0, len(spec[ck]))]
        if disturb == 'names':
            if not chains:
                disturb = 'flags'
            else:
                sf['at'] = list(rng.choice(chains))
                sf['name'] = rng.choice(['dup', 'dunder', 'param'])
        sf['disturb'] = disturb
        # a matrix that is valid data for the NEW announcement: the same numbers, the first column holding episode labels
        # (two episodes, the second one possibly interleaved at the end) when an episode column is announced
        n_rows = len(c['rows'])
        half = max(n_rows // 2, min(n_rows, c['min_len']))
        l0, l1 = rng.sample(range(0, 9), 2)
        sf['labels'] = [l0 if t < half else l1 for t in range(n_rows)]
        c['safety'] = sf
        out.append(c)
    return out


def _chain_attr(spec, ck):
    return CHAINS[spec['k']][SPEC_CHAINS[spec['k']].index(ck)]


def _build_safety(case):
    spec, sf = case['spec'], case['safety']
    est = pipes.build(spec)
    if sf['disturb'] == 'trip':
        attr = _chain_attr(spec, sf['at'][0])
        chain = list(getattr(est, attr) or [])
        chain.insert(sf['at'][1], ('trip', pykoop.SkLearnLiftingFn(_Tripwire())))
        setattr(est, attr, chain)
    return est


def _disturb(case, est):
    spec, sf = case['spec'], case['safety']
    if sf['disturb'] == 'param':
        ck, j = sf['at']
        name, value = BAD_PARAM[spec[ck][j]['k']]
        getattr(est, _chain_attr(spec, ck))[j][1].set_params(**{name: value})
    elif sf['disturb'] == 'names':
        ck, j = sf['at']
        attr = _chain_attr(spec, ck)
        chain = list(getattr(est, attr))
        others = [nm for a in CHAINS[spec['k']] for nm, _ in (getattr(est, a) or [])]
        others.remove(chain[j][0])
        new = {'dup': others[0] if others else 'with__dunder', 'dunder': 'with__dunder',
               'param': CHAINS[spec['k']][0]}[sf['name']]
        chain[j] = (new, chain[j][1])
        setattr(est, attr, chain)


def _children(e):
    """the fitted chains of a composite, found on the object itself: [(first-stage header the chain must start from,
    chain, what the chain must end in)]"""
    e0 = 1 if e.episode_feature_ else 0
    if hasattr(e, 'lifting_functions_'):
        return [('stages', (bool(e.episode_feature_), int(e.n_features_in_), int(e.n_states_in_), int(e.n_inputs_in_)),
                 e.lifting_functions_,
                 (bool(e.episode_feature_), int(e.n_features_out_), int(e.n_states_out_), int(e.n_inputs_out_)))]
    if hasattr(e, 'lifting_functions_state_'):
        return [('state chain', (bool(e.episode_feature_), e0 + int(e.n_states_in_), int(e.n_states_in_), 0),
                 e.lifting_functions_state_,
                 (bool(e.episode_feature_), e0 + int(e.n_states_out_), int(e.n_states_out_), 0)),
                ('input chain', (bool(e.episode_feature_), e0 + int(e.n_inputs_in_), 0, int(e.n_inputs_in_)),
                 e.lifting_functions_input_,
                 (bool(e.episode_feature_), e0 + int(e.n_inputs_out_), 0, int(e.n_inputs_out_)))]
    return []


def _chain_problem(e, part, path='the object'):
    """declared dimensions / episode flags of a (possibly nested) fitted object against those of its own stages.
    part 'in': what the object says it takes in against what its stages were fit with (start of every chain, every stage
    against the previous one); part 'out': what it says it gives out against its last stages, the width sums, min_samples_,
    n_samples_in."""
    name = type(e).__name__
    e0 = 1 if e.episode_feature_ else 0
    if part == 'in' and e.n_features_in_ != e0 + e.n_states_in_ + e.n_inputs_in_:
        return f'{path} ({name}): n_features_in_ {e.n_features_in_} != episode column {e0} + n_states_in_ {e.n_states_in_} + n_inputs_in_ {e.n_inputs_in_}'
    if part == 'out' and e.n_features_out_ != e0 + e.n_states_out_ + e.n_inputs_out_:
        return f'{path} ({name}): n_features_out_ {e.n_features_out_} != episode column {e0} + n_states_out_ {e.n_states_out_} + n_inputs_out_ {e.n_inputs_out_}'
    if part == 'out' and e.min_samples_ != e.n_samples_in(1):
        return f'{path} ({name}): min_samples_ {e.min_samples_} != n_samples_in(1) {e.n_samples_in(1)}'
    for label, start, chain, end in _children(e):
        prev, who = start, f'{path} ({name}) hands its {label}'
        for j, (_, lf) in enumerate(chain):
            here = (bool(lf.episode_feature_), int(lf.n_features_in_), int(lf.n_states_in_), int(lf.n_inputs_in_))
            if part == 'in' and here != prev:
                return (f'{who} (episode_feature, features, states, inputs) = {prev} but stage {j} of the {label} '
                        f'({type(lf).__name__}) was fit with {here}')
            why = _chain_problem(lf, part, f'{path} / {label}[{j}]')
            if why:
                return why
            prev = (bool(lf.episode_feature_), int(lf.n_features_out_), int(lf.n_states_out_), int(lf.n_inputs_out_))
            who = f'stage {j} of the {label} of {path} produces'
        if part == 'out' and prev != end:      # (an empty chain passes its columns on)
            return (f'{who} (episode_feature, features, states, inputs) = {prev} but {path} ({name}) declares {end} '
                    f'for the end of its {label}')
    if part == 'out' and hasattr(e, 'lifting_functions_'):
        for k in (1, 2, 5):
            n = k
            for _, lf in e.lifting_functions_[::-1]:
                n = lf.n_samples_in(n)
            if e.n_samples_in(k) != n:
                return f'{path} ({name}): n_samples_in({k}) = {e.n_samples_in(k)} is not the sum over its stages ({n})'
    return None


def described(est, P, Y):
    """Do the attributes `est` declares NOW describe the array Y = est.transform(P)? None or a description. Episodes are cut
    here, by the flag the object declares."""
    name = type(est).__name__
    Y = np.asarray(Y)
    if Y.ndim != 2:
        return f'{name}.transform returned an array of {Y.ndim} dimensions'
    try:
        ep = bool(est.episode_feature_)
        if P.shape[1] != est.n_features_in_:
            return f'{name}.transform accepted {P.shape[1]} columns while it declares n_features_in_ = {est.n_features_in_}'
        why = _chain_problem(est, 'in')
        if why:
            return why
        if Y.shape[1] != est.n_features_out_:
            return f'{name}.transform width {Y.shape[1]} != n_features_out_ {est.n_features_out_}'
        why = _chain_problem(est, 'out')
        if why:
            return why
        ms = int(est.min_samples_)
    except AttributeError as e:
        return f'{name}.transform returned an array of shape {Y.shape} but a declared attribute is missing: {e}'
    labels = np.asarray(P, dtype=float)[:, 0] if ep else None
    if ep and not (np.all(labels >= 0) and np.all(labels == np.round(labels))):
        return None     # stages that do not cut episodes never look at the first column: no episodes to count
    got = dict((l, B.shape[0]) for l, B in st.ref_split(Y, ep)) if Y.shape[0] else {}
    total = 0
    for l, Pe in st.ref_split(P, ep):
        n = Pe.shape[0]
        if n >= ms:
            total += n - ms + 1
            if got.get(l, 0) != n - ms + 1:
                return (f'{name}.transform: episode {l} of {n} samples (episodes as the object declares them: '
                        f'episode_feature_={ep}) -> {got.get(l, 0)} lifted samples, n - min_samples_ + 1 = {n - ms + 1}')
    if not ep and P.shape[0] >= ms and Y.shape[0] != total:
        return f'{name}.transform: {Y.shape[0]} lifted samples for {P.shape[0]} samples, min_samples_ = {ms}'
    return None


def safety_oracle(case, ctx=None):
    """fit; a second fit that (usually) raises part-way, announced with another partition of the columns; then valid
    transform calls: refused, or described by what the object declares. Returns (None | description, family). family
    'stale output side': the second fit raised, everything the object says about what it TAKES IN agrees with how its
    stages were fit (so the array is produced by stages fitted for the declared partition) and only the output-side
    attributes (n_*_out_, min_samples_) were left behind; 'half-updated' otherwise."""
    sf = case['safety']
    X = st.X_of(case)
    spec = case['spec']
    count = (lambda k: ctx.count('exception safety: ' + k)) if ctx is not None else (lambda k: None)
    _Tripwire.armed = False
    try:
        est = _build_safety(case)
        a_nu, a_ep = pipes.arg_forms(spec, case['nu'], case['ep'])
        if spec['k'] == 'pipe':
            est.fit_transformers(X, n_inputs=a_nu, episode_feature=a_ep)
        else:
            est.fit(X, n_inputs=a_nu, episode_feature=a_ep)
        Y = est.transform(X)
    except Exception:
        count('first fit not accepted (skipped)')
        return None, None
    why = described(est, X, Y)
    if why:
        return 'after the first fit: ' + why, 'half-updated'
    # the second fit
    try:
        _disturb(case, est)
    except Exception:
        count('disturbance not applicable (skipped)')
        return None, None
    _Tripwire.armed = sf['disturb'] == 'trip'
    raised = None
    try:
        getattr(est, sf['call'])(X, n_inputs=sf['nu2'], episode_feature=sf['ep2'])
    except Exception as e:      # noqa
        raised = e
    finally:
        _Tripwire.armed = False
    count(f"second {sf['call']} raised" if raised is not None else f"second {sf['call']} succeeded")
    if raised is not None:
        count('raised, disturbance ' + sf['disturb'] + ', ' + spec['k'])
    # matrices for the later calls: the one of the first fit, and one that is valid for the second announcement
    P2 = np.array(X, dtype=float)
    if sf['ep2']:
        P2[:, 0] = sf['labels']
    probes = [('the matrix of the first fit', X), ('a matrix valid for the second announcement', P2)]
    told = (f"{type(est).__name__}: fit(n_inputs={case['nu']}, episode_feature={case['ep']}) succeeded, then "
            f"{sf['call']}(n_inputs={sf['nu2']}, episode_feature={sf['ep2']}) "
            + (f'raised {type(raised).__name__} ({str(raised)[:80]})' if raised is not None else 'succeeded')
            + f" [disturbance: {sf['disturb']}]")
    for label, P in probes:
        try:
            Y = est.transform(P)
        except Exception:
            count('later transform refused')
            continue
        count('later transform returned an array')
        why = described(est, np.asarray(P, dtype=float), Y)
        if why:
            family = 'half-updated'
            try:
                if raised is not None and P.shape[1] == est.n_features_in_ and _chain_problem(est, 'in') is None:
                    family = 'stale output side'
            except Exception:
                pass
            return f'{told}; then transform of {label} returned an array of shape {np.asarray(Y).shape}: {why}', family
    return None, None


def population_search(ctx):
    """failing-input search over a fresh population (also used when an exception raised inside the implementation
    ended the correspondence run early)"""
    for _ in range(300):
        c = st.gen_case(ctx.rng, KINDS, max_depth=3, cap=60, opaque=True)
        why = oracle(c) or route_oracle(c)
        if why:
            ctx.fail(why, c, {'kinds': sorted(pipes.kinds_in(c['spec']))})
            return


def run(ctx):
    ctx.rule = ('random lifting-function trees (all kinds, depth<=3, chains<=3, unequal delays, splits) x '
                '(n_states 1..3, n_inputs 0..2, episode feature on/off) fitted on real pykoop and on the Lean '
                'model; thorough adds a systematic enumeration of singles / 2-chains / splits; a case is '
                'non-trivial when it has at least one stage and >= 2 rows; distinct by hash of the case; plus '
                'delay-heavy trees (delays in chains and in both branches of splits, chains of a split dropping '
                'different sample counts) on records with 2..4 episodes of unequal length, contiguous or interleaved; '
                'on every fitted case the single-call route fit_transform is exercised for EVERY estimator of the tree '
                '(each lifting function, SplitPipeline, KoopmanPipeline with a regressor) on the matrix it is handed '
                'inside the tree; plus exception safety of fitted composites: random KoopmanPipeline / SplitPipeline trees fitted '
                'once, then a second fit / fit_transformers / fit_transform on the same object announced with another '
                '(n_inputs, episode_feature) partition of the same columns that raises part-way (announced episode column '
                'without labels, a stage parameter made invalid, a stage that rejects the data at any position of any '
                'chain, duplicate / reserved stage names, a stage that does not fit the new partition) or succeeds, then '
                'transform of the first matrix and of a matrix valid for the second announcement without another fit')
    ctx.explanation = ('theorems C04_* about the executable Lean model (fit / tr / nSamplesIn / attrs); '
                       'correspondence: fitted attributes of EVERY estimator in the tree, n_samples_in(1..4) '
                       'and error enum compared exactly with the model; oracle: declared-vs-produced on the '
                       'implementation, for the route fit(X).transform(X) and for the route fit_transform(X): the array '
                       'returned by fit_transform has width n_features_out_, n - min_samples_ + 1 samples for every '
                       'episode (episodes separated by the harness, not by pykoop), and the same declared dimensions, '
                       'shape, episode column and values (rtol 1e-9) as fit(X).transform(X) of a separately built '
                       'estimator; exception safety: after a fit call that raised, every later transform either raises or '
                       'returns an array described by what the object declares at that moment - columns accepted = '
                       'n_features_in_, width = n_features_out_ = episode column + states + inputs, the declared input '
                       'partition and episode flag of every composite equal those its first stages were fit with and every '
                       'stage starts where the previous one stopped (recursively), the declared output equals the last '
                       'stage, min_samples_ = n_samples_in(1) additive over stages, n - min_samples_ + 1 samples per '
                       'episode with the episodes cut by the harness according to the DECLARED flag')
    ctx.proof_obligations('Properties.C04', THEOREMS)
    drv = ctx.get_driver()
    cases = []
    for _ in range(ctx.n(250, 2500)):
        cases.append(st.gen_case(ctx.rng, KINDS, max_depth=3 if ctx.tier == 'thorough' else 2,
                                 cap=60 if ctx.tier == 'quick' else 150, opaque=True))
    cases += error_cases(ctx.rng, ctx.n(20, 100))
    if ctx.tier == 'thorough':
        cases += enumerate_structures(ctx.rng, 12000)
    cases += route_cases(ctx.rng, ctx.n(90, 900))
    obs, lines, ests = [], [], []
    for c in cases:
        o, est = impl_obs(c)
        obs.append(o)
        ests.append(est)
        lines.append(model_line(c, est))
    replies = drv.ask(lines)
    bad_cases = []
    for c, o, est, rep in zip(cases, obs, ests, replies):
        st.count_dist(ctx, c)
        ctx.record_case({k: c[k] for k in ('spec', 'nx', 'nu', 'ep')}, st.nontrivial(c))
        m = parse_model(rep) if not rep.startswith('bad') else {'bad': rep}
        if 'skip' in o:
            ctx.count('rejected:' + o['skip'])
            continue
        if 'err' in o:
            ctx.count('error_path:' + o['err'])
        if o != m:
            ctx.mismatch('fit attributes', c, o, m)
            bad_cases.append(c)
        if est is not None:
            why = oracle(c, est)
            if why:
                small = st.shrink(c, lambda x: oracle(x))
                ctx.fail(oracle(small) or why, small, {'kinds': sorted(pipes.kinds_in(c['spec']))})
            if c['ep'] and len({r[0] for r in c['rows']}) > 1 and chain_losses_differ(c['spec']):
                ctx.count('route:multi-episode, split chains drop different sample counts')
            why = route_oracle(c, est, ctx)
            if why:
                small = st.shrink(c, lambda x: route_oracle(x))
                ctx.fail(route_oracle(small) or why, small, {'kinds': sorted(pipes.kinds_in(c['spec'])),
                                                             'route': 'fit_transform'})
    # exception safety: fit, a second fit that raises part-way under another partition of the columns, later valid calls
    for c in safety_cases(ctx.rng, ctx.n(70, 700)):
        ctx.record_case({k: c[k] for k in ('spec', 'nx', 'nu', 'ep', 'safety')}, True)
        res = ctx.attempt('exception safety', lambda: safety_oracle(c, ctx))
        why, family = res if res is not None else (None, None)
        if not why:
            continue
        if family == 'stale output side':
            # every stage was re-fitted for the declared partition and the object is consistent on its input side; the
            # output-side attributes are those of the fit before: a genuine defect of the unchanged tree, recorded as known
            # finding F-halffit (matched by route + family), kept apart from the half-updated objects (stages of one fit
            # under the header of another), which remain violations.
            ctx.count('exception safety: stale output-side attributes after a raising refit (known finding F-halffit)')
            ctx.fail(why, c, {'route': 'exception-safety', 'family': 'stale output side'})
            continue
        ctx.fail(why, c, {'kinds': sorted(pipes.kinds_in(c['spec'])), 'route': 'exception-safety', 'family': family})

    def search(ctx):
        for c in bad_cases[:50]:
            why = oracle(c) or route_oracle(c)
            if why:
                ctx.fail(why, c, {'kinds': sorted(pipes.kinds_in(c['spec']))})
                return
        population_search(ctx)
    return ctx.finish('proof', search)


def replay(ctx, path):
    obj = json.load(open(path))
    case = obj.get('case') or (obj.get('first_disagreement') or {}).get('case')
    if case.get('safety'):
        why, family = safety_oracle(case)
        print('oracle (exception safety):', why, '|', family)
        return 1 if why else 0
    why = oracle(case) or route_oracle(case)
    o, est = impl_obs(case)
    m = parse_model(ctx.get_driver().ask([model_line(case, est)])[0])
    print('oracle:', why)
    print('impl :', o)
    print('model:', m)
    return 1 if (why or o != m) else 0
