"""C04 - Declared dimensions and sample counts match the arrays produced."""
import itertools
import json

import numpy as np

import pykoop
from .. import core, pipes, structural as st

THEOREMS = ['Pk.C04.C04_width', 'Pk.C04.C04_rows', 'Pk.C04.C04_rows_short', 'Pk.C04.C04_min',
            'Pk.C04.C04_additive', 'Pk.C04.C04_additive_closed', 'Pk.C04.C04_split_min',
            'Pk.C04.C04_chain', 'Pk.C04.C04_attrs_head', 'Pk.C04.C04_matrix']
KINDS = ['poly', 'bilinear', 'const', 'delay', 'sk', 'angle', 'rbf', 'kernel']


def impl_obs(case):
    """Fit the real tree; report attributes of every estimator (pre-order), n_samples_in(1..4),
    output shape per episode, name counts."""
    try:
        est = st.fit_case(case)
    except Exception as e:      # noqa
        if 'binning' in json.dumps(case['spec']) or 'nystroem' in json.dumps(case['spec']):
            return {'skip': 'fit error after a data-dependent width (binning, Nystroem): widths unknown to the generator'}, None
        if 'Bounds are not consistent' in str(e):
            return {'skip': 'QmcCenters on a constant column (out of domain)'}, None
        return {'err': st.err_enum(e)}, None
    attrs = []
    for sp, e in pipes.walk(case['spec'], est):
        attrs.append([int(e.n_states_in_), int(e.n_inputs_in_), int(e.n_states_out_), int(e.n_inputs_out_),
                      int(e.min_samples_)])
    ns = [int(est.n_samples_in(k)) for k in (1, 2, 3, 4)]
    return {'attrs': attrs, 'ns': ns, 'out': [int(est.n_states_out_), int(est.n_inputs_out_)]}, est


def model_line(case, est):
    toks, _ = pipes.tokens(case['spec'], est)
    return f"fit {case['nx']} {case['nu']} {toks}"


def parse_model(reply):
    t = reply.split()
    if t[0] == 'err':
        return {'err': t[1]}
    assert t[0] == 'ok', reply
    out = [int(t[1]), int(t[2])]
    ns = [int(x) for x in t[5:9]]
    k = int(t[10])
    nums = [int(x) for x in t[11:11 + 5 * k]]
    attrs = [nums[5 * i:5 * i + 5] for i in range(k)]
    return {'attrs': attrs, 'ns': ns, 'out': out}


def oracle(case, est=None):
    """The property statement evaluated directly on the implementation. Returns None or a description."""
    try:
        if est is None:
            est = st.fit_case(case)
    except Exception:
        return None
    X = st.X_of(case)
    ep = 1 if case['ep'] else 0
    Xt = est.transform(X)
    if Xt.shape[1] != est.n_features_out_:
        return f'transform width {Xt.shape[1]} != n_features_out_ {est.n_features_out_}'
    if est.n_features_out_ != ep + est.n_states_out_ + est.n_inputs_out_:
        return 'n_features_out_ != episode column + n_states_out_ + n_inputs_out_'
    if est.n_features_in_ != ep + est.n_states_in_ + est.n_inputs_in_:
        return 'n_features_in_ != episode column + n_states_in_ + n_inputs_in_'
    if est.min_samples_ != est.n_samples_in(1):
        return f'min_samples_ {est.min_samples_} != n_samples_in(1) {est.n_samples_in(1)}'
    # every stage of every chain: in dims = previous out dims; chain reports its last stage's
    for sp, e in pipes.walk(case['spec'], est):
        if sp['k'] == 'pipe':
            prev = (e.n_states_in_, e.n_inputs_in_)
            total = 1
            for _, lf in e.lifting_functions_:
                if (lf.n_states_in_, lf.n_inputs_in_) != prev:
                    return f'stage {lf} input dims {(lf.n_states_in_, lf.n_inputs_in_)} != previous output {prev}'
                prev = (lf.n_states_out_, lf.n_inputs_out_)
            if (e.n_states_out_, e.n_inputs_out_) != prev:
                return 'pipeline does not report its last stage dims'
            for k in (1, 2, 5):
                n = k
                for _, lf in e.lifting_functions_[::-1]:
                    n = lf.n_samples_in(n)
                if e.n_samples_in(k) != n:
                    return f'n_samples_in({k}) not additive over stages'
        if e.min_samples_ != e.n_samples_in(1):
            return f'{type(e).__name__}.min_samples_ != n_samples_in(1)'
    # rows per episode
    for l, Xe in st.ref_split(X, case['ep']):
        got = [Xt_e for ll, Xt_e in st.ref_split(Xt, case['ep']) if ll == l]
        n_out = got[0].shape[0] if got else 0
        if Xe.shape[0] >= est.min_samples_ and n_out != Xe.shape[0] - est.min_samples_ + 1:
            return f'episode {l}: {Xe.shape[0]} samples -> {n_out} lifted, min_samples_={est.min_samples_}'
    for fmt in (None, 'latex'):
        if len(est.get_feature_names_out(format=fmt)) != est.n_features_out_:
            return 'len(get_feature_names_out) != n_features_out_'
        if len(est.get_feature_names_in(format=fmt)) != est.n_features_in_:
            return 'len(get_feature_names_in) != n_features_in_'
    return None


def error_cases(rng, n):
    """Malformed stream: fit must raise, and the model must name the same error."""
    out = []
    for _ in range(n):
        nx, nu = rng.randint(1, 3), rng.randint(0, 2)
        kind = rng.choice(['order0', 'const_in_input', 'zero_width_input', 'angle_oob'])
        if kind == 'order0':
            spec = {'k': 'pipe', 'ss': [{'k': 'poly', 'order': 0, 'io': False}]}
        elif kind == 'const_in_input':
            nu = max(nu, 1)
            spec = {'k': 'split', 'a': [{'k': 'poly', 'order': 2, 'io': False}], 'b': [{'k': 'const'}]}
        elif kind == 'zero_width_input':
            nu = 0
            spec = {'k': 'split', 'a': [], 'b': [{'k': 'delay', 'dx': 0, 'du': 1}]}
        else:
            spec = {'k': 'angle', 'feat': [nx + nu + rng.randint(0, 2)]}
        ep = rng.random() < 0.5
        rows = [([0] if ep else []) + [rng.randint(2, 9) for _ in range(nx + nu)] for _ in range(4)]
        out.append({'spec': spec, 'nx': nx, 'nu': nu, 'ep': ep, 'rows': rows, 'min_len': 1, 'malformed': kind})
    return out


def enumerate_structures(rng, limit):
    """Thorough tier: systematic enumeration of (nx, nu, ep) x kinds x hyper-parameters x chains of
    length <= 2 x splits with branches of length <= 1 (bounded), data values irrelevant."""
    singles = ([{'k': 'poly', 'order': o, 'io': io} for o in (1, 2, 3) for io in (False, True)]
               + [{'k': 'bilinear'}, {'k': 'const'}]
               + [{'k': 'delay', 'dx': dx, 'du': du} for dx in (0, 1, 2) for du in (0, 1, 2)]
               + [{'k': 'sk', 'scaler': 'standard'}])
    specs = list(singles)
    specs += [{'k': 'pipe', 'ss': [a, b]} for a in singles for b in singles]
    no_const = [s for s in singles if s['k'] != 'const']
    specs += [{'k': 'split', 'a': [a], 'b': [b]} for a in singles for b in no_const]
    specs += [{'k': 'split', 'a': [a], 'b': []} for a in singles]
    rng.shuffle(specs)
    out = []
    for spec in specs:
        for nx, nu, ep in itertools.product((1, 2), (0, 1, 2), (False, True)):
            if spec['k'] == 'split' and spec['b'] and nu == 0:
                continue
            try:
                if sum(pipes.widths(spec, nx, nu)) > 150:
                    continue
            except Exception:
                continue
            m = pipes.loss(spec) + 1
            n = m + 2
            rows = [([rng.choice([3, 5])] if ep else []) + [rng.randint(2, 5) for _ in range(nx + nu)]
                    for _ in range(2 * n)]
            if ep:
                rows.sort(key=lambda r: r[0])
                if len({r[0] for r in rows}) == 2:
                    c = sum(1 for r in rows if r[0] == 3)
                    if c < m or 2 * n - c < m:
                        rows = [[3] + r[1:] for r in rows]
            out.append({'spec': spec, 'nx': nx, 'nu': nu, 'ep': ep, 'rows': rows, 'min_len': m})
            if len(out) >= limit:
                return out
    return out


def population_search(ctx):
    """failing-input search over a fresh population (also used when an exception raised inside the implementation
    ended the correspondence run early)"""
    for _ in range(300):
        c = st.gen_case(ctx.rng, KINDS, max_depth=3, cap=60, opaque=True)
        why = oracle(c)
        if why:
            ctx.fail(why, c, {'kinds': sorted(pipes.kinds_in(c['spec']))})
            return


def run(ctx):
    ctx.rule = ('random lifting-function trees (all kinds, depth<=3, chains<=3, unequal delays, splits) x '
                '(n_states 1..3, n_inputs 0..2, episode feature on/off) fitted on real pykoop and on the Lean '
                'model; thorough adds a systematic enumeration of singles / 2-chains / splits; a case is '
                'non-trivial when it has at least one stage and >= 2 rows; distinct by hash of the case')
    ctx.explanation = ('theorems C04_* about the executable Lean model (fit / tr / nSamplesIn / attrs); '
                       'correspondence: fitted attributes of EVERY estimator in the tree, n_samples_in(1..4) '
                       'and error enum compared exactly with the model; oracle: declared-vs-produced on the '
                       'implementation')
    ctx.proof_obligations('Properties.C04', THEOREMS)
    drv = ctx.get_driver()
    cases = []
    for _ in range(ctx.n(250, 2500)):
        cases.append(st.gen_case(ctx.rng, KINDS, max_depth=3 if ctx.tier == 'thorough' else 2,
                                 cap=60 if ctx.tier == 'quick' else 150, opaque=True))
    cases += error_cases(ctx.rng, ctx.n(20, 100))
    if ctx.tier == 'thorough':
        cases += enumerate_structures(ctx.rng, 12000)
    obs, lines, ests = [], [], []
    for c in cases:
        o, est = impl_obs(c)
        obs.append(o)
        ests.append(est)
        lines.append(model_line(c, est))
    replies = drv.ask(lines)
    bad_cases = []
    for c, o, est, rep in zip(cases, obs, ests, replies):
        st.count_dist(ctx, c)
        ctx.record_case({k: c[k] for k in ('spec', 'nx', 'nu', 'ep')}, st.nontrivial(c))
        m = parse_model(rep) if not rep.startswith('bad') else {'bad': rep}
        if 'skip' in o:
            ctx.count('rejected:' + o['skip'])
            continue
        if 'err' in o:
            ctx.count('error_path:' + o['err'])
        if o != m:
            ctx.mismatch('fit attributes', c, o, m)
            bad_cases.append(c)
        if est is not None:
            why = oracle(c, est)
            if why:
                small = st.shrink(c, lambda x: oracle(x))
                ctx.fail(oracle(small) or why, small, {'kinds': sorted(pipes.kinds_in(c['spec']))})
    def search(ctx):
        for c in bad_cases[:50]:
            why = oracle(c)
            if why:
                ctx.fail(why, c, {'kinds': sorted(pipes.kinds_in(c['spec']))})
                return
        population_search(ctx)
    return ctx.finish('proof', search)


def replay(ctx, path):
    obj = json.load(open(path))
    case = obj.get('case') or (obj.get('first_disagreement') or {}).get('case')
    why = oracle(case)
    o, est = impl_obs(case)
    m = parse_model(ctx.get_driver().ask([model_line(case, est)])[0])
    print('oracle:', why)
    print('impl :', o)
    print('model:', m)
    return 1 if (why or o != m) else 0
