"""C01 - Lift then retract returns the original data for every pipeline."""
import json

import numpy as np

import pykoop
from .. import core, pipes, structural as st

THEOREMS = ['Pk.C01.C01_roundtrip_suffix', 'Pk.C01.C01_roundtrip_ep', 'Pk.C01.C01_roundtrip_full', 'Pk.C01.C01_roundtrip_mat', 'Pk.C01.C01_leading_state', 'Pk.C01.intOps_lawful',
            'Pk.C01.C01_retract_len', 'Pk.C01.gain_eq_loss']
KINDS = ['poly', 'bilinear', 'const', 'delay', 'delay', 'sk', 'angle', 'rbf', 'kernel']
ALG = ['poly', 'bilinear', 'const', 'delay', 'delay']


def angle_ok(spec, top=True):
    """angle stages only as the leading stage of the top-level chain (pre-processor use) - elsewhere the
    angles leave (-pi, pi] and the property's own domain excludes them"""
    k = spec['k']
    if k == 'angle':
        return top
    if k == 'pipe':
        return all(angle_ok(s, top and i == 0) for i, s in enumerate(spec['ss']))
    if k == 'split':
        return all(angle_ok(s, False) for s in spec['a'] + spec['b'])
    return True


def _oracle(case, est=None):
    """inverse_transform(transform(X)) returns each episode's trailing samples (all of them when delays
    agree); leading lifted-state columns are the original state for non-pre-processor pipelines."""
    ks = pipes.kinds_in(case['spec'])
    if not angle_ok(case['spec']):
        return None
    try:
        if est is None:
            est = st.fit_case(case)
    except Exception:
        return None
    X = st.X_of(case)
    Xt = est.transform(X)
    Xr = est.inverse_transform(Xt)
    exact = not (ks & {'sk', 'angle'})
    eps, eps_t, eps_r = st.episodes(X, case['ep']), st.episodes(Xt, case['ep']), st.episodes(Xr, case['ep'])
    full = st.eq_delays(case['spec'])
    for l, Xe in eps.items():
        if l not in eps_r:
            return f'episode {l} missing from the round trip'
        R = eps_r[l]
        n, r = Xe.shape[0], R.shape[0]
        n_lift = eps_t[l].shape[0]
        if r > n or r < n_lift:
            return f'episode {l}: {n} samples, {n_lift} lifted, {r} retracted'
        if full and r != n:
            return f'episode {l}: equal delays but only {r} of {n} samples come back'
        tail = Xe[n - r:, :]
        ok = np.array_equal(R, tail) if exact else np.allclose(R, tail, rtol=1e-9, atol=1e-9)
        if not ok:
            return f'episode {l}: round trip differs from the trailing {r} samples (max err {np.max(np.abs(R - tail)):.3g})'
        if not (ks & {'sk', 'angle'}):
            lead = eps_t[l][:, :case['nx']]
            want = Xe[n - n_lift:, :case['nx']]
            if not np.array_equal(lead, want):
                return f'episode {l}: leading lifted-state columns are not the original state'
    # the same data handed over as a pandas DataFrame (named columns) lifts and retracts to the same numbers
    import pandas
    Xf = np.asarray(X, dtype=float)
    df = pandas.DataFrame(Xf, columns=[f'c{j}' for j in range(Xf.shape[1])])
    est2 = pipes.fit(case['spec'], df, case['nu'], case['ep'])
    Xt2 = np.asarray(est2.transform(df), dtype=float)
    if Xt2.shape != np.asarray(Xt).shape or not np.allclose(Xt2, np.asarray(Xt, dtype=float), rtol=1e-9, atol=1e-9):
        return 'transform of a DataFrame differs from transform of the same data as an array'
    Xr2 = np.asarray(est2.inverse_transform(Xt2), dtype=float)
    if Xr2.shape != np.asarray(Xr).shape or not np.allclose(Xr2, np.asarray(Xr, dtype=float), rtol=1e-9, atol=1e-9):
        return 'round trip of a DataFrame differs from the round trip of the same data as an array'
    return None


def probe_unwrap(rng):
    """AnglePreprocessor(unwrap_inverse=True) on several episodes: every episode must still come back
    (angles inside (-pi, pi], any episode count)"""
    rs = np.random.RandomState(rng.randint(0, 2 ** 31 - 1))
    n_eps = rng.randint(2, 3)
    blocks = []
    for l in range(n_eps):
        n = rng.randint(4, 7)
        # smooth angle trajectories inside (-pi, pi]; consecutive episodes start far apart
        start = 2.8 if l % 2 == 0 else -2.8
        ang = start + np.cumsum(rs.uniform(-0.05, 0.05, n))
        ang = np.clip(ang, -3.1, 3.1)
        blocks.append((l, np.column_stack((ang, rs.uniform(-1, 1, n)))))
    X = st.ref_combine(blocks, True)
    lf = pykoop.AnglePreprocessor(angle_features=np.array([0]), unwrap_inverse=True)
    lf.fit(X, n_inputs=0, episode_feature=True)
    Xr = lf.inverse_transform(lf.transform(X))
    if not np.allclose(Xr, X, rtol=1e-9, atol=1e-9):
        bad = sorted({int(X[i, 0]) for i in range(X.shape[0]) if not np.allclose(Xr[i], X[i], atol=1e-9)})
        return (f'AnglePreprocessor(unwrap_inverse=True): episodes {bad} do not come back from the round trip (np.unwrap runs '
                f'across episode boundaries; max error {np.max(np.abs(Xr - X)):.4f} ~ 2*pi)',
                {'X': X.tolist()}, {'estimator': 'AnglePreprocessor', 'unwrap_inverse': True, 'episodes': n_eps})
    return None


def oracle(case, est=None):
    try:
        return _oracle(case, est)
    except Exception as ex:      # the round trip must not raise on valid data
        return f'transform / inverse_transform raised {type(ex).__name__}: {ex}'


def population_search(ctx):
    """failing-input search over a fresh population (also used when an exception raised inside the implementation
    ended the correspondence run early)"""
    for i in range(400):
        fc = st.gen_case(ctx.rng, KINDS, max_depth=3, cap=40, opaque=True)
        why = oracle(fc)
        if why:
            ctx.fail(why, fc, {'kinds': sorted(pipes.kinds_in(fc['spec']))})
            return


def run(ctx):
    ctx.rule = ('random lifting-function trees (all ten kinds, depth<=3, chains<=3, forced share of unequal '
                'delays) x (n_states 1..3, n_inputs 0..2, episode feature on/off, 1..4 episodes of unequal '
                'length, arbitrary labels, blocks or interleaved rows); algebraic trees on tagged integers '
                '(exact), trees with opaque stages as symbolic terms evaluated with the fitted parameters '
                '(rel 1e-9); non-trivial = at least one stage and two rows; distinct by case hash')
    ctx.explanation = ('theorems C01_* (suffix-stable round trip through the whole tree); correspondence on '
                       'inverse_transform(transform(X)) and on the leading state columns of transform(X); '
                       'oracle: the round trip evaluated directly on real estimators with float data')
    ctx.proof_obligations('Properties.C01', THEOREMS)
    drv = ctx.get_driver()
    cases = []
    n = ctx.n(220, 3000)
    for i in range(n):
        opaque = i % 3 == 0
        cases.append(st.gen_case(ctx.rng, KINDS if opaque else ALG, max_depth=3 if ctx.tier == 'thorough' else 2,
                                 cap=40 if ctx.tier == 'quick' else 80, opaque=opaque))
    lines, meta = [], []
    for c in cases:
        try:
            est = st.fit_case(c)
        except Exception as e:
            ctx.count('rejected:' + st.err_enum(e))
            continue
        X = st.X_of(c)
        try:
            Xt = est.transform(X)
            Xr = est.inverse_transform(Xt)
        except Exception as ex:
            ctx.mismatch(f'implementation raised {type(ex).__name__}: {ex} (model returns a matrix)', c, None, None)
            why = oracle(st.float_case(ctx.rng, c))
            if why:
                ctx.fail(why, c, {'kinds': sorted(pipes.kinds_in(c['spec']))})
            continue
        l1, cells, reg = st.value_line('rt', c, est)
        l2, _, _ = st.value_line('tr', c, est)
        lines += [l1, l2]
        meta.append((c, est, Xt, Xr, cells, reg))
    replies = drv.ask(lines)
    bad = []
    for i, (c, est, Xt, Xr, cells, reg) in enumerate(meta):
        st.count_dist(ctx, c)
        ctx.count('mode:' + st.mode_of(c))
        ctx.record_case({k: c[k] for k in ('spec', 'nx', 'nu', 'ep', 'rows')}, st.nontrivial(c))
        why = st.compare_values(Xr, replies[2 * i], c, cells, reg)
        if why:
            ctx.mismatch('inverse_transform(transform(X)): ' + why, c, None, None)
            bad.append(c)
        why = st.compare_values(Xt, replies[2 * i + 1], c, cells, reg, cols=slice(0, c['nx']))
        if why:
            ctx.mismatch('leading state columns of transform(X): ' + why, c, None, None)
            bad.append(c)
        fc = st.float_case(ctx.rng, c)
        why = oracle(fc)
        if why:
            small = st.shrink(fc, lambda x: oracle(x))
            ctx.fail(oracle(small) or why, small, {'kinds': sorted(pipes.kinds_in(c['spec']))})

    for _ in range(ctx.n(2, 10)):
        res = probe_unwrap(ctx.rng)
        ctx.count('probe:unwrap_inverse')
        if res:
            ctx.fail(*res)

    def search(ctx):
        for c in bad[:40]:
            for _ in range(3):
                fc = st.float_case(ctx.rng, c)
                why = oracle(fc)
                if why:
                    ctx.fail(why, fc, {'kinds': sorted(pipes.kinds_in(c['spec']))})
                    return
        population_search(ctx)
    return ctx.finish('proof', search)


def replay(ctx, path):
    obj = json.load(open(path))
    case = obj.get('case') or (obj.get('first_disagreement') or {}).get('case')
    why = oracle(case)
    print('oracle:', why)
    return 1 if why else 0
