"""C01 - Lift then retract returns the original data for every pipeline."""
import json

import numpy as np

import pykoop
from .. import core, pipes, structural as st

THEOREMS = ['Pk.C01.C01_roundtrip_suffix', 'Pk.C01.C01_roundtrip_ep', 'Pk.C01.C01_roundtrip_full', 'Pk.C01.C01_roundtrip_mat', 'Pk.C01.C01_leading_state', 'Pk.C01.intOps_lawful',
            'Pk.C01.C01_retract_len', 'Pk.C01.gain_eq_loss']
KINDS = ['poly', 'bilinear', 'const', 'delay', 'delay', 'sk', 'angle', 'rbf', 'kernel']
ALG = ['poly', 'bilinear', 'const', 'delay', 'delay']


def angle_ok(spec, top=True):
    """angle stages only as the leading stage of the top-level chain (pre-processor use) - elsewhere the
    angles leave (-pi, pi] and the property's own domain excludes them"""
    k = spec['k']
    if k == 'angle':
        return top
    if k == 'pipe':
        return all(angle_ok(s, top and i == 0) for i, s in enumerate(spec['ss']))
    if k == 'split':
        return all(angle_ok(s, False) for s in spec['a'] + spec['b'])
    return True


def _oracle(case, est=None):
    """inverse_transform(transform(X)) returns each episode's trailing samples (all of them when delays
    agree); leading lifted-state columns are the original state for non-pre-processor pipelines."""
    ks = pipes.kinds_in(case['spec'])
    if not angle_ok(case['spec']):
        return None
    try:
        if est is None:
            est = st.fit_case(case)
    except Exception:
        return None
    X = st.X_of(case)
    Xt = est.transform(X)
    Xr = est.inverse_transform(Xt)
    exact = not (ks & {'sk', 'angle'})
    eps, eps_t, eps_r = st.episodes(X, case['ep']), st.episodes(Xt, case['ep']), st.episodes(Xr, case['ep'])
    full = st.eq_delays(case['spec'])
    for l, Xe in eps.items():
        if l not in eps_r:
            return f'episode {l} missing from the round trip'
        R = eps_r[l]
        n, r = Xe.shape[0], R.shape[0]
        n_lift = eps_t[l].shape[0]
        if r > n or r < n_lift:
            return f'episode {l}: {n} samples, {n_lift} lifted, {r} retracted'
        if full and r != n:
            return f'episode {l}: equal delays but only {r} of {n} samples come back'
        tail = Xe[n - r:, :]
        ok = np.array_equal(R, tail) if exact else np.allclose(R, tail, rtol=1e-9, atol=1e-9)
        if not ok:
            return f'episode {l}: round trip differs from the trailing {r} samples (max err {np.max(np.abs(R - tail)):.3g})'
        if not (ks & {'sk', 'angle'}):
            lead = eps_t[l][:, :case['nx']]
            want = Xe[n - n_lift:, :case['nx']]
            if not np.array_equal(lead, want):
                return f'episode {l}: leading lifted-state columns are not the original state'
    # the same data handed over as a pandas DataFrame (named columns) lifts and retracts to the same numbers
    import pandas
    Xf = np.asarray(X, dtype=float)
    df = pandas.DataFrame(Xf, columns=[f'c{j}' for j in range(Xf.shape[1])])
    est2 = pipes.fit(case['spec'], df, case['nu'], case['ep'])
    Xt2 = np.asarray(est2.transform(df), dtype=float)
    if Xt2.shape != np.asarray(Xt).shape or not np.allclose(Xt2, np.asarray(Xt, dtype=float), rtol=1e-9, atol=1e-9):
        return 'transform of a DataFrame differs from transform of the same data as an array'
    Xr2 = np.asarray(est2.inverse_transform(Xt2), dtype=float)
    if Xr2.shape != np.asarray(Xr).shape or not np.allclose(Xr2, np.asarray(Xr, dtype=float), rtol=1e-9, atol=1e-9):
        return 'round trip of a DataFrame differs from the round trip of the same data as an array'
    try:
        return _routes(case, est, X, Xt, Xr)
    except Exception as ex:      # the state-only / input-only / episode-flag routes must not raise on valid data either
        return f'lift / retract route raised {type(ex).__name__}: {ex}'


def gain(spec):
    """samples per episode that the inverse rebuilds from the delay coordinates (own arithmetic: a delay stage folds
    max(dx, du) samples away and its inverse recovers min(dx, du) of them; chains add; a split re-joins its branches
    on the trailing samples, i.e. on the smaller branch)"""
    k = spec['k']
    if k == 'delay':
        return min(spec['dx'], spec['du'])
    if k == 'split':
        return min(sum(gain(s) for s in spec['a']), sum(gain(s) for s in spec['b']))
    if k == 'pipe':
        return sum(gain(s) for s in spec['ss'])
    return 0


def both_delays(spec):
    """some delay stage with state AND input delays >= 1 (the inverse then rebuilds earlier samples)"""
    if spec['k'] == 'delay' and spec['dx'] >= 1 and spec['du'] >= 1:
        return True
    return any(both_delays(s) for key in ('a', 'b', 'ss') for s in spec.get(key, []))


def route_tags(case):
    """coverage categories of the state-only / input-only / episode-flag routes"""
    t = ['routes:all']
    if gain(case['spec']) >= 1:
        t.append('routes:inverse-rebuilds-samples')
    if both_delays(case['spec']):
        t.append('routes:delay-state-and-input>=1')
    if st.eq_delays(case['spec']) and pipes.loss(case['spec']) >= 1:
        t.append('routes:equal-nonzero-delays')
    t.append('routes:flag-differs-fitted-' + ('with' if case['ep'] else 'without') + '-episode-feature')
    return t


def _same(A, B, exact):
    A, B = np.asarray(A, dtype=float), np.asarray(B, dtype=float)
    if A.shape != B.shape:
        return False
    return np.array_equal(A, B) if exact else np.allclose(A, B, rtol=1e-9, atol=1e-9)


def _tails(name, R, want, ep, r_of, exact):
    """R (returned by a retract route) holds, per episode of `want` (the original columns), exactly r_of[label] trailing
    samples of that episode"""
    R = np.asarray(R, dtype=float)
    if R.ndim != 2 or R.shape[1] != np.asarray(want).shape[1]:
        return f'{name}: returned shape {R.shape}, original columns have shape {np.asarray(want).shape}'
    eps_w, eps_r = st.episodes(want, ep), st.episodes(R, ep)
    if sorted(eps_w) != sorted(eps_r):
        return f'{name}: episodes {sorted(eps_r)} returned, episodes {sorted(eps_w)} given'
    for l, W in eps_w.items():
        n, r, got = W.shape[0], r_of[l], eps_r[l].shape[0]
        if got != r:
            return (f'{name}: episode {l} has {n} samples, inverse_transform(transform(X)) returns its trailing {r}, '
                    f'this route returns {got}')
        if not _same(eps_r[l], W[n - r:, :], exact):
            return (f'{name}: episode {l} differs from its trailing {r} original samples '
                    f'(max err {np.max(np.abs(eps_r[l] - W[n - r:, :])) if r else 0:.3g})')
    return None


def _routes_on(name, est, X, ep, nx, spec, exact, exact_lift):
    """lift / retract / lift_state / retract_state / lift_input / retract_input, called with episode flag `ep` on data X
    (ep is passed explicitly; it may differ from the flag the estimator was fitted with). Expected values are the
    original columns themselves; expected sample counts come from own delay arithmetic."""
    X = np.asarray(X, dtype=float)
    e = 1 if ep else 0
    eps = st.episodes(X, ep)
    r_of = {l: Xe.shape[0] - pipes.loss(spec) + gain(spec) for l, Xe in eps.items()}
    Xs = X[:, :e + nx]
    Xu = np.hstack((X[:, :e], X[:, e + nx:]))
    L = est.lift(X, episode_feature=ep)
    R = est.retract(L, episode_feature=ep)
    why = _tails(f'{name}retract(lift(X))', R, X, ep, r_of, exact)
    if why:
        return why
    Ls = np.asarray(est.lift_state(Xs, episode_feature=ep), dtype=float)
    Lu = np.asarray(est.lift_input(X, episode_feature=ep), dtype=float)
    ns = Ls.shape[1] - e
    L = np.asarray(L, dtype=float)
    if Ls.shape[0] != L.shape[0] or ns < 0 or not _same(Ls, L[:, :e + ns], exact_lift):
        return f'{name}lift_state(state) is not the leading lifted-state block of lift(X)'
    if not _same(Lu, np.hstack((L[:, :e], L[:, e + ns:])), exact_lift):
        return f'{name}lift_input(X) is not the trailing lifted-input block of lift(X)'
    why = _tails(f'{name}retract_state(lift_state(state))', est.retract_state(Ls, episode_feature=ep), Xs, ep, r_of, exact)
    if why:
        return why
    return _tails(f'{name}retract_input(lift_input(X))', est.retract_input(Lu, episode_feature=ep), Xu, ep, r_of, exact)


def _routes(case, est, X, Xt, Xr):
    """the public routes other than transform / inverse_transform state the same round trip: lift / retract,
    lift_state / retract_state, lift_input / retract_input, each with the fitted episode flag, with the flag left to
    default, and with the other flag (one episode without labels on an estimator fitted with labels; labelled episodes
    on an estimator fitted without)."""
    spec, ep, nx = case['spec'], bool(case['ep']), case['nx']
    exact = not (pipes.kinds_in(spec) & {'sk', 'angle'})
    exact_lift = pipes.kinds_in(spec) <= {'poly', 'bilinear', 'const', 'delay', 'split', 'pipe'}
    X = np.asarray(X, dtype=float)
    # own count against what inverse_transform(transform(X)) returned
    eps, eps_r = st.episodes(X, ep), st.episodes(Xr, ep)
    for l, Xe in eps.items():
        want = Xe.shape[0] - pipes.loss(spec) + gain(spec)
        if l in eps_r and eps_r[l].shape[0] != want:
            return (f'episode {l}: {Xe.shape[0]} samples, inverse_transform(transform(X)) returns {eps_r[l].shape[0]}, '
                    f'the delays of the pipeline give {want}')
    # default flag (None): the routes are transform / inverse_transform themselves
    if not _same(est.lift(X), Xt, exact) or not _same(est.retract(Xt), Xr, exact):
        return 'lift(X) / retract(Xt) with the default episode flag differ from transform(X) / inverse_transform(Xt)'
    e = 1 if ep else 0
    Ls0 = est.lift_state(X[:, :e + nx])
    Rs0 = est.retract_state(Ls0)
    why = _tails('retract_state(lift_state(state)) with the default episode flag', Rs0, X[:, :e + nx], ep,
                 {l: eps_r[l].shape[0] for l in eps if l in eps_r}, exact)
    if why:
        return why
    why = _routes_on('', est, X, ep, nx, spec, exact, exact_lift)
    if why:
        return why
    if ep:
        # one episode handed over without its label column
        l = sorted(eps)[len(eps) // 2]
        return _routes_on(f'[episode {l} alone, episode_feature=False] ', est, eps[l], False, nx, spec, exact, exact_lift)
    # the record and its time reversal as two labelled episodes
    X2 = st.ref_combine([(3, X), (5, X[::-1, :])], True)
    return _routes_on('[two labelled episodes, episode_feature=True] ', est, X2, True, nx, spec, exact, exact_lift)


def probe_unwrap(rng):
    """AnglePreprocessor(unwrap_inverse=True) on several episodes: every episode must still come back
    (angles inside (-pi, pi], any episode count)"""
    rs = np.random.RandomState(rng.randint(0, 2 ** 31 - 1))
    n_eps = rng.randint(2, 3)
    blocks = []
    for l in range(n_eps):
        n = rng.randint(4, 7)
        # smooth angle trajectories inside (-pi, pi]; consecutive episodes start far apart
        start = 2.8 if l % 2 == 0 else -2.8
        ang = start + np.cumsum(rs.uniform(-0.05, 0.05, n))
        ang = np.clip(ang, -3.1, 3.1)
        blocks.append((l, np.column_stack((ang, rs.uniform(-1, 1, n)))))
    X = st.ref_combine(blocks, True)
    lf = pykoop.AnglePreprocessor(angle_features=np.array([0]), unwrap_inverse=True)
    lf.fit(X, n_inputs=0, episode_feature=True)
    Xr = lf.inverse_transform(lf.transform(X))
    if not np.allclose(Xr, X, rtol=1e-9, atol=1e-9):
        bad = sorted({int(X[i, 0]) for i in range(X.shape[0]) if not np.allclose(Xr[i], X[i], atol=1e-9)})
        return (f'AnglePreprocessor(unwrap_inverse=True): episodes {bad} do not come back from the round trip (np.unwrap runs '
                f'across episode boundaries; max error {np.max(np.abs(Xr - X)):.4f} ~ 2*pi)',
                {'X': X.tolist()}, {'estimator': 'AnglePreprocessor', 'unwrap_inverse': True, 'episodes': n_eps})
    return None


def oracle(case, est=None):
    try:
        return _oracle(case, est)
    except Exception as ex:      # the round trip must not raise on valid data
        return f'transform / inverse_transform raised {type(ex).__name__}: {ex}'


def _valid(case):
    """every episode is long enough for the pipeline (shrinking must stay inside the property's domain: a too short
    episode makes transform raise on any version of the code)"""
    need = pipes.loss(case['spec']) + 1
    if not case['rows']:
        return False
    if not case['ep']:
        return len(case['rows']) >= need
    n = {}
    for r in case['rows']:
        n[r[0]] = n.get(r[0], 0) + 1
    return min(n.values()) >= need


def population_search(ctx):
    """failing-input search over a fresh population (also used when an exception raised inside the implementation
    ended the correspondence run early)"""
    for i in range(400):
        fc = st.gen_case(ctx.rng, KINDS, max_depth=3, cap=40, opaque=True)
        why = oracle(fc)
        if why:
            ctx.fail(why, fc, {'kinds': sorted(pipes.kinds_in(fc['spec']))})
            return


def run(ctx):
    ctx.rule = ('random lifting-function trees (all ten kinds, depth<=3, chains<=3, forced share of unequal '
                'delays) x (n_states 1..3, n_inputs 0..2, episode feature on/off, 1..4 episodes of unequal '
                'length, arbitrary labels, blocks or interleaved rows); algebraic trees on tagged integers '
                '(exact), trees with opaque stages as symbolic terms evaluated with the fitted parameters '
                '(rel 1e-9); non-trivial = at least one stage and two rows; distinct by case hash; on every case the '
                'other public routes as well: lift / retract, lift_state / retract_state, lift_input / retract_input '
                'with the fitted episode flag, the default flag and the opposite flag (one unlabelled episode on an '
                'estimator fitted with labels; the record and its time reversal as two labelled episodes on one '
                'fitted without)')
    ctx.explanation = ('theorems C01_* (suffix-stable round trip through the whole tree); correspondence on '
                       'inverse_transform(transform(X)) and on the leading state columns of transform(X); '
                       'oracle: the round trip evaluated directly on real estimators with float data; '
                       'the state-only, input-only and episode-flag routes must return, per episode, the trailing '
                       'samples of the original state / input columns themselves, as many as the delay arithmetic '
                       'of the pipeline (loss max(dx,du), rebuilt min(dx,du), split = smaller branch) gives and as '
                       'inverse_transform(transform(X)) returns; lift_state / lift_input must be the leading / '
                       'trailing blocks of lift(X)')
    ctx.proof_obligations('Properties.C01', THEOREMS)
    drv = ctx.get_driver()
    cases = []
    n = ctx.n(220, 3000)
    for i in range(n):
        opaque = i % 3 == 0
        cases.append(st.gen_case(ctx.rng, KINDS if opaque else ALG, max_depth=3 if ctx.tier == 'thorough' else 2,
                                 cap=40 if ctx.tier == 'quick' else 80, opaque=opaque))
    lines, meta = [], []
    for c in cases:
        try:
            est = st.fit_case(c)
        except Exception as e:
            ctx.count('rejected:' + st.err_enum(e))
            continue
        X = st.X_of(c)
        try:
            Xt = est.transform(X)
            Xr = est.inverse_transform(Xt)
        except Exception as ex:
            ctx.mismatch(f'implementation raised {type(ex).__name__}: {ex} (model returns a matrix)', c, None, None)
            why = oracle(st.float_case(ctx.rng, c))
            if why:
                ctx.fail(why, c, {'kinds': sorted(pipes.kinds_in(c['spec']))})
            continue
        l1, cells, reg = st.value_line('rt', c, est)
        l2, _, _ = st.value_line('tr', c, est)
        lines += [l1, l2]
        meta.append((c, est, Xt, Xr, cells, reg))
    replies = drv.ask(lines)
    bad = []
    for i, (c, est, Xt, Xr, cells, reg) in enumerate(meta):
        st.count_dist(ctx, c)
        ctx.count('mode:' + st.mode_of(c))
        ctx.record_case({k: c[k] for k in ('spec', 'nx', 'nu', 'ep', 'rows')}, st.nontrivial(c))
        why = st.compare_values(Xr, replies[2 * i], c, cells, reg)
        if why:
            ctx.mismatch('inverse_transform(transform(X)): ' + why, c, None, None)
            bad.append(c)
        why = st.compare_values(Xt, replies[2 * i + 1], c, cells, reg, cols=slice(0, c['nx']))
        if why:
            ctx.mismatch('leading state columns of transform(X): ' + why, c, None, None)
            bad.append(c)
        fc = st.float_case(ctx.rng, c)
        why = oracle(fc)
        if angle_ok(fc['spec']):
            for t in route_tags(fc):
                ctx.count(t)
        if why:
            small = st.shrink(fc, lambda x: _valid(x) and oracle(x))
            ctx.fail(oracle(small) or why, small, {'kinds': sorted(pipes.kinds_in(c['spec']))})

    for _ in range(ctx.n(2, 10)):
        res = probe_unwrap(ctx.rng)
        ctx.count('probe:unwrap_inverse')
        if res:
            ctx.fail(*res)

    def search(ctx):
        for c in bad[:40]:
            for _ in range(3):
                fc = st.float_case(ctx.rng, c)
                why = oracle(fc)
                if why:
                    ctx.fail(why, fc, {'kinds': sorted(pipes.kinds_in(c['spec']))})
                    return
        population_search(ctx)
    return ctx.finish('proof', search)


def replay(ctx, path):
    obj = json.load(open(path))
    case = obj.get('case') or (obj.get('first_disagreement') or {}).get('case')
    why = oracle(case)
    print('oracle:', why)
    return 1 if why else 0
