"""C01 - Lift then retract returns the original data for every pipeline."""
import json

import numpy as np

import pykoop
from .. import core, pipes, structural as st

THEOREMS = ['Pk.C01.C01_roundtrip_suffix', 'Pk.C01.C01_roundtrip_ep', 'Pk.C01.C01_roundtrip_full', 'Pk.C01.C01_roundtrip_mat', 'Pk.C01.C01_leading_state', 'Pk.C01.intOps_lawful',
            'Pk.C01.C01_retract_len', 'Pk.C01.gain_eq_loss']
KINDS = ['poly', 'bilinear', 'const', 'delay', 'delay', 'sk', 'angle', 'rbf', 'kernel']
ALG = ['poly', 'bilinear', 'const', 'delay', 'delay']


def angle_ok(spec, top=True):
    """angle stages only as the leading stage of the top-level chain (pre-processor use) - elsewhere the
    angles leave (-pi, pi] and the property's own domain excludes them"""
    k = spec['k']
    if k == 'angle':
        return top
    if k == 'pipe':
        return all(angle_ok(s, top and i == 0) for i, s in enumerate(spec['ss']))
    if k == 'split':
        return all(angle_ok(s, False) for s in spec['a'] + spec['b'])
    return True


def _oracle(case, est=None):
    """inverse_transform(transform(X)) returns each episode's trailing samples (all of them when delays
    agree); leading lifted-state columns are the original state for non-pre-processor pipelines."""
    ks = pipes.kinds_in(case['spec'])
    if not angle_ok(case['spec']):
        return None
    try:
        if est is None:
            est = st.fit_case(case)
    except Exception:
        return None
    X = st.X_of(case)
    Xt = est.transform(X)
    Xr = est.inverse_transform(Xt)
    exact = not (ks & {'sk', 'angle'})
    eps, eps_t, eps_r = st.episodes(X, case['ep']), st.episodes(Xt, case['ep']), st.episodes(Xr, case['ep'])
    full = st.eq_delays(case['spec'])
    for l, Xe in eps.items():
        if l not in eps_r:
            return f'episode {l} missing from the round trip'
        R = eps_r[l]
        n, r = Xe.shape[0], R.shape[0]
        n_lift = eps_t[l].shape[0]
        if r > n or r < n_lift:
            return f'episode {l}: {n} samples, {n_lift} lifted, {r} retracted'
        if full and r != n:
            return f'episode {l}: equal delays but only {r} of {n} samples come back'
        tail = Xe[n - r:, :]
        ok = np.array_equal(R, tail) if exact else np.allclose(R, tail, rtol=1e-9, atol=1e-9)
        if not ok:
            return f'episode {l}: round trip differs from the trailing {r} samples (max err {np.max(np.abs(R - tail)):.3g})'
        if not (ks & {'sk', 'angle'}):
            lead = eps_t[l][:, :case['nx']]
            want = Xe[n - n_lift:, :case['nx']]
            if not np.array_equal(lead, want):
                return f'episode {l}: leading lifted-state columns are not the original state'
    # the same data handed over as a pandas DataFrame (named columns) lifts and retracts to the same numbers
    import pandas
    Xf = np.asarray(X, dtype=float)
    df = pandas.DataFrame(Xf, columns=[f'c{j}' for j in range(Xf.shape[1])])
    est2 = pipes.fit(case['spec'], df, case['nu'], case['ep'])
    Xt2 = np.asarray(est2.transform(df), dtype=float)
    if Xt2.shape != np.asarray(Xt).shape or not np.allclose(Xt2, np.asarray(Xt, dtype=float), rtol=1e-9, atol=1e-9):
        return 'transform of a DataFrame differs from transform of the same data as an array'
    Xr2 = np.asarray(est2.inverse_transform(Xt2), dtype=float)
    if Xr2.shape != np.asarray(Xr).shape or not np.allclose(Xr2, np.asarray(Xr, dtype=float), rtol=1e-9, atol=1e-9):
        return 'round trip of a DataFrame differs from the round trip of the same data as an array'
    try:
        why = _routes(case, est, X, Xt, Xr)
    except Exception as ex:      # the state-only / input-only / episode-flag routes must not raise on valid data either
        return f'lift / retract route raised {type(ex).__name__}: {ex}'
    if why:
        return why
    try:
        return _buffers(case)
    except Exception as ex:      # ... nor on an array the caller has used before and refilled
        return f'call on a re-used, refilled array raised {type(ex).__name__}: {ex}'


def gain(spec):
    """samples per episode that the inverse rebuilds from the delay coordinates (own arithmetic: a delay stage folds
    max(dx, du) samples away and its inverse recovers min(dx, du) of them; chains add; a split re-joins its branches
    on the trailing samples, i.e. on the smaller branch)"""
    k = spec['k']
    if k == 'delay':
        return min(spec['dx'], spec['du'])
    if k == 'split':
        return min(sum(gain(s) for s in spec['a']), sum(gain(s) for s in spec['b']))
    if k == 'pipe':
        return sum(gain(s) for s in spec['ss'])
    return 0


def both_delays(spec):
    """some delay stage with state AND input delays >= 1 (the inverse then rebuilds earlier samples)"""
    if spec['k'] == 'delay' and spec['dx'] >= 1 and spec['du'] >= 1:
        return True
    return any(both_delays(s) for key in ('a', 'b', 'ss') for s in spec.get(key, []))


def route_tags(case):
    """coverage categories of the state-only / input-only / episode-flag routes"""
    t = ['routes:all']
    if gain(case['spec']) >= 1:
        t.append('routes:inverse-rebuilds-samples')
    if both_delays(case['spec']):
        t.append('routes:delay-state-and-input>=1')
    if st.eq_delays(case['spec']) and pipes.loss(case['spec']) >= 1:
        t.append('routes:equal-nonzero-delays')
    t.append('routes:flag-differs-fitted-' + ('with' if case['ep'] else 'without') + '-episode-feature')
    return t


def _same(A, B, exact):
    A, B = np.asarray(A, dtype=float), np.asarray(B, dtype=float)
    if A.shape != B.shape:
        return False
    return np.array_equal(A, B) if exact else np.allclose(A, B, rtol=1e-9, atol=1e-9)


def _tails(name, R, want, ep, r_of, exact):
    """R (returned by a retract route) holds, per episode of `want` (the original columns), exactly r_of[label] trailing
    samples of that episode"""
    R = np.asarray(R, dtype=float)
    if R.ndim != 2 or R.shape[1] != np.asarray(want).shape[1]:
        return f'{name}: returned shape {R.shape}, original columns have shape {np.asarray(want).shape}'
    eps_w, eps_r = st.episodes(want, ep), st.episodes(R, ep)
    if sorted(eps_w) != sorted(eps_r):
        return f'{name}: episodes {sorted(eps_r)} returned, episodes {sorted(eps_w)} given'
    for l, W in eps_w.items():
        n, r, got = W.shape[0], r_of[l], eps_r[l].shape[0]
        if got != r:
            return (f'{name}: episode {l} has {n} samples, inverse_transform(transform(X)) returns its trailing {r}, '
                    f'this route returns {got}')
        if not _same(eps_r[l], W[n - r:, :], exact):
            return (f'{name}: episode {l} differs from its trailing {r} original samples '
                    f'(max err {np.max(np.abs(eps_r[l] - W[n - r:, :])) if r else 0:.3g})')
    return None


def _routes_on(name, est, X, ep, nx, spec, exact, exact_lift):
    """lift / retract / lift_state / retract_state / lift_input / retract_input, called with episode flag `ep` on data X
    (ep is passed explicitly; it may differ from the flag the estimator was fitted with). Expected values are the
    original columns themselves; expected sample counts come from own delay arithmetic."""
    X = np.asarray(X, dtype=float)
    e = 1 if ep else 0
    eps = st.episodes(X, ep)
    r_of = {l: Xe.shape[0] - pipes.loss(spec) + gain(spec) for l, Xe in eps.items()}
    Xs = X[:, :e + nx]
    Xu = np.hstack((X[:, :e], X[:, e + nx:]))
    L = est.lift(X, episode_feature=ep)
    R = est.retract(L, episode_feature=ep)
    why = _tails(f'{name}retract(lift(X))', R, X, ep, r_of, exact)
    if why:
        return why
    Ls = np.asarray(est.lift_state(Xs, episode_feature=ep), dtype=float)
    Lu = np.asarray(est.lift_input(X, episode_feature=ep), dtype=float)
    ns = Ls.shape[1] - e
    L = np.asarray(L, dtype=float)
    if Ls.shape[0] != L.shape[0] or ns < 0 or not _same(Ls, L[:, :e + ns], exact_lift):
        return f'{name}lift_state(state) is not the leading lifted-state block of lift(X)'
    if not _same(Lu, np.hstack((L[:, :e], L[:, e + ns:])), exact_lift):
        return f'{name}lift_input(X) is not the trailing lifted-input block of lift(X)'
    why = _tails(f'{name}retract_state(lift_state(state))', est.retract_state(Ls, episode_feature=ep), Xs, ep, r_of, exact)
    if why:
        return why
    return _tails(f'{name}retract_input(lift_input(X))', est.retract_input(Lu, episode_feature=ep), Xu, ep, r_of, exact)


def _routes(case, est, X, Xt, Xr):
    """the public routes other than transform / inverse_transform state the same round trip: lift / retract,
    lift_state / retract_state, lift_input / retract_input, each with the fitted episode flag, with the flag left to
    default, and with the other flag (one episode without labels on an estimator fitted with labels; labelled episodes
    on an estimator fitted without)."""
    spec, ep, nx = case['spec'], bool(case['ep']), case['nx']
    exact = not (pipes.kinds_in(spec) & {'sk', 'angle'})
    exact_lift = pipes.kinds_in(spec) <= {'poly', 'bilinear', 'const', 'delay', 'split', 'pipe'}
    X = np.asarray(X, dtype=float)
    # own count against what inverse_transform(transform(X)) returned
    eps, eps_r = st.episodes(X, ep), st.episodes(Xr, ep)
    for l, Xe in eps.items():
        want = Xe.shape[0] - pipes.loss(spec) + gain(spec)
        if l in eps_r and eps_r[l].shape[0] != want:
            return (f'episode {l}: {Xe.shape[0]} samples, inverse_transform(transform(X)) returns {eps_r[l].shape[0]}, '
                    f'the delays of the pipeline give {want}')
    # default flag (None): the routes are transform / inverse_transform themselves
    if not _same(est.lift(X), Xt, exact) or not _same(est.retract(Xt), Xr, exact):
        return 'lift(X) / retract(Xt) with the default episode flag differ from transform(X) / inverse_transform(Xt)'
    e = 1 if ep else 0
    Ls0 = est.lift_state(X[:, :e + nx])
    Rs0 = est.retract_state(Ls0)
    why = _tails('retract_state(lift_state(state)) with the default episode flag', Rs0, X[:, :e + nx], ep,
                 {l: eps_r[l].shape[0] for l in eps if l in eps_r}, exact)
    if why:
        return why
    why = _routes_on('', est, X, ep, nx, spec, exact, exact_lift)
    if why:
        return why
    if ep:
        # one episode handed over without its label column
        l = sorted(eps)[len(eps) // 2]
        return _routes_on(f'[episode {l} alone, episode_feature=False] ', est, eps[l], False, nx, spec, exact, exact_lift)
    # the record and its time reversal as two labelled episodes
    X2 = st.ref_combine([(3, X), (5, X[::-1, :])], True)
    return _routes_on('[two labelled episodes, episode_feature=True] ', est, X2, True, nx, spec, exact, exact_lift)


# ----------------------------------------------------------------------------- the caller's array re-used as a buffer
# The property speaks about the data matrix that is handed over, i.e. about its contents at the time of the call. A caller
# may keep ONE preallocated array and refill it in place for every batch (new measurements, a corrected cell, a rescaled
# column, episodes re-cut or renumbered). Every call on that array must answer for what the array holds NOW: the round trip
# returns the trailing samples of the current batch and the leading lifted-state columns are the current state. Expected
# values are copies of the array contents taken by the harness before the call, and own delay arithmetic for the counts.

BUFFER_MODES = ('fill', 'labels', 'fill+labels', 'scale', 'cell', 'column')


def _relabel(lab, need, rs):
    """a new valid episode column for the same rows: renumbered, two labels exchanged, the longest episode cut in two,
    or two episodes whose rows follow each other merged into one -- every episode keeps >= need samples"""
    lab = np.asarray(lab, dtype=float)
    ls = sorted({int(v) for v in lab})
    new = lab.copy()
    opts = ['shift']
    if len(ls) >= 2:
        opts.append('swap')
    big = max(ls, key=lambda l: int(np.sum(lab == l)))
    if int(np.sum(lab == big)) >= 2 * need:
        opts.append('cut')
    how = opts[rs.randint(len(opts))]
    if how == 'shift':
        new = lab + 1 + rs.randint(3)
    elif how == 'swap':
        i = rs.randint(len(ls) - 1)
        a, b = ls[i], ls[i + 1]
        new[lab == a] = b
        new[lab == b] = a
    else:
        idx = np.flatnonzero(lab == big)
        new[idx[idx.shape[0] // 2:]] = max(ls) + 7
    return new, how


def _overwrite(buf, mode, e, need, rs):
    """change the contents of `buf` IN PLACE (the array object stays the same); data stays inside [-2, 2]"""
    how = mode
    if mode in ('fill', 'fill+labels'):
        buf[:, e:] = rs.uniform(-2.0, 2.0, size=(buf.shape[0], buf.shape[1] - e))
    if mode == 'scale':
        buf[:, e:] *= -0.5
    if mode == 'cell':
        i, j = rs.randint(buf.shape[0]), e + rs.randint(buf.shape[1] - e)
        buf[i, j] = buf[i, j] - 1.0 if buf[i, j] > 0 else buf[i, j] + 1.0
    if mode == 'column':
        j = e + rs.randint(buf.shape[1] - e)
        buf[:, j] = rs.uniform(-2.0, 2.0, size=buf.shape[0])
    if mode in ('labels', 'fill+labels') and e:
        new, h = _relabel(buf[:, 0], need, rs)
        buf[:, 0] = new
        how = f'{mode}:{h}'
    return how


def _current(name, spec, nx, ep, B, L, R, exact):
    """L = lift of the batch B, R = retract of L: per episode of B (own split), L has n - loss rows whose leading state
    columns are the trailing state samples of B, and R is the trailing n - loss + gain samples of B"""
    ks = pipes.kinds_in(spec)
    L, R = np.asarray(L, dtype=float), np.asarray(R, dtype=float)
    if L.ndim != 2 or R.ndim != 2 or R.shape[1] != B.shape[1]:
        return f'{name}: lifted shape {L.shape}, retracted shape {R.shape} for a batch of shape {B.shape}'
    eps, eps_t, eps_r = st.episodes(B, ep), st.episodes(L, ep), st.episodes(R, ep)
    if sorted(eps_t) != sorted(eps) or sorted(eps_r) != sorted(eps):
        return (f'{name}: the array holds episodes {sorted(eps)}, the lifted data has {sorted(eps_t)}, the round trip '
                f'{sorted(eps_r)}')
    for l, Xe in eps.items():
        n = Xe.shape[0]
        n_lift = n - pipes.loss(spec)
        r = n_lift + gain(spec)
        if eps_t[l].shape[0] != n_lift or eps_r[l].shape[0] != r:
            return (f'{name}: episode {l} has {n} samples now; {eps_t[l].shape[0]} lifted (delays give {n_lift}), '
                    f'{eps_r[l].shape[0]} retracted (delays give {r})')
        if not _same(eps_r[l], Xe[n - r:, :], exact):
            return (f'{name}: episode {l}: the round trip is not the trailing {r} samples of the CURRENT contents '
                    f'(max err {np.max(np.abs(eps_r[l] - Xe[n - r:, :])) if r else 0:.3g})')
        if not (ks & {'sk', 'angle'}):
            if not np.array_equal(eps_t[l][:, :nx], Xe[n - n_lift:, :nx]):
                return f'{name}: episode {l}: the leading lifted-state columns are not the state the array holds NOW'
    return None


def _buffer_run(name, est, spec, nx, B0, ep, explicit, plan, rs, fit_on_buffer=None):
    """one array object, refilled in place between calls. `explicit`: go through lift / retract with episode_feature=ep
    given (it may differ from the fitted flag), else through transform / inverse_transform."""
    exact = not (pipes.kinds_in(spec) & {'sk', 'angle'})
    e = 1 if ep else 0
    need = pipes.loss(spec) + 1
    buf = np.array(B0, dtype=float, order='C')
    if fit_on_buffer is not None:
        est = fit_on_buffer(buf)            # the estimator is fitted on this very array object, too
    if explicit:
        lift = lambda A: est.lift(A, episode_feature=ep)
        retract = lambda A: est.retract(A, episode_feature=ep)
    else:
        lift, retract = est.transform, est.inverse_transform
    B = buf.copy()
    L = lift(buf)
    why = _current(f'{name}first call', spec, nx, ep, B, np.array(L, dtype=float), retract(L), exact)
    if why:
        return why, est
    hist = []
    for mode in plan:
        B_prev = B
        hist.append(_overwrite(buf, mode, e, need, rs))
        B = buf.copy()
        L = lift(buf)
        Lc = np.array(L, dtype=float)
        R = retract(L)
        tag = f'{name}same array object, contents overwritten in place ({", then ".join(hist)})'
        why = _current(tag, spec, nx, ep, B, Lc, R, exact)
        if why:
            return why, est
        if mode in ('fill', 'scale', 'cell', 'column') and B_prev.shape == B.shape:
            # the LIFTED array re-used as a buffer: retracted, refilled with the lift of the current batch, retracted again
            T = np.array(lift(B_prev.copy()), dtype=float, order='C')
            if T.shape == Lc.shape:
                retract(T)
                T[...] = Lc
                why = _current(f'{name}lifted array retracted, refilled in place with the lift of the next batch ({hist[-1]}) and '
                               f'retracted again', spec, nx, ep, B, Lc, retract(T), exact)
                if why:
                    return why, est
                if e:
                    T[:, 0] += 2
                    B2 = B.copy()
                    B2[:, 0] += 2
                    L2 = Lc.copy()
                    L2[:, 0] += 2
                    why = _current(f'{name}lifted array retracted, its episode column renumbered in place, retracted again',
                                   spec, nx, ep, B2, L2, retract(T), exact)
                    if why:
                        return why, est
    return None, est


def _state_buffer(name, est, spec, nx, B0, ep, rs):
    """lift_state / retract_state on one re-used state array (labels + state columns), refilled in place"""
    exact = not (pipes.kinds_in(spec) & {'sk', 'angle'})
    e = 1 if ep else 0
    sbuf = np.array(np.asarray(B0, dtype=float)[:, :e + nx], dtype=float, order='C')
    r_of = {l: Xe.shape[0] - pipes.loss(spec) + gain(spec) for l, Xe in st.episodes(sbuf, ep).items()}
    Ls = est.lift_state(sbuf, episode_feature=ep)
    est.retract_state(Ls, episode_feature=ep)
    how = _overwrite(sbuf, 'fill', e, pipes.loss(spec) + 1, rs)
    S = sbuf.copy()
    Ls = est.lift_state(sbuf, episode_feature=ep)
    return _tails(f'{name}retract_state(lift_state(state array overwritten in place: {how}))',
                  est.retract_state(Ls, episode_feature=ep), S, ep, r_of, exact)


def buffer_plan(case, rs):
    """which in-place changes follow each other on the buffer of this case"""
    plan = [['fill', 'fill+labels'][rs.randint(2)] if case['ep'] else 'fill']
    rest = [m for m in BUFFER_MODES if m not in plan and (case['ep'] or 'labels' not in m)]
    k = 2 if case['ep'] else 1
    for i in rs.permutation(len(rest))[:k]:
        plan.append(rest[i])
    if case['ep'] and not any('labels' in m for m in plan):
        plan[-1] = 'labels'
    if rs.randint(2):
        plan = plan[::-1]
    return plan


def _buf_rs(case):
    X = np.array(case['rows'], dtype=float)
    return np.random.RandomState((int(case.get('buf_seed', 0)) + 7919 * X.shape[0] + 31 * X.shape[1]) % (2 ** 31 - 1))


def splits_callers_array(spec):
    """the estimator itself cuts the array it is handed into episodes (a delay stage or a split pipeline, alone or as
    the first stage of the top-level chain) -- the others hand it on to their stages unchanged or work row by row"""
    if spec['k'] in ('delay', 'split'):
        return True
    return spec['k'] == 'pipe' and bool(spec['ss']) and splits_callers_array(spec['ss'][0])


def buffer_tags(case):
    """coverage categories of the re-used-buffer oracle"""
    t = ['buffer:all', 'buffer:fitted-' + ('with' if case['ep'] else 'without') + '-episode-feature']
    for m in buffer_plan(case, _buf_rs(case)):
        t.append('buffer:overwrite-' + m)
    if splits_callers_array(case['spec']):
        t.append('buffer:episode-dependent-at-top-' + ('with' if case['ep'] else 'without') + '-episode-feature')
    for k in sorted(pipes.kinds_in(case['spec'])):
        t.append('buffer:kind-' + k)
    return t


def _buffers(case):
    """the data matrix as a re-used buffer, with the fitted episode flag (transform / inverse_transform and lift / retract)
    and with the opposite flag (lift / retract), plus the state-only route"""
    spec, ep, nx, nu = case['spec'], bool(case['ep']), case['nx'], case['nu']
    X = np.array(case['rows'], dtype=float)
    rs = _buf_rs(case)
    plan = buffer_plan(case, rs)
    why, est = _buffer_run('', None, spec, nx, X, ep, False, plan, rs, fit_on_buffer=lambda b: pipes.fit(spec, b, nu, ep))
    if why:
        return why
    why, _ = _buffer_run('[lift / retract, fitted episode flag given] ', est, spec, nx, X, ep, True, plan[:2], rs)
    if why:
        return why
    if ep:
        eps = st.episodes(X, True)
        l = sorted(eps)[len(eps) // 2]
        other, flag, note = np.array(eps[l]), False, f'[episode {l} alone, episode_feature=False] '
    else:
        other, flag, note = st.ref_combine([(3, X), (5, X[::-1, :])], True), True, '[two labelled episodes, episode_feature=True] '
    oplan = ['fill+labels', 'cell'] if flag else ['fill', 'cell']
    if rs.randint(2):
        oplan = oplan[::-1]
    why, _ = _buffer_run(note, est, spec, nx, other, flag, True, oplan, rs)
    if why:
        return why
    return _state_buffer('', est, spec, nx, X, ep, rs)


def probe_unwrap(rng):
    """AnglePreprocessor(unwrap_inverse=True) on several episodes: every episode must still come back
    (angles inside (-pi, pi], any episode count)"""
    rs = np.random.RandomState(rng.randint(0, 2 ** 31 - 1))
    n_eps = rng.randint(2, 3)
    blocks = []
    for l in range(n_eps):
        n = rng.randint(4, 7)
        # smooth angle trajectories inside (-pi, pi]; consecutive episodes start far apart
        start = 2.8 if l % 2 == 0 else -2.8
        ang = start + np.cumsum(rs.uniform(-0.05, 0.05, n))
        ang = np.clip(ang, -3.1, 3.1)
        blocks.append((l, np.column_stack((ang, rs.uniform(-1, 1, n)))))
    X = st.ref_combine(blocks, True)
    lf = pykoop.AnglePreprocessor(angle_features=np.array([0]), unwrap_inverse=True)
    lf.fit(X, n_inputs=0, episode_feature=True)
    Xr = lf.inverse_transform(lf.transform(X))
    if not np.allclose(Xr, X, rtol=1e-9, atol=1e-9):
        bad = sorted({int(X[i, 0]) for i in range(X.shape[0]) if not np.allclose(Xr[i], X[i], atol=1e-9)})
        return (f'AnglePreprocessor(unwrap_inverse=True): episodes {bad} do not come back from the round trip (np.unwrap runs '
                f'across episode boundaries; max error {np.max(np.abs(Xr - X)):.4f} ~ 2*pi)',
                {'X': X.tolist()}, {'estimator': 'AnglePreprocessor', 'unwrap_inverse': True, 'episodes': n_eps})
    return None


def oracle(case, est=None):
    try:
        return _oracle(case, est)
    except Exception as ex:      # the round trip must not raise on valid data
        return f'transform / inverse_transform raised {type(ex).__name__}: {ex}'


def _valid(case):
    """every episode is long enough for the pipeline (shrinking must stay inside the property's domain: a too short
    episode makes transform raise on any version of the code)"""
    need = pipes.loss(case['spec']) + 1
    if not case['rows']:
        return False
    if not case['ep']:
        return len(case['rows']) >= need
    n = {}
    for r in case['rows']:
        n[r[0]] = n.get(r[0], 0) + 1
    return min(n.values()) >= need


def population_search(ctx):
    """failing-input search over a fresh population (also used when an exception raised inside the implementation
    ended the correspondence run early)"""
    for i in range(400):
        fc = st.gen_case(ctx.rng, KINDS, max_depth=3, cap=40, opaque=True)
        fc['buf_seed'] = ctx.rng.randint(0, 2 ** 31 - 1)
        why = oracle(fc)
        if why:
            ctx.fail(why, fc, {'kinds': sorted(pipes.kinds_in(fc['spec']))})
            return


def run(ctx):
    ctx.rule = ('random lifting-function trees (all ten kinds, depth<=3, chains<=3, forced share of unequal '
                'delays) x (n_states 1..3, n_inputs 0..2, episode feature on/off, 1..4 episodes of unequal '
                'length, arbitrary labels, blocks or interleaved rows); algebraic trees on tagged integers '
                '(exact), trees with opaque stages as symbolic terms evaluated with the fitted parameters '
                '(rel 1e-9); non-trivial = at least one stage and two rows; distinct by case hash; on every case the '
                'other public routes as well: lift / retract, lift_state / retract_state, lift_input / retract_input '
                'with the fitted episode flag, the default flag and the opposite flag (one unlabelled episode on an '
                'estimator fitted with labels; the record and its time reversal as two labelled episodes on one '
                'fitted without); on every case the caller\'s array re-used as a BUFFER: the estimator is fitted on, and then '
                'repeatedly called with, ONE float64 array object whose contents are overwritten in place between the calls '
                '(all data refilled, one column, one cell, rescaled; episode column renumbered / two labels exchanged / '
                'longest episode cut in two; both at once), through transform / inverse_transform, through lift / retract '
                'with the fitted and with the opposite episode flag, through lift_state / retract_state on a re-used state '
                'array, and with the LIFTED array re-used (retracted, refilled with the lift of the next batch or '
                'renumbered, retracted again)')
    ctx.explanation = ('theorems C01_* (suffix-stable round trip through the whole tree); correspondence on '
                       'inverse_transform(transform(X)) and on the leading state columns of transform(X); '
                       'oracle: the round trip evaluated directly on real estimators with float data; '
                       'the state-only, input-only and episode-flag routes must return, per episode, the trailing '
                       'samples of the original state / input columns themselves, as many as the delay arithmetic '
                       'of the pipeline (loss max(dx,du), rebuilt min(dx,du), split = smaller branch) gives and as '
                       'inverse_transform(transform(X)) returns; lift_state / lift_input must be the leading / '
                       'trailing blocks of lift(X); re-used buffer: after every in-place change the harness copies the '
                       'array, and the call on the SAME object must answer for that copy - episodes = the labels the array '
                       'holds now (own split), lifted rows n - loss, leading lifted-state columns = the current trailing '
                       'state samples, round trip = the current trailing n - loss + gain samples (exact; 1e-9 with scaler / '
                       'angle stages); nothing remembered from an earlier call on the same object may show through')
    ctx.proof_obligations('Properties.C01', THEOREMS)
    drv = ctx.get_driver()
    cases = []
    n = ctx.n(220, 3000)
    for i in range(n):
        opaque = i % 3 == 0
        cases.append(st.gen_case(ctx.rng, KINDS if opaque else ALG, max_depth=3 if ctx.tier == 'thorough' else 2,
                                 cap=40 if ctx.tier == 'quick' else 80, opaque=opaque))
    lines, meta = [], []
    for c in cases:
        try:
            est = st.fit_case(c)
        except Exception as e:
            ctx.count('rejected:' + st.err_enum(e))
            continue
        X = st.X_of(c)
        try:
            Xt = est.transform(X)
            Xr = est.inverse_transform(Xt)
        except Exception as ex:
            ctx.mismatch(f'implementation raised {type(ex).__name__}: {ex} (model returns a matrix)', c, None, None)
            why = oracle(st.float_case(ctx.rng, c))
            if why:
                ctx.fail(why, c, {'kinds': sorted(pipes.kinds_in(c['spec']))})
            continue
        l1, cells, reg = st.value_line('rt', c, est)
        l2, _, _ = st.value_line('tr', c, est)
        lines += [l1, l2]
        meta.append((c, est, Xt, Xr, cells, reg))
    replies = drv.ask(lines)
    bad = []
    for i, (c, est, Xt, Xr, cells, reg) in enumerate(meta):
        st.count_dist(ctx, c)
        ctx.count('mode:' + st.mode_of(c))
        ctx.record_case({k: c[k] for k in ('spec', 'nx', 'nu', 'ep', 'rows')}, st.nontrivial(c))
        why = st.compare_values_guarded(Xr, replies[2 * i], c, cells, reg,
                                        lambda Z, est=est: est.inverse_transform(est.transform(Z)), count=ctx.count)
        if why:
            ctx.mismatch('inverse_transform(transform(X)): ' + why, c, None, None)
            bad.append(c)
        why = st.compare_values_guarded(Xt, replies[2 * i + 1], c, cells, reg, lambda Z, est=est: est.transform(Z),
                                        count=ctx.count, cols=slice(0, c['nx']))
        if why:
            ctx.mismatch('leading state columns of transform(X): ' + why, c, None, None)
            bad.append(c)
        fc = st.float_case(ctx.rng, c)
        fc['buf_seed'] = ctx.rng.randint(0, 2 ** 31 - 1)
        why = oracle(fc)
        if angle_ok(fc['spec']):
            for t in route_tags(fc) + buffer_tags(fc):
                ctx.count(t)
        if why:
            small = st.shrink(fc, lambda x: _valid(x) and oracle(x))
            ctx.fail(oracle(small) or why, small, {'kinds': sorted(pipes.kinds_in(c['spec']))})

    for _ in range(ctx.n(2, 10)):
        res = probe_unwrap(ctx.rng)
        ctx.count('probe:unwrap_inverse')
        if res:
            ctx.fail(*res)

    def search(ctx):
        for c in bad[:40]:
            for _ in range(3):
                fc = st.float_case(ctx.rng, c)
                fc['buf_seed'] = ctx.rng.randint(0, 2 ** 31 - 1)
                why = oracle(fc)
                if why:
                    ctx.fail(why, fc, {'kinds': sorted(pipes.kinds_in(c['spec']))})
                    return
        population_search(ctx)
    return ctx.finish('proof', search)


def replay(ctx, path):
    obj = json.load(open(path))
    case = obj.get('case') or (obj.get('first_disagreement') or {}).get('case')
    why = oracle(case)
    print('oracle:', why)
    return 1 if why else 0
