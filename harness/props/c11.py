"""C11 - Dissipativity-constrained fits are dissipative and not vacuous."""
import json
from fractions import Fraction

import numpy as np

import pykoop
import pykoop.lmi_regressors as lmi
from .. import core, lmi_common as lc

THEOREMS = ['Pk.C11.C11_dissipation', 'Pk.C11.C11_sum', 'Pk.C11.posDef_storage', 'Pk.C11.C11_default_gain',
            'Pk.C11.C11_first_problem_infeasible', 'PkLA.diss_step']


def gain_supply(nx, nu, g):
    """supply rate for 'l2 gain at most g': Xi = diag(I/g, -g I)"""
    return np.block([[np.eye(nx) / g, np.zeros((nx, nu))], [np.zeros((nu, nx)), -g * np.eye(nu)]])


def structure_case(ctx):
    rng = ctx.rng
    nx, nu = rng.randint(1, 3), rng.randint(1, 2)
    X, kw, _, _ = lc.lin_data(rng, nx, nu, noise=0.05)
    Xu, Xs = pykoop.shift_episodes(X, n_inputs=nu, episode_feature=True)
    Xu, Xs = Xu[:, 1:], Xs[:, 1:]
    if rng.random() < 0.4:
        Xi = None
        X11, X12, X22 = np.eye(nx), np.zeros((nx, nu)), -np.eye(nu)
    else:
        S = lc.dyadic(rng, (nx + nu, nx + nu))
        Xi = (S + S.T) / 2
        X11, X12, X22 = Xi[:nx, :nx], Xi[:nx, nx:], Xi[nx:, nx:]
    reg = lmi.LmiEdmdDissipativityConstr(supply_rate=Xi, picos_eps=0, solver_params=dict(lc.SOLVER))
    reg.tsvd_ = pykoop.Tsvd()
    P = lc.dyadic(rng, (nx, nx))
    P = (P + P.T) / 2
    U = lc.dyadic(rng, (nx, nx + nu))
    out = []
    pa = reg._create_problem_a(Xu, Xs, P)
    pa.variables['U'].value = U
    pa.variables['Z'].value = np.eye(nx)
    n_big = 2 * nx + nu
    lhs = [b for b in lc.constraint_blocks(pa) if b[0].shape == (n_big, n_big)][-1][0]
    line = (f"diss {nx} {nu} {nx} {lc.mat_tok(P)} {lc.mat_tok(U[:, :nx])} {lc.mat_tok(U[:, nx:])} {lc.mat_tok(np.eye(nx))} "
            f"{lc.mat_tok(X11)} {lc.mat_tok(X12)} {lc.mat_tok(X22)}")
    out.append((line, lhs, 'problem A'))
    pb = reg._create_problem_b(U)
    pb.variables['P'].value = P
    lhs = [b for b in lc.constraint_blocks(pb) if b[0].shape == (n_big, n_big)][-1][0]
    out.append((line, lhs, 'problem B'))
    return out, {'nx': nx, 'nu': nu, 'default_supply': Xi is None}


def active_data(rng, gain):
    """two-state, one-input plant whose l2 gain is `gain` (well above the bounds requested below): the constraint is active"""
    from .c10 import hinf_norm
    from .. import structural as st
    rs = np.random.RandomState(rng.randint(0, 2 ** 31 - 1))
    A = np.array([[0.8, 0.1], [-0.15, 0.7]])
    B = np.array([[0.0], [1.0]])
    B = B * gain / hinf_norm(A, B, np.eye(2), np.zeros((2, 1)), 1500)
    n = 60
    x = np.zeros((n, 2)); u = rs.uniform(-1, 1, (n, 1))
    for k in range(n - 1):
        x[k + 1] = A @ x[k] + B @ u[k] + 0.01 * rs.randn(2)
    return st.ref_combine([(0, np.hstack((x, u)))], True), {'n_inputs': 1, 'episode_feature': True}


def oracle_fit(ctx, forced=None):
    """fits with gain-bound supply rates for which P = I is a workable start; the dissipation inequality is checked
    along random trajectories with the returned (coef_, P_)"""
    rng = ctx.rng
    snap = ctx.snap()
    nx, nu = rng.randint(1, 3), rng.randint(1, 2)
    X, kw, _, _ = lc.lin_data(rng, nx, nu, radius=rng.choice([0.5, 0.8]), noise=0.02)
    g = rng.choice([1.5, 2.0, 4.0])
    if forced is not None:
        nx, nu, g = 2, 1, forced[0]
        X, kw = active_data(rng, forced[1])
    X, data_form = lc.maybe_int_data(rng, X, kw, p=(1.0 if forced is not None and len(forced) > 3 else 0.3),
                                     scale=(6 if forced is not None else 3))
    Xi = gain_supply(nx, nu, g)
    mixed = rng.random() < 0.5 and forced is None
    if mixed:       # a mixed (conic-sector like) supply rate: non-zero off-diagonal block
        S = np.array([[rng.choice([0.3, -0.2, 0.1]) for _ in range(nu)] for _ in range(nx)])
        Xi[:nx, nx:] = S
        Xi[nx:, :nx] = S.T
    reg = lmi.LmiEdmdDissipativityConstr(alpha=rng.choice([0, 0.1]), supply_rate=Xi, max_iter=rng.choice([1, 2, 4]),
                                         solver_params=dict(lc.SOLVER))
    refit = rng.random() < 0.35 or (forced is not None and forced[2] is not None)
    case = {'nx': nx, 'nu': nu, 'gain': g, 'mixed': mixed, 'Xi': Xi.tolist(), 'X': X.tolist(), 'refit': refit, 'data_form': data_form,
            'replay': {'rng': snap, 'forced': forced}}
    try:
        if refit:
            # the estimator was used before with a much looser supply rate; the requested one is set afterwards
            reg.set_params(supply_rate=gain_supply(nx, nu, 4 * g if forced is None else forced[2]))
            reg.fit(X, **kw)
            reg.set_params(supply_rate=Xi)
        reg.fit(X, **kw)
    except Exception as ex:
        return None, case, 'fit did not complete'
    if not np.any(reg.coef_):
        return None, case, 'zero model: ' + str(reg.stop_reason_)
    U = reg.coef_.T
    A, B = U[:, :nx], U[:, nx:]
    P = np.asarray(reg.P_)
    rs = np.random.RandomState(rng.randint(0, 2 ** 31 - 1))
    for _ in range(40):
        x, u = rs.randn(nx), rs.randn(nu)
        xp = A @ x + B @ u
        yu = np.concatenate((x, u))
        supply = -yu @ Xi @ yu
        dV = xp @ P @ xp - x @ P @ x
        if dV > supply + 1e-5 * (1 + abs(supply) + abs(dV)):
            return (f'dissipation inequality violated with the returned (coef_, P_): V(x+) - V(x) = {dV:.6g} > supply = {supply:.6g}',
                    case, None)
    # l2 gain <= g in the frequency domain
    from .c10 import hinf_norm
    if not mixed and np.max(np.abs(np.linalg.eigvals(A))) < 1:
        nrm = hinf_norm(A, B, np.eye(nx), np.zeros((nx, nu)), 1500)
        if nrm > g * (1 + 1e-4):
            return f'l2 gain {nrm:.5f} exceeds the bound {g} encoded in the supply rate', case, None
    return None, case, reg.stop_reason_


def popov_max(A, B, Xi, n_grid=600):
    """largest eigenvalue over a frequency grid of [G(z); I]^* Xi [G(z); I], G(z) = (zI - A)^-1 B.  A system x+ = Ax + Bu,
    y = x with A stable that is dissipative for s(u, y) = -[y; u]' Xi [y; u] with ANY storage function V >= 0, V(0) = 0 has
    sum_k s(u_k, y_k) >= 0 along every trajectory that starts at the origin, hence (Parseval) this quantity is <= 0 at every
    frequency: a sample > 0 refutes dissipativity without reference to P_.  Returns (value, frequency, sigma_max(G) there)"""
    n, m = B.shape
    best = (-np.inf, 0.0, 0.0)
    for th in np.linspace(0, np.pi, n_grid):
        G = np.linalg.solve(np.exp(1j * th) * np.eye(n) - A, B)
        F = np.vstack((G, np.eye(m)))
        Pi = F.conj().T @ Xi @ F
        v = np.max(np.linalg.eigvalsh((Pi + Pi.conj().T) / 2))
        if v > best[0]:
            best = (v, th, np.linalg.svd(G, compute_uv=False)[0])
    return best


def own_tikhonov(X, nu, alpha):
    """the unconstrained regularised least-squares Koopman matrix, computed here from the raw data (normal equations of
    min ||Theta+ - U Psi||_F^2 / q + alpha/q ||U||_F^2): used only to CLASSIFY a case (is the constraint active?)"""
    ep = X[:, 0]
    Z = X[:, 1:]
    nx = Z.shape[1] - nu
    Psi, Th = [], []
    for l in np.unique(ep):
        Zl = Z[ep == l]
        Psi.append(Zl[:-1])
        Th.append(Zl[1:, :nx])
    Psi, Th = np.vstack(Psi), np.vstack(Th)
    q = Psi.shape[0]
    H = Psi.T @ Psi / q + alpha / q * np.eye(nx + nu)
    G = Th.T @ Psi / q
    return np.linalg.lstsq(H, G.T, rcond=None)[0].T


WEAK_REGIMES = ['weak input channel', 'small units', 'loosened iteration tolerance', 'barely active', 'weak input channel']


def oracle_weak_effect(ctx):
    """ACTIVE constraints whose effect on the COST is tiny.  The plant's l2 gain exceeds the requested bound (by 5 % ... a
    factor 3), so the least-squares model is not admissible, but the directions the constraint acts on carry almost no
    weight in the one-step cost: the input channel is recorded with an amplitude 1e-2 ... 1e-4 of the states (many short
    episodes with random initial states keep the states excited), or all data are in small units, or alpha is tiny, or
    iter_atol / iter_rtol are loosened, or the constraint is only barely active.  Whatever stop_reason_ says, the returned
    (coef_, P_) must satisfy  [A B]' P [A B] - diag(P, 0) + Xi <= 0  with P_ >= 0 (eigenvalues, computed here), and -
    independently of P_ - the frequency-domain inequality of the supply rate (for a gain bound: l2 gain <= bound)."""
    rng = ctx.rng
    snap = ctx.snap()
    from .c10 import hinf_norm
    from .. import structural as st
    rs = np.random.RandomState(rng.randint(0, 2 ** 31 - 1))
    nx, nu = rng.randint(1, 3), rng.randint(1, 2)
    g = rng.choice([1.5, 2.0, 4.0])
    A0 = rs.uniform(-1, 1, (nx, nx))
    A0 *= rng.choice([0.4, 0.6, 0.8]) / max(0.2, np.max(np.abs(np.linalg.eigvals(A0))))
    B0 = rs.uniform(-1, 1, (nx, nu))
    over = rng.choice([1.05, 1.5, 3.0])
    B0 *= over * g / hinf_norm(A0, B0, np.eye(nx), np.zeros((nx, nu)), 600)     # plant gain = over * requested bound
    regime = rng.choice(WEAK_REGIMES)
    amp_x, amp_u, noise, tol_kw = 1.0, 1.0, 0.0, {}
    alpha = rng.choice([0, 1e-8, 1e-4])
    if regime == 'weak input channel':
        amp_u = rng.choice([1e-2, 1e-3, 5e-4, 1e-4])
    elif regime == 'small units':
        amp_x = amp_u = rng.choice([1e-2, 1e-3, 1e-4])
    elif regime == 'loosened iteration tolerance':
        tol_kw = dict(rng.choice([{'iter_atol': 1e-2}, {'iter_atol': 1.0}, {'iter_atol': 100.0}, {'iter_rtol': 0.1},
                                  {'iter_rtol': 1.0}, {'iter_atol': 1e-3, 'iter_rtol': 1e-2}]))
        noise = 0.01
        alpha = rng.choice([0, 0.1, 1e-4])
    else:
        over_b = rng.choice([1.01, 1.02, 1.05])
        B0 *= over_b / over
        over = over_b
        noise = 0.001
    n_ep, n = rng.randint(12, 30), rng.randint(6, 12)
    blocks = []
    for l in range(n_ep):
        x = np.zeros((n, nx)); u = amp_u * rs.randn(n, nu); x[0] = amp_x * rs.randn(nx)
        for k in range(n - 1):
            x[k + 1] = A0 @ x[k] + B0 @ u[k] + noise * amp_x * rs.randn(nx)
        blocks.append((l, np.hstack((x, u))))
    X = st.ref_combine(blocks, True)
    Xi = gain_supply(nx, nu, g)
    mixed = rng.random() < 0.3
    if mixed:
        S = np.array([[rng.choice([0.3, -0.2, 0.1]) for _ in range(nu)] for _ in range(nx)])
        Xi[:nx, nx:] = S
        Xi[nx:, :nx] = S.T
    max_iter = rng.choice([1, 2, 3, 6])
    reg = lmi.LmiEdmdDissipativityConstr(alpha=alpha, supply_rate=Xi, max_iter=max_iter, solver_params=dict(lc.SOLVER), **tol_kw)
    case = {'nx': nx, 'nu': nu, 'gain': g, 'plant_gain_over_bound': over, 'regime': regime, 'mixed': mixed, 'alpha': alpha,
            'max_iter': max_iter, 'tolerances': tol_kw, 'state_amplitude': amp_x, 'input_amplitude': amp_u, 'Xi': Xi.tolist(),
            'X': X.tolist(), 'replay': {'rng': snap, 'oracle': 'weak-effect'}}
    # classification only: is the constraint active, i.e. does the unconstrained least-squares model (own computation)
    # violate the frequency-domain inequality of the supply rate?
    U0 = own_tikhonov(X, nu, alpha)
    if np.max(np.abs(np.linalg.eigvals(U0[:, :nx]))) < 1:
        active = popov_max(U0[:, :nx], U0[:, nx:], Xi, 300)[0] > 1e-3 * g
    else:
        active = True
    case['constraint_active'] = bool(active)
    try:
        reg.fit(X, n_inputs=nu, episode_feature=True)
    except Exception:
        return None, case, 'fit did not complete', active
    if not np.any(reg.coef_):
        return None, case, 'zero model: ' + str(reg.stop_reason_), active
    stop = str(reg.stop_reason_)
    U = reg.coef_.T
    A, B = U[:, :nx], U[:, nx:]
    P = np.asarray(reg.P_, dtype=float)
    P = (P + P.T) / 2
    nP = max(1.0, np.linalg.norm(P, 2))
    problems = []
    min_p = np.min(np.linalg.eigvalsh(P))
    if min_p < -1e-7 * nP:
        problems.append(f'returned storage matrix P_ is not positive semidefinite (min eigenvalue {min_p:.4g})')
    M = U.T @ P @ U + Xi
    M[:nx, :nx] -= P
    scale = nP * (1 + np.linalg.norm(U, 2) ** 2) + np.linalg.norm(Xi, 2)
    max_m = np.max(np.linalg.eigvalsh((M + M.T) / 2))
    if max_m > 1e-5 * scale:
        problems.append('dissipation inequality violated with the returned (coef_, P_): max eigenvalue of '
                        f"[A B]'P[A B] - diag(P,0) + Xi = {max_m:.5g} > 0")
    if np.max(np.abs(np.linalg.eigvals(A))) < 1:
        v, th, sg = popov_max(A, B, Xi)
        if v > 1e-4 * np.linalg.norm(Xi, 2) * (1 + sg ** 2):
            problems.append(f'no storage function at all exists for the returned model: [G;I]^* Xi [G;I] has eigenvalue {v:.5g} > 0 '
                            f'at frequency {th:.4f} rad/sample')
        if not mixed:
            nrm = hinf_norm(A, B, np.eye(nx), np.zeros((nx, nu)), 600)
            if nrm > g * (1 + 1e-4):
                problems.append(f'l2 gain {nrm:.5f} of the returned model exceeds the bound {g} encoded in the supply rate')
    if problems:
        return ('; '.join(problems) + f' (regime: {regime}, constraint {"active" if active else "inactive"} for the unconstrained '
                f'least-squares model; stop_reason_ {stop!r}, n_iter_ {reg.n_iter_})', case, None, active)
    return None, case, stop, active


def probe_default(ctx):
    """second clause: with default arguments, on data generated by a strictly dissipative (gain < 1) system, the fit must
    not silently return the all-zero Koopman matrix"""
    rng = ctx.rng
    nx, nu = 2, 1
    rs = np.random.RandomState(rng.randint(0, 2 ** 31 - 1))
    A = np.array([[0.5, 0.1], [0.0, 0.4]])
    B = np.array([[0.1], [0.2]])         # l2 gain well below 1: a strictly feasible model exists
    blocks = []
    for l in range(2):
        n = 20
        x = np.zeros((n, nx)); u = rs.uniform(-1, 1, (n, nu)); x[0] = rs.uniform(-1, 1, nx)
        for k in range(n - 1):
            x[k + 1] = A @ x[k] + B @ u[k]
        blocks.append((l, np.hstack((x, u))))
    from .. import structural as st
    X = st.ref_combine(blocks, True)
    reg = lmi.LmiEdmdDissipativityConstr(solver_params=dict(lc.SOLVER))
    reg.fit(X, n_inputs=nu, episode_feature=True)
    if not np.any(reg.coef_):
        return ('LmiEdmdDissipativityConstr with default arguments returns the all-zero Koopman matrix although the data '
                f'come from a strictly dissipative system (stop_reason_: {reg.stop_reason_!r}): the first sub-problem '
                'with P = I is infeasible for every data set',
                {'X': X.tolist()}, {'estimator': 'LmiEdmdDissipativityConstr', 'supply_rate': None})
    return None


def probe_nonvacuous(ctx):
    """second clause for GIVEN supply rates (small or zero output block: passivity-like and mixed rates as well as gain
    bounds): the data come from a system that satisfies the constraint STRICTLY with the storage matrix the iteration
    starts from (checked numerically here, independently), so the first sub-problem has a strictly feasible point and a
    completed fit must not return the all-zero Koopman matrix"""
    rng = ctx.rng
    snap = ctx.snap()
    rs = np.random.RandomState(rng.randint(0, 2 ** 31 - 1))
    for _ in range(50):
        nx = rng.randint(1, 2)
        nu = rng.choice([1, nx])
        A = rs.uniform(-0.5, 0.5, (nx, nx))
        A *= rng.choice([0.3, 0.5]) / max(0.2, np.max(np.abs(np.linalg.eigvals(A))))
        B = rs.uniform(-0.3, 0.3, (nx, nu))
        delta = rng.choice([0.0, 0.0, 0.05, 0.3])
        nu_ = rng.choice([1.5, 2.0, 4.0])
        kind = rng.choice(['passivity-like', 'mixed', 'small output block'])
        S = np.zeros((nx, nu))
        if kind == 'passivity-like' and nu == nx:
            S = -0.5 * np.eye(nx)
        elif kind == 'mixed':
            S = rs.choice([0.3, -0.2, 0.1], size=(nx, nu))
        Xi = np.block([[delta * np.eye(nx), S], [S.T, -nu_ * np.eye(nu)]])
        M = np.block([[np.eye(nx) - Xi[:nx, :nx], -Xi[:nx, nx:], A.T],
                      [-Xi[:nx, nx:].T, -Xi[nx:, nx:], B.T],
                      [A, B, np.eye(nx)]])
        if np.min(np.linalg.eigvalsh((M + M.T) / 2)) > 0.1:
            break
    else:
        return None
    blocks = []
    for l in range(2):
        n = 25
        x = np.zeros((n, nx)); u = rs.uniform(-1, 1, (n, nu)); x[0] = rs.uniform(-1, 1, nx)
        for k in range(n - 1):
            x[k + 1] = A @ x[k] + B @ u[k] + 0.005 * rs.randn(nx)
        blocks.append((l, np.hstack((x, u))))
    from .. import structural as st
    X = st.ref_combine(blocks, True)
    reg = lmi.LmiEdmdDissipativityConstr(alpha=rng.choice([0, 0.1]), supply_rate=Xi, max_iter=rng.choice([1, 2]),
                                         solver_params=dict(lc.SOLVER))
    case = {'nx': nx, 'nu': nu, 'Xi': Xi.tolist(), 'kind': kind, 'A': A.tolist(), 'B': B.tolist(), 'X': X.tolist(),
            'replay': {'rng': snap, 'probe': 'nonvacuous'}}
    try:
        reg.fit(X, n_inputs=nu, episode_feature=True)
    except Exception:
        return None
    if not np.any(reg.coef_):
        return ('LmiEdmdDissipativityConstr completed a fit and returned the all-zero Koopman matrix '
                f'(stop_reason_: {reg.stop_reason_!r}) for a {kind} supply rate with output block {delta}*I, although the system '
                'that generated the data satisfies the constraint strictly with the storage matrix the iteration starts from '
                f'(min eigenvalue of the LMI {np.min(np.linalg.eigvalsh((M + M.T) / 2)):.3f})',
                case, {'estimator': 'LmiEdmdDissipativityConstr', 'supply_rate': 'given', 'clause': 'non-vacuous'})
    return None


# ----------------------------------------------------------------------------- several fits in ONE process, order of first use

# executed by a fresh interpreter: every job is fitted in a child forked from a process that has imported the library but has
# not created / fitted any estimator, i.e. every reference fit is the FIRST fit of its process
_FRESH_WORKER = r'''
import json, os, select, signal, sys, time
import numpy as np
import pykoop.lmi_regressors as lmi
jobs = json.load(open(sys.argv[1]))
limit = float(sys.argv[3])
out = []
for job in jobs:
    r, w = os.pipe()
    pid = os.fork()
    if pid == 0:
        os.close(r)
        try:
            kw = dict(job['params'])
            if kw.get('supply_rate') is not None:
                kw['supply_rate'] = np.array(kw['supply_rate'], dtype=float)
            reg = lmi.LmiEdmdDissipativityConstr(solver_params=dict(job['solver']), **kw)
            reg.fit(np.array(job['X'], dtype=float), n_inputs=job['nu'], episode_feature=True)
            res = {'coef': np.asarray(reg.coef_, dtype=float).tolist(), 'P': np.asarray(reg.P_, dtype=float).tolist(),
                   'stop': str(reg.stop_reason_), 'n_iter': int(reg.n_iter_)}
        except BaseException as ex:
            res = {'error': type(ex).__name__ + ': ' + str(ex)[:200]}
        try:
            data = json.dumps(res).encode()
            while data:
                data = data[os.write(w, data):]
        finally:
            os._exit(0)
    os.close(w)
    buf, t_end = b'', time.time() + limit
    while True:
        left = t_end - time.time()
        if left <= 0:
            buf = None
            break
        if select.select([r], [], [], left)[0]:
            chunk = os.read(r, 1 << 16)
            if not chunk:
                break
            buf += chunk
    os.close(r)
    if buf is None:
        try:
            os.kill(pid, signal.SIGKILL)
        except OSError:
            pass
    try:
        os.waitpid(pid, 0)
    except OSError:
        pass
    try:
        out.append(json.loads(buf.decode()) if buf else {'error': 'no answer within the time limit'})
    except ValueError:
        out.append({'error': 'unreadable answer'})
json.dump(out, open(sys.argv[2], 'w'))
'''


class FreshFits:
    """reference fits, each one the first fit of its process; started in the background, collected later.  Never raises: if
    the reference cannot be obtained every answer is None and the comparisons that need it are skipped (and counted)"""

    def __init__(self, jobs, per_fit=60.0):
        import os, subprocess, sys, tempfile
        self.n = len(jobs)
        self.proc = None
        self.dir = None
        self.deadline = 90.0 + 8.0 * len(jobs)
        try:
            self.dir = tempfile.mkdtemp(prefix='c11_fresh_')
            self.inp, self.outp = os.path.join(self.dir, 'jobs.json'), os.path.join(self.dir, 'out.json')
            json.dump(jobs, open(self.inp, 'w'))
            self.proc = subprocess.Popen([sys.executable, '-c', _FRESH_WORKER, self.inp, self.outp, str(per_fit)],
                                         stdin=subprocess.DEVNULL, stdout=subprocess.DEVNULL, stderr=subprocess.DEVNULL)
        except Exception:
            self.proc = None

    def results(self):
        import shutil, subprocess
        res = [None] * self.n
        try:
            if self.proc is not None:
                try:
                    self.proc.wait(timeout=self.deadline)
                except subprocess.TimeoutExpired:
                    self.proc.kill()
                    self.proc.wait()
                got = json.load(open(self.outp))
                if isinstance(got, list) and len(got) == self.n:
                    res = [g if isinstance(g, dict) and 'coef' in g else None for g in got]
        except Exception:
            pass
        finally:
            if self.dir:
                shutil.rmtree(self.dir, ignore_errors=True)
        return res


def dissipativity_problems(U, P, Xi, nx, bound, mixed):
    """the first clause on one returned pair, computed here from the supply rate THIS oracle asked for (never read back from the
    estimator or the module): P_ >= 0, eigenvalues of [A B]'P_[A B] - diag(P_,0) + Xi <= 0, and - independently of P_ - the
    frequency-domain inequality of the supply rate / the l2 gain bound it encodes"""
    from .c10 import hinf_norm
    nu = U.shape[1] - nx
    A, B = U[:, :nx], U[:, nx:]
    P = (P + P.T) / 2
    nP = max(1.0, np.linalg.norm(P, 2))
    problems = []
    min_p = np.min(np.linalg.eigvalsh(P))
    if min_p < -1e-7 * nP:
        problems.append(f'returned storage matrix P_ is not positive semidefinite (min eigenvalue {min_p:.4g})')
    M = U.T @ P @ U + Xi
    M[:nx, :nx] -= P
    scale = nP * (1 + np.linalg.norm(U, 2) ** 2) + np.linalg.norm(Xi, 2)
    max_m = np.max(np.linalg.eigvalsh((M + M.T) / 2))
    if max_m > 1e-5 * scale:
        problems.append('dissipation inequality violated with the returned (coef_, P_): max eigenvalue of '
                        f"[A B]'P[A B] - diag(P,0) + Xi = {max_m:.5g} > 0")
    if np.max(np.abs(np.linalg.eigvals(A))) < 1:
        v, th, sg = popov_max(A, B, Xi)
        if v > 1e-4 * np.linalg.norm(Xi, 2) * (1 + sg ** 2):
            problems.append(f'no storage function at all exists for the returned model: [G;I]^* Xi [G;I] has eigenvalue {v:.5g} > 0 '
                            f'at frequency {th:.4f} rad/sample')
        if not mixed:
            nrm = hinf_norm(A, B, np.eye(nx), np.zeros((nx, nu)), 600)
            if nrm > bound * (1 + 1e-4):
                problems.append(f'l2 gain {nrm:.5f} of the returned model exceeds the bound {bound} of the supply rate')
    return problems


# (p, [(nx, nu, supply kind, plant gain / bound)], one estimator object re-used for all fits).  All have the SAME lifted
# dimension p = nx + nu in every step and a different split into states and inputs
ORDER_SWEEPS = [
    (3, [(1, 2, 'default', 0.4), (2, 1, 'default', 3.0), (1, 2, 'default', 0.4)], False),
    (4, [(2, 2, 'default', 2.0), (1, 3, 'default', 0.4), (3, 1, 'default', 3.0)], False),
    (3, [(2, 1, 'default', 2.0), (1, 2, 'gain', 2.0), (1, 2, 'default', 0.5), (2, 1, 'gain', 3.0)], True),
]


def order_scenario(ctx, forced=None):
    """generator: a sequence of 2 ... 4 fits that one process performs one after the other.  All fits of a scenario have the same
    total lifted dimension p; the splits into states and inputs differ (1+2 then 2+1, 2+2 then 1+3 then 3+1, ...), as do the
    supply rates (default = None, gain bounds, mixed rates), the data (plant gain above the bound: constraint active; well
    below it: a strictly admissible model exists), alpha and max_iter.  picos_eps = 0 for the default supply rate (as in the
    library's own estimator checks; with the default picos_eps the first sub-problem is infeasible, known finding)"""
    from .c10 import hinf_norm
    from .. import structural as st
    rng = ctx.rng
    snap = ctx.snap()
    rs = np.random.RandomState(rng.randint(0, 2 ** 31 - 1))
    if forced is not None:
        p, plan, reuse = ORDER_SWEEPS[forced]
        plan = list(plan)
    else:
        p = rng.choice([3, 3, 4, 4, 5])
        splits = [(a, p - a) for a in range(1, p)]
        rng.shuffle(splits)
        splits = splits[:rng.choice([2, 3])]
        if rng.random() < 0.5:
            splits.append(splits[0])        # the first split again after the others
        all_default = rng.random() < 0.4
        plan = [(a, b, 'default' if all_default or rng.random() < 0.5 else rng.choice(['gain', 'gain', 'mixed']),
                 rng.choice([0.4, 0.6, 1.5, 2.0, 3.0])) for a, b in splits]
        reuse = rng.random() < 0.3
    steps = []
    for nx, nu, kind, over in plan:
        g = 1.0 if kind == 'default' else rng.choice([1.5, 2.0, 4.0])
        A0 = rs.uniform(-1, 1, (nx, nx))
        A0 *= rng.choice([0.3, 0.5, 0.7]) / max(0.2, np.max(np.abs(np.linalg.eigvals(A0))))
        B0 = rs.uniform(-1, 1, (nx, nu))
        B0 *= over * g / hinf_norm(A0, B0, np.eye(nx), np.zeros((nx, nu)), 600)       # plant gain = over * bound
        n_ep, n = 3, rng.randint(15, 25)
        blocks = []
        for l in range(n_ep):
            x = np.zeros((n, nx)); u = rs.randn(n, nu); x[0] = rs.randn(nx)
            for k in range(n - 1):
                x[k + 1] = A0 @ x[k] + B0 @ u[k] + 0.005 * rs.randn(nx)
            blocks.append((l, np.hstack((x, u))))
        X = st.ref_combine(blocks, True)
        Xi = gain_supply(nx, nu, g)         # for 'default': diag(I, -I), what supply_rate=None is documented to mean
        if kind == 'mixed':
            S = np.array([[rng.choice([0.3, -0.2, 0.1]) for _ in range(nu)] for _ in range(nx)])
            Xi[:nx, nx:] = S
            Xi[nx:, :nx] = S.T
        params = {'alpha': rng.choice([0, 1e-3, 0.1]), 'max_iter': rng.choice([1, 2, 3, 4]),
                  'supply_rate': None if kind == 'default' else Xi.tolist()}
        if kind == 'default':
            params['picos_eps'] = 0
        steps.append({'nx': nx, 'nu': nu, 'kind': kind, 'bound': g, 'plant_gain_over_bound': over, 'Xi': Xi.tolist(),
                      'params': params, 'X': X.tolist()})
    return {'p': p, 'reuse_estimator': reuse, 'steps': steps, 'replay': {'rng': snap, 'oracle': 'process-order', 'forced': forced}}


def order_jobs(sc):
    return [{'X': s['X'], 'nu': s['nu'], 'params': s['params'], 'solver': dict(lc.SOLVER)} for s in sc['steps']]


def order_fit_all(sc):
    """performs the fits of one scenario in THIS process, in order (which has, by then, built and fitted many other estimators
    of other sizes and splits); returns per step None (fit did not complete) or (coef_.T, P_, stop_reason_, n_iter_)"""
    reg = None
    got = []
    for s in sc['steps']:
        kw = dict(s['params'])
        if kw['supply_rate'] is not None:
            kw['supply_rate'] = np.array(kw['supply_rate'], dtype=float)
        if sc['reuse_estimator'] and reg is not None:
            reg.set_params(**dict({'picos_eps': lmi.LmiEdmdDissipativityConstr().get_params()['picos_eps']}, **kw))
        else:
            reg = lmi.LmiEdmdDissipativityConstr(solver_params=dict(lc.SOLVER), **kw)
        try:
            reg.fit(np.array(s['X'], dtype=float), n_inputs=s['nu'], episode_feature=True)
            got.append((np.array(reg.coef_, dtype=float).T, np.array(reg.P_, dtype=float), str(reg.stop_reason_), int(reg.n_iter_)))
        except Exception:
            got.append(None)
    return got


def oracle_order(sc, got, fresh):
    """verdicts on the fits of one scenario.  Each fit must satisfy ITS OWN dissipation inequality / gain bound (supply rate as
    requested in that step, built here) and must not be the all-zero matrix when an admissible model exists: witnessed by the
    same fit done as the first fit of a fresh process (`fresh`, itself checked here to be non-zero and dissipative) or, without
    such a reference, by the plant that generated the data (gain well below the bound).  Yields (step index, failure text or
    None, note)"""
    for i, s in enumerate(sc['steps']):
        nx, nu = s['nx'], s['nu']
        Xi = np.array(s['Xi'], dtype=float)
        where = (f'fit {i + 1} of {len(sc["steps"])} in one process ({nx} states + {nu} inputs, supply rate: {s["kind"]}'
                 + (f' bound {s["bound"]}' if s['kind'] != 'default' else ' = l2 gain <= 1') + '; the process has run the other sections of this check before; earlier fits of this scenario: '
                 + (', '.join(f'{t["nx"]}+{t["nu"]} {t["kind"]}' for t in sc['steps'][:i]) or 'none') + ')')
        if got[i] is None:
            yield i, None, 'fit did not complete'
            continue
        U, P, stop, n_iter = got[i]
        ref = fresh[i] if fresh is not None else None
        ref_ok = False
        if ref is not None:
            Ur = np.array(ref['coef'], dtype=float).T
            ref_ok = bool(Ur.shape == U.shape and np.any(Ur)) and not dissipativity_problems(
                Ur, np.array(ref['P'], dtype=float), Xi, nx, s['bound'], s['kind'] == 'mixed')
        if not np.any(U):
            if ref_ok:
                yield i, (f'all-zero Koopman matrix (stop_reason_ {stop!r}) although an admissible model exists: the same estimator '
                          f'settings on the same data, fitted as the first fit of a fresh process, return a non-zero model that '
                          f'satisfies the dissipation inequality (coef_ {np.round(Ur, 4).tolist()}); ' + where), 'zero model'
            elif s['plant_gain_over_bound'] < 0.9 and s['kind'] != 'mixed' and ref is None:
                yield i, (f'all-zero Koopman matrix (stop_reason_ {stop!r}) although the plant that generated the data has l2 gain '
                          f'{s["plant_gain_over_bound"]} x the bound; ' + where), 'zero model'
            else:
                yield i, None, 'zero model (also when fitted first in a fresh process)'
            continue
        problems = dissipativity_problems(U, P, Xi, nx, s['bound'], s['kind'] == 'mixed')
        if problems:
            yield i, ('; '.join(problems) + f' [stop_reason_ {stop!r}, n_iter_ {n_iter}'
                      + ('; the same fit as the first fit of a fresh process is dissipative' if ref_ok else '') + ']; ' + where), None
            continue
        if ref is None:
            yield i, None, 'ok (no fresh-process reference)'
        elif Ur.shape == U.shape and np.allclose(U, Ur, rtol=1e-5, atol=1e-6 * max(1.0, np.max(np.abs(Ur)))):
            yield i, None, 'ok, equal to the fresh-process fit'
        else:
            yield i, None, 'ok, differs from the fresh-process fit'


def run(ctx):
    ctx.rule = ('(i) the real _create_problem_a/_b of LmiEdmdDissipativityConstr (default and random symmetric supply '
                'rates) evaluated with PICOS at dyadic points vs the Lean block over Q; (ii) scripted-solver loop '
                'correspondence; (iii) cvxopt fits with gain-bound supply rates: dissipation inequality along random '
                'points with the returned (coef_, P_), frequency-domain gain; (iv) probe of the default configuration; '
                '(v) fits whose constraint is ACTIVE but nearly invisible in the cost (input channel 1e-2..1e-4 of the state '
                'amplitude, data in small units, tiny alpha, loosened iter_atol / iter_rtol, barely active bounds; gain and '
                'mixed supply rates): whatever stop_reason_ says, P_ >= 0 and the eigenvalues of [A B]\'P_[A B] - diag(P_,0) '
                '+ Xi <= 0, and - independently of P_ - the frequency-domain inequality of the supply rate / the l2 gain of '
                'the returned model; each case is classified active / inactive with an own least-squares solution; '
                '(vi) process-level state / order of first use: scenarios of 2..4 fits performed one after the other in THIS '
                'process (after all other sections), all with the same lifted dimension p = states + inputs (3, 4, 5) but '
                'different splits (1+2 then 2+1, 2+2 then 1+3 then 3+1, ..., the first split again at the end), default '
                '(supply_rate=None, picos_eps=0), gain-bound and mixed supply rates, active and admissible plants, fresh '
                'estimators or one estimator re-used with set_params: every fit must satisfy the dissipation inequality of '
                'ITS OWN supply rate (built here from the documented meaning, P_ >= 0, LMI eigenvalues, frequency-domain '
                'inequality, l2 gain) and must not be all-zero when the SAME fit performed as the first fit of a fresh '
                'interpreter (forked worker, one child per fit) returns a non-zero dissipative model')
    ctx.explanation = ('theorems C11_* (dissipation inequality from the LMI, summed over any horizon, default supply = l2 gain '
                       '<= 1, and the infeasibility of the default first sub-problem for every data set); correspondence of '
                       'structure and loop; oracles on cvxopt fits, including data regimes in which an active constraint '
                       'changes the cost by less than the iteration tolerances (the returned pair must be dissipative for every '
                       'stop reason); sequences of fits with equal lifted dimension and different state / input splits and supply '
                       'rates in one process, each compared with the same fit done first in a fresh process (a fit must not '
                       'depend on what the process fitted before)')
    ctx.assumptions = ["an 'optimal' solver answer satisfies its constraints up to tolerance (measured)"]
    ctx.proof_obligations('Properties.C11', THEOREMS)
    drv = ctx.get_driver()
    def _sec_problem_structure():
        la_lines, la_meta = [], []
        for i in range(ctx.n(25, 300)):
            items, tag = structure_case(ctx)
            for line, lhs, what in items:
                la_lines.append(line)
                la_meta.append((lhs, what, tag))
        for (lhs, what, tag), rep in zip(la_meta, lc.la_ask(la_lines)):
            ctx.count('structure:' + what + ('/default' if tag['default_supply'] else '/custom'))
            ctx.record_case(dict(tag, part=what), True)
            M = lc.parse_mat(rep)
            if M is None or M.shape != lhs.shape or not np.allclose(M, lhs, rtol=1e-12, atol=1e-12):
                ctx.mismatch(f'dissipativity LMI block of {what}', tag, lhs.tolist(), None if M is None else M.tolist())
    ctx.attempt('problem structure', _sec_problem_structure)
    def _sec_scripted_loop():
        lines, meta = [], []
        for i in range(ctx.n(30, 400)):
            nx, nu = ctx.rng.randint(1, 2), 1
            X, kw, _, _ = lc.lin_data(ctx.rng, nx, nu)
            mk = lambda **k: lmi.LmiEdmdDissipativityConstr(solver_params=dict(lc.SOLVER), **k)
            reg, script, rows, line = lc.check_loop(ctx, mk, X, kw, (nx, nx + nu), (nx, nx), None, None)
            lines.append(line)
            meta.append((reg, script, rows))
        for (reg, script, rows), rep in zip(meta, drv.ask(lines)):
            t = rep.split()
            case = {'rows': [[a, str(o), b] for a, o, b in rows], 'stop_at': script.stop_at, 'max_iter': reg.max_iter}
            ctx.record_case(case, True)
            ctx.count('loop')
            ui, pi, stop, n_iter, nlog = int(t[1]), int(t[2]), t[3], int(t[4]), int(t[5])
            log = [float(Fraction(x)) for x in t[6:6 + nlog]]
            obs = {'stop': lc.stop_category(reg.stop_reason_), 'n_iter': int(reg.n_iter_), 'log': [float(x) for x in reg.objective_log_]}
            if obs != {'stop': stop, 'n_iter': n_iter, 'log': log}:
                ctx.mismatch('loop outcome', case, obs, rep)
            wantU = np.zeros_like(script.a[0][1]) if ui < 0 else script.a[ui][1]
            if not np.array_equal(reg.coef_.T, wantU):
                ctx.mismatch('returned U', case, reg.coef_.T.tolist(), [ui])
            wantP = np.eye(script.b[0][1].shape[0]) if pi < 0 else script.b[pi][1]
            if not np.array_equal(np.asarray(reg.P_), wantP):
                ctx.mismatch('returned P_ is not the P of the sub-problem-B answer the machine names (the identity before the '
                             'first such answer)', case, np.asarray(reg.P_).tolist(), [pi, wantP.tolist()])
    ctx.attempt('scripted loop', _sec_scripted_loop)
    # (requested gain bound, plant gain, bound of an earlier fit of the same instance or None, data as integer counts)
    sweeps = [(1.1, 5.0, 8.0), (1.5, 4.0, 6.0), (1.5, 4.0, None, 'int'), (2.5, 6.0, None, 'int')]

    def fits(n, stop_at_first=False):
        for i in range(n + len(sweeps)):
            why, case, note = oracle_fit(ctx, forced=sweeps[i] if i < len(sweeps) else None)
            ctx.count('fit' if not (note or '').startswith('zero') else 'fit:zero-model')
            if why:
                ctx.fail(why, case, {'estimator': 'LmiEdmdDissipativityConstr', 'supply_rate': 'gain'})
                if stop_at_first:
                    return
    fits(ctx.n(16, 300))

    def weak_fits(n, stop_at_first=False):
        for _ in range(n):
            why, case, note, active = oracle_weak_effect(ctx)
            tag = 'weak-effect fit (' + case['regime'] + ')'
            if (note or '').startswith('zero'):
                tag += ': zero model'
            elif (note or '') == 'fit did not complete':
                tag += ': fit did not complete'
            else:
                tag += ': constraint active' if active else ': constraint inactive'
            ctx.count(tag)
            if why is None and note is not None and not note.startswith('zero') and note != 'fit did not complete':
                ctx.count('weak-effect fit, stop: ' + lc.stop_category(note))
            ctx.record_case({k: v for k, v in case.items() if k not in ('X', 'replay')}, True)
            if why:
                ctx.fail(why, case, {'estimator': 'LmiEdmdDissipativityConstr', 'supply_rate': 'mixed' if case['mixed'] else 'gain',
                                     'clause': 'dissipative', 'regime': case['regime']})
                if stop_at_first:
                    return
    weak_fits(ctx.n(24, 300))
    res = probe_default(ctx)
    if res:
        ctx.fail(*res)
    for _ in range(ctx.n(8, 80)):
        res = probe_nonvacuous(ctx)
        ctx.count('non-vacuity probe (given supply rate)' + (': no admissible case' if res is None and False else ''))
        if res:
            ctx.fail(*res)
    def order_fits(n, stop_at_first=False, sweeps=True):
        scs = [order_scenario(ctx, forced=i) for i in range(len(ORDER_SWEEPS) if sweeps else 0)]
        scs += [order_scenario(ctx) for _ in range(n)]
        ff = FreshFits([j for sc in scs for j in order_jobs(sc)])     # reference fits run in the background meanwhile
        got = [order_fit_all(sc) for sc in scs]       # in this process, in order
        ref = ff.results()
        k = 0
        for j, sc in enumerate(scs):
            m = len(sc['steps'])
            fresh = ref[k:k + m]
            k += m
            splits = ' then '.join(f'{t["nx"]}+{t["nu"]}' for t in sc['steps'])
            ctx.count(f'process-order scenario p={sc["p"]}' + (', one estimator re-used' if sc['reuse_estimator'] else ''))
            for i, why, note in oracle_order(sc, got[j], fresh):
                s = sc['steps'][i]
                ctx.count(f'process-order fit ({s["kind"]} supply rate, ' + ('constraint active' if s['plant_gain_over_bound'] > 1
                                                                            else 'admissible plant') + '): '
                          + ('FAILED' if why else note))
                ctx.record_case({'scenario': splits, 'step': i, 'kind': s['kind'], 'params': s['params'],
                                 'plant_gain_over_bound': s['plant_gain_over_bound']}, True)
                if why:
                    ctx.fail(why, dict(sc, failing_step=i),
                             {'estimator': 'LmiEdmdDissipativityConstr', 'supply_rate': s['kind'] + ' (several fits in one process)',
                              'clause': 'non-vacuous' if note == 'zero model' else 'dissipative', 'order': splits})
                    if stop_at_first:
                        return
    order_fits(ctx.n(5, 40))

    # a broken proof / correspondence with no failing fit so far: a larger population of fits (same oracle)
    def search(c):
        fits(80, True)
        if not c.failures:
            weak_fits(80, True)
        if not c.failures:
            order_fits(30, True, sweeps=False)
    return ctx.finish('proof', search)


def replay(ctx, path):
    """re-execute the oracle call that produced the replay (same PRNG state, same forced arguments)"""
    obj = json.load(open(path))
    r = (obj.get('case') or {}).get('replay') if isinstance(obj.get('case'), dict) else None
    print(json.dumps({k: v for k, v in obj.items() if k != 'case'}, indent=1)[:1500])
    if not r:
        print('this replay carries no re-executable oracle call (broken proof / correspondence: see "broken")')
        return 1
    ctx.restore(r['rng'])
    if r.get('oracle') == 'process-order':
        sc = order_scenario(ctx, forced=r.get('forced'))
        fresh = FreshFits(order_jobs(sc)).results()
        rc = 0
        for i, why, note in oracle_order(sc, order_fit_all(sc), fresh):
            print(f'fit {i + 1}:', why or 'property holds on this input', '' if note is None else f'({note})')
            rc = 1 if why else rc
        return rc
    if r.get('oracle') == 'weak-effect':
        why, case, note, _ = oracle_weak_effect(ctx)
        print('oracle now:', why or 'property holds on this input', '' if note is None else f'({note})')
        return 1 if why else 0
    why, case, note = oracle_fit(ctx, forced=None if r['forced'] is None else tuple(r['forced']))
    print('oracle now:', why or 'property holds on this input', '' if note is None else f'({note})')
    return 1 if why else 0
