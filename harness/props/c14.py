"""C14 - Truncated SVD factors are a valid best low-rank factorisation."""
import json
from fractions import Fraction

import numpy as np

import pykoop
from .. import core

THEOREMS = ['Pk.C14.C14_economy', 'Pk.C14.C14_rank_rule', 'Pk.C14.C14_cutoff', 'Pk.C14.C14_cutoff_count', 'Pk.C14.C14_cutoff_le',
            'Pk.C14.C14_slices_consistent', 'Pk.C14.C14_rank_zero_raises', 'Pk.C14.C14_validation',
            'Pk.C14.C14_kept_orthonormal', 'Pk.C14.C14_residual', 'Pk.C14.C14_best_frobenius', 'Pk.C14.C14_best_spectral', 'Pk.C14.C14_svd_exists', 'Pk.C14.C14_singular_values_unique']
METHODS = ['economy', 'rank', 'cutoff', 'known_noise', 'unknown_noise', 'bogus']


def fr(x):
    x = Fraction(x)
    return f'{x.numerator}/{x.denominator}' if x.denominator != 1 else str(x.numerator)


def gen_sigma(rng):
    k = rng.randint(1, 6)
    vals = sorted((Fraction(rng.randint(0, 12), rng.choice([1, 2, 4])) for _ in range(k)), reverse=True)
    if rng.random() < 0.3 and k >= 2:      # ties
        i = rng.randrange(k - 1)
        vals[i + 1] = vals[i]
    return vals


def matrix_from_sigma(rng, sig):
    """rectangular matrix whose singular values are exactly `sig` (signed permutation of a diagonal matrix)"""
    k = len(sig)
    shape = rng.choice(['square', 'tall', 'wide'])
    m, n = (k, k) if shape == 'square' else ((k + rng.randint(1, 3), k) if shape == 'tall' else (k, k + rng.randint(1, 3)))
    D = np.zeros((m, n))
    rows = rng.sample(range(m), k)
    cols = rng.sample(range(n), k)
    for s, i, j in zip(sig, rows, cols):
        D[i, j] = float(s) * rng.choice([1, -1])
    return D, shape


def gen_case(rng):
    sig = gen_sigma(rng)
    method = rng.choice(METHODS)
    if method == 'rank':
        param = rng.choice([None, 1, 2, 3, len(sig), len(sig) + 2, -1])
    elif method == 'cutoff':
        param = rng.choice([None, Fraction(-1), Fraction(0), Fraction(1, 2), Fraction(100)] + sig)
    elif method == 'known_noise':
        param = rng.choice([None, Fraction(1, 2)])
    else:
        param = rng.choice([None, None, Fraction(1), Fraction(-1)])
    X, shape = matrix_from_sigma(rng, sig)
    return {'sig': [str(s) for s in sig], 'method': method, 'param': None if param is None else str(param),
            'X': X.tolist(), 'shape': shape}


def run_impl(c):
    X = np.array(c['X'])
    p = None if c['param'] is None else Fraction(c['param'])
    if p is not None:
        p = int(p) if (c['method'] == 'rank' and p.denominator == 1) else float(p)
    try:
        t = pykoop.Tsvd(truncation=c['method'], truncation_param=p).fit(X)
    except ValueError:
        return ('err', 'ValueError'), None
    except Exception as e:
        return ('err', type(e).__name__), None
    return ('ok', int(t.singular_values_.shape[0])), t


def oracle_factors(X, t, method, param):
    """factors: orthonormal columns, non-negative non-increasing values, same retained rank for all three,
    product = best approximation of that rank (computed independently with numpy)"""
    Q, s, Z = t.left_singular_vectors_, t.singular_values_, t.right_singular_vectors_
    r = s.shape[0]
    if Q.shape != (X.shape[0], r) or Z.shape != (X.shape[1], r):
        return f'factor shapes {Q.shape} {s.shape} {Z.shape} inconsistent'
    if r == 0:
        return None
    if not np.allclose(Q.T @ Q, np.eye(r), atol=1e-10) or not np.allclose(Z.T @ Z, np.eye(r), atol=1e-10):
        return 'singular vectors are not orthonormal'
    if np.any(s < 0) or np.any(np.diff(s) > 1e-12):
        return 'singular values are not non-negative and non-increasing'
    U, sv, Vh = np.linalg.svd(X, full_matrices=False)
    if not np.allclose(s, sv[:r], rtol=1e-10, atol=1e-12):
        return 'kept singular values are not the leading singular values'
    best = (U[:, :r] * sv[:r]) @ Vh[:r, :]
    approx = (Q * s) @ Z.T
    scale = max(1.0, np.max(np.abs(X)))
    if not np.allclose(approx, best, atol=1e-9 * scale):
        # with repeated singular values at the cut the best approximation is not unique: compare errors
        if abs(np.linalg.norm(X - approx) - np.linalg.norm(X - best)) > 1e-9 * scale:
            return 'Q diag(s) Z^T is not a best approximation of the retained rank'
    if method == 'economy' and r != min(X.shape):
        return 'economy does not keep everything'
    if method == 'rank' and r != min(int(param), min(X.shape)):
        return f'rank {param}: kept {r}'
    if method == 'cutoff':
        c = float(param)
        if np.any(s <= c) or np.any(sv[r:] > c):
            return 'cutoff: a kept value does not exceed the cutoff or a discarded one does'
    return None


def exact_rank(A):
    """rank of an integer matrix, exactly (fraction elimination on its Gram matrix, which has the same rank)"""
    A = np.asarray(A, dtype=np.int64)
    G = [[Fraction(int(v)) for v in row] for row in (A.T @ A)]
    n, r = len(G), 0
    for j in range(n):
        p = next((i for i in range(r, n) if G[i][j] != 0), None)
        if p is None:
            continue
        G[r], G[p] = G[p], G[r]
        for i in range(r + 1, n):
            if G[i][j] != 0:
                f = G[i][j] / G[r][j]
                G[i] = [a - f * b for a, b in zip(G[i], G[r])]
        r += 1
    return r


TALL_KINDS = ['integer dependent columns', 'repeated columns', 'constant columns', 'sum of other columns',
              'graded singular values', 'one tiny singular value', 'badly scaled columns', 'nearly dependent columns',
              'monomials of a small state']


def gen_tall(rng):
    """a TALL matrix (n_samples = 2..50 x n_features, mostly >= 8 x) that is exactly rank-deficient or ill-conditioned
    (cond 1e4..1e9). Returns X, the kind, and what is known about it BY CONSTRUCTION: 'rank' (exact / numerical rank,
    the remaining singular values are zero up to round-off of the data) and / or 'sigma' (the singular values)."""
    rs = np.random.RandomState(rng.randint(0, 2 ** 31 - 1))
    kind = rng.choice(TALL_KINDS)
    n = rng.randint(2, 8)
    ratio = rng.choice([8, 8, 9, 12, 16, 25, 40, 50, rng.randint(2, 7)])
    m = n * ratio + rng.randint(0, n - 1)
    known = {}

    def columns(k):
        """k linearly independent columns of ordinary size"""
        return rs.randn(m, k) * (1 + rs.rand(1, k))

    if kind == 'integer dependent columns':
        k = rng.randint(1, n - 1)
        t = np.arange(m)
        if rng.random() < 0.5:
            per = rng.sample([2, 3, 5, 7, 11, 13], k) if k <= 6 else None
        else:
            per = None
        if per is not None:
            B = np.column_stack([(t % p) - p // 2 for p in per])
        else:
            B = rs.randint(-4, 5, (m, k))
        C = np.zeros((k, n), dtype=np.int64)
        where = rng.sample(range(n), k)
        for i, j in enumerate(where):
            C[i, j] = 1
        for j in range(n):
            if j not in where:
                C[:, j] = rs.randint(-2, 3, k)
        X = (B @ C).astype(rng.choice(['float64', 'float64', 'int64']))
        known['rank'] = exact_rank(B @ C)
    elif kind == 'repeated columns':
        k = rng.randint(1, n - 1)
        A = columns(k)
        src = list(range(k)) + [rng.randrange(k) for _ in range(n - k)]
        rng.shuffle(src)
        X = np.column_stack([A[:, j] * rng.choice([1.0, 1.0, 2.0, -1.0, 0.5]) for j in src])     # exact multiples
        known['rank'] = k
    elif kind == 'constant columns':
        n_const = rng.randint(2, n) if n > 2 else 2
        k = n - n_const
        consts = [rng.choice([1.0, 1.0, 0.0, -3.0, 0.5, 7.0]) for _ in range(n_const)]
        if rng.random() < 0.5:
            consts = [consts[0]] * n_const
        cols = [np.full(m, c) for c in consts] + [columns(1)[:, 0] for _ in range(k)]
        rng.shuffle(cols)
        X = np.column_stack(cols)
        known['rank'] = k + (1 if any(c != 0 for c in consts) else 0)
    elif kind == 'sum of other columns':
        k = rng.randint(1, n - 1)
        A = columns(k)
        cols = [A[:, j] for j in range(k)]
        for _ in range(n - k):
            w = [rng.choice([0.0, 1.0, 1.0, -1.0, 0.5, 3.0]) for _ in range(k)]
            if not any(w):
                w[0] = 1.0
            cols.append(sum(wi * A[:, j] for j, wi in enumerate(w)))
        rng.shuffle(cols)
        X = np.column_stack(cols)
        known['rank'] = k
    elif kind in ('graded singular values', 'one tiny singular value'):
        cond = 10.0 ** rng.uniform(4, 9)
        if kind == 'graded singular values':
            sig = np.logspace(0, -np.log10(cond), n)
        else:
            sig = np.sort(np.r_[1 + rs.rand(n - 1), 1 / cond])[::-1]
            sig = sig / sig[0]
        U, _ = np.linalg.qr(rs.randn(m, n))
        V, _ = np.linalg.qr(rs.randn(n, n))
        X = (U * sig) @ V.T
        known['sigma'] = sig
        known['cond'] = cond
    elif kind == 'badly scaled columns':
        e = [0.0] + [rng.uniform(0, 9) for _ in range(n - 1)]
        e[rng.randrange(1, n)] = rng.uniform(4, 9)
        rng.shuffle(e)
        X = columns(n) * (10.0 ** -np.array(e))
    elif kind == 'nearly dependent columns':
        A = columns(n)
        j = rng.randrange(n)
        others = [i for i in range(n) if i != j]
        pick = rng.sample(others, min(len(others), rng.randint(1, 2)))
        A[:, j] = sum(A[:, i] for i in pick) + 10.0 ** -rng.uniform(4, 9) * rs.randn(m)
        X = A
    else:
        n = min(n, rng.randint(2, 4))
        m = n * ratio + rng.randint(0, n - 1)
        amp = 10.0 ** -rng.uniform(1, 3)
        x = amp * rs.uniform(-1, 1, m)
        first = rng.choice([0, 1])
        X = np.column_stack([x ** p for p in range(first, first + n)])
    X = X * rng.choice([1, 1, 1, 1000, 0.001]) if X.dtype.kind == 'f' else X
    if rng.random() < 0.15:
        X = np.ascontiguousarray(X.T)        # the same matrix, wide
        kind += ' (transposed)'
    return X, kind, known


def tall_rules(rng, X, sv, known):
    """truncation rules for one matrix: economy, a rank and a cutoff - preferring those that KEEP the small singular
    values. For cutoff only values in a clear gap of the spectrum are used (a factor 100 away from every singular
    value, not below 1e-12 * largest), so that the retained rank is determined by the matrix and not by round-off;
    the third entry is that retained rank."""
    full = len(sv)
    nr = known.get('rank', full)
    rules = [('economy', None, full)]
    r = rng.choice([full, full, full + 2, min(full, nr + 1), nr, rng.randint(1, full)])
    r = max(1, r)
    rules.append(('rank', r, min(r, full)))
    smax = sv[0]
    cands = [1e-11 * smax, 1e-12 * smax, 0.3 * sv[-1], 0.01 * sv[-1]]
    cands += [float(np.sqrt(sv[i] * sv[i + 1])) for i in range(full - 1) if sv[i + 1] > 0]
    if nr < full:
        cands += [1e-6 * sv[nr - 1], 1e-9 * sv[nr - 1]] if nr >= 1 else []
    rng.shuffle(cands)
    for c in cands:
        if c < 1e-12 * smax or not np.isfinite(c):
            continue
        if all(s > 100 * c or s < c / 100 for s in sv):
            keep = int(np.sum(sv > c))
            if keep >= 1 and ('rank' not in known or keep <= nr):
                rules.append(('cutoff', float(c), keep))
                break
    return rules


def oracle_tall(X, t, method, param, expect_rank, sv, known):
    """the property stated directly, with tolerances RELATIVE TO THE LARGEST SINGULAR VALUE (what a backward-stable SVD
    delivers is ~1e-15): orthonormal columns, ordering, retained rank, kept values = leading singular values (numpy
    reference, values known by construction, exact rank), (q_i, s_i, z_i) singular triplets of X, and the
    approximation error equal to the discarded tail in spectral and Frobenius norm."""
    Q, s, Z = t.left_singular_vectors_, t.singular_values_, t.right_singular_vectors_
    X = np.asarray(X, dtype=float)
    r = s.shape[0]
    smax = sv[0]
    if Q.shape != (X.shape[0], r) or Z.shape != (X.shape[1], r):
        return f'factor shapes {Q.shape} {s.shape} {Z.shape} inconsistent'
    if r != expect_rank:
        return f'{method} {param}: retained rank {r}, the rule gives {expect_rank}'
    if not (np.all(np.isfinite(Q)) and np.all(np.isfinite(s)) and np.all(np.isfinite(Z))):
        return 'factors are not finite'
    eq = float(np.max(np.abs(Q.T @ Q - np.eye(r))))
    ez = float(np.max(np.abs(Z.T @ Z - np.eye(r))))
    if eq > 1e-11:
        return f'left singular vectors are not orthonormal: max|Q^T Q - I| = {eq:.3g}'
    if ez > 1e-11:
        return f'right singular vectors are not orthonormal: max|Z^T Z - I| = {ez:.3g}'
    if np.any(s < 0) or np.any(np.diff(s) > 1e-13 * smax):
        return 'singular values are not non-negative and non-increasing'
    tol = 1e-11 * smax
    k = min(r, len(sv))
    if np.max(np.abs(s[:k] - sv[:k])) > tol:
        return (f'kept singular values are not the leading singular values: off by '
                f'{np.max(np.abs(s[:k] - sv[:k])) / smax:.3g} x largest')
    if 'sigma' in known:
        want = np.asarray(known['sigma'])[:k] * (smax / known['sigma'][0])
        if np.max(np.abs(s[:k] - want)) > 10 * tol:
            return (f'kept singular values differ from those the matrix was built with by '
                    f'{np.max(np.abs(s[:k] - want)) / smax:.3g} x largest')
    if 'rank' in known and r > known['rank'] and np.max(s[known['rank']:]) > tol:
        return (f'the matrix has rank {known["rank"]} but singular value number {known["rank"] + 1} is reported as '
                f'{np.max(s[known["rank"]:]) / smax:.3g} x largest')
    if method == 'cutoff' and np.any(s <= param):
        return 'cutoff: a kept value does not exceed the cutoff'
    e1 = float(np.max(np.abs(X @ Z - Q * s)))
    e2 = float(np.max(np.abs(X.T @ Q - Z * s)))
    if e1 > tol or e2 > tol:
        return (f'(q_i, s_i, z_i) are not singular triplets: max|X Z - Q S| = {e1 / smax:.3g}, '
                f'max|X^T Q - Z S| = {e2 / smax:.3g} (x largest singular value)')
    R = X - (Q * s) @ Z.T
    tail = sv[r:]
    if abs(np.linalg.norm(R, 2) - (tail[0] if len(tail) else 0.0)) > tol:
        return (f'Q diag(s) Z^T is not the best approximation of rank {r}: spectral error '
                f'{np.linalg.norm(R, 2) / smax:.3g}, optimum {(tail[0] if len(tail) else 0.0) / smax:.3g} (x largest)')
    if abs(np.linalg.norm(R) - float(np.sqrt(np.sum(tail ** 2)))) > tol:
        return (f'Q diag(s) Z^T is not the best approximation of rank {r}: Frobenius error '
                f'{np.linalg.norm(R) / smax:.3g}, optimum {float(np.sqrt(np.sum(tail ** 2))) / smax:.3g} (x largest)')
    return None


def tall(ctx, n_cases, stop_at_first=False):
    for i in range(n_cases):
        X, kind, known = gen_tall(ctx.rng)
        sv = np.linalg.svd(np.asarray(X, dtype=float), compute_uv=False)
        if not (np.all(np.isfinite(sv)) and sv[0] > 0):
            continue
        for method, param, expect in tall_rules(ctx.rng, X, sv, known):
            case = {'tall': kind, 'shape': list(X.shape), 'method': method, 'param': param}
            try:
                t = pykoop.Tsvd(truncation=method, truncation_param=param).fit(X)
            except Exception as e:
                ctx.fail(f'Tsvd.fit raised {type(e).__name__}: {str(e)[:200]} on a valid matrix and rule',
                         dict(case, X=np.asarray(X).tolist()), {'method': method})
                if stop_at_first:
                    return
                continue
            ctx.count('tall:' + kind.replace(' (transposed)', ''))
            if kind.endswith('(transposed)'):
                ctx.count('tall:transposed (wide)')
            ctx.count('tall:n_samples >= 8 n_features' if X.shape[0] >= 8 * X.shape[1] else 'tall:n_samples < 8 n_features')
            ctx.count('tall:rule ' + method + (' keeps values below 1e-4 x largest' if expect > int(np.sum(sv > 1e-4 * sv[0]))
                                               else ' keeps only large values'))
            ctx.record_case(case, True)
            why = oracle_tall(X, t, method, param, expect, sv, known)
            if why:
                ctx.fail(f'{kind} {X.shape[0]}x{X.shape[1]}, {method} {param}: {why}',
                         dict(case, X=np.asarray(X).tolist(), known={k: np.asarray(v).tolist() for k, v in known.items()}),
                         {'method': method})
                if stop_at_first:
                    return


def run(ctx):
    ctx.rule = ('singular-value lists of length 1..6 with dyadic rational entries (ties, zeros, values equal to the '
                'cutoff) realised exactly as signed-permutation diagonal matrices (tall / square / wide); all six '
                'truncation names (incl. an invalid one) with missing, negative, boundary and oversized parameters; '
                'plus random dense matrices (rank-deficient, repeated values) for the factor checks; plus TALL matrices '
                '(n_samples = 2..50 x n_features, mostly >= 8 x; 2..8 features; some transposed; units 1e-3 / 1 / 1e3) that '
                'are exactly rank-deficient (integer dependent / repeated / constant / summed columns) or ill-conditioned '
                '(cond 1e4..1e9: graded or one tiny singular value, badly scaled or nearly dependent columns, monomials of '
                'a small state), each under economy, a rank (mostly above the numerical rank) and a cutoff in a clear gap '
                'of the spectrum (mostly below the small values)')
    ctx.explanation = ('theorems C14_* about the truncation rule; correspondence: retained rank / ValueError compared '
                       'exactly with the model (optht methods: model says opaque, factors still validated); oracle: '
                       'orthonormality, ordering, leading triplets, best approximation against numpy.linalg.svd; for '
                       'the tall rank-deficient / ill-conditioned matrices the tolerances are relative to the largest '
                       'singular value (1e-11; the unchanged code is within 3e-14): retained rank from the rule, kept values '
                       'against the numpy reference, the values the matrix was built with and its exact rank (fraction '
                       'elimination), X Z = Q S and X^T Q = Z S, spectral and Frobenius error equal to the discarded tail')
    ctx.proof_obligations('Properties.C14', THEOREMS)
    drv = ctx.get_driver()
    lines, meta = [], []
    for i in range(ctx.n(300, 4000)):
        c = gen_case(ctx.rng)
        o, t = run_impl(c)
        p = 'n' if c['param'] is None else fr(c['param'])
        lines.append(f"tsvd {c['method']} {p} {len(c['sig'])} " + ' '.join(fr(s) for s in c['sig']))
        meta.append((c, o, t))
    replies = drv.ask(lines)
    for (c, o, t), rep in zip(meta, replies):
        ctx.count('method:' + c['method'])
        ctx.count('shape:' + c['shape'])
        ctx.count('outcome:' + (o[0] if o[0] == 'ok' else o[1]))
        ctx.record_case({k: c[k] for k in ('sig', 'method', 'param', 'shape')}, True)
        tk = rep.split()
        if tk[0] == 'opaque':
            ctx.count('opaque(optht)')
        elif o[0] == 'err':
            if tk[0] != 'err' or tk[1] != o[1]:
                ctx.mismatch('fit outcome', c, list(o), rep)
        elif tk[0] != 'ok' or int(tk[1]) != o[1]:
            ctx.mismatch('retained rank', c, list(o), rep)
        if t is not None:
            if o[0] == 'ok' and c['method'] in ('economy', 'rank', 'cutoff'):
                want = sorted((float(Fraction(s)) for s in c['sig']), reverse=True)[:o[1]]
                if not np.allclose(t.singular_values_, want, rtol=1e-13, atol=0):
                    ctx.mismatch('kept singular values', c, t.singular_values_.tolist(), want)
            why = oracle_factors(np.array(c['X']), t, c['method'], None if c['param'] is None else Fraction(c['param']))
            if why:
                ctx.fail(why, c, {'method': c['method']})
    # dense matrices
    def dense(n_cases, stop_at_first=False):
        for i in range(n_cases):
            rs = np.random.RandomState(ctx.rng.randint(0, 2 ** 31 - 1))
            m, n = ctx.rng.randint(1, 7), ctx.rng.randint(1, 7)
            X = rs.randn(m, n)
            kind = ctx.rng.choice(['full', 'deficient', 'repeated', 'integer'])
            if kind == 'integer':
                X = rs.randint(-4, 5, (m, n)).astype(ctx.rng.choice(['int64', 'int32', 'float64']))
            if kind == 'deficient' and min(m, n) >= 2:
                X = rs.randn(m, 1) @ rs.randn(1, n) + (rs.randn(m, 1) @ rs.randn(1, n) if ctx.rng.random() < 0.5 else 0)
            if kind == 'repeated':
                U, _, Vh = np.linalg.svd(X, full_matrices=False)
                s = np.sort(rs.choice([1.0, 2.0, 3.0], size=min(m, n)))[::-1]
                X = (U * s) @ Vh
            method = ctx.rng.choice(['economy', 'rank', 'cutoff'])
            param = None if method == 'economy' else (ctx.rng.randint(1, 4) if method == 'rank' else ctx.rng.choice([0.5, 1.5, 2.5]))
            t = pykoop.Tsvd(truncation=method, truncation_param=param)
            reused = ctx.rng.random() < 0.3
            if reused:
                # the same estimator and the same array OBJECT were used before with other contents
                buf = rs.randn(m, n)
                try:
                    t.fit(buf)
                except ValueError:
                    pass
                buf[:] = X
                X = buf
                ctx.count('dense:re-used estimator and buffer')
            elif ctx.rng.random() < 0.35:
                # the same estimator was fitted before on a matrix of ANOTHER shape (fewer singular values than it is
                # asked to keep, or more); the rule is about the constructor's parameters and the matrix fitted last
                m0, n0 = ctx.rng.randint(1, 7), ctx.rng.randint(1, 7)
                try:
                    t.fit(rs.randn(m0, n0))
                except ValueError:
                    pass
                ctx.count('dense:re-used estimator, other shape before')
            before = repr(sorted(t.get_params().items()))
            try:
                t.fit(X)
            except ValueError:
                ctx.count('dense:raised')
                continue
            if repr(sorted(t.get_params().items())) != before or (t.truncation, t.truncation_param) != (method, param):
                ctx.fail(f'Tsvd.fit changed the hyper-parameters: {t.get_params()} (constructed with {method}, {param})',
                         {'X': np.asarray(X).tolist(), 'method': method, 'param': param}, {'method': method})
                if stop_at_first:
                    return
            ctx.count('dense:' + kind)
            ctx.record_case({'dense': kind, 'shape': [m, n], 'method': method, 'param': param}, True)
            why = oracle_factors(X, t, method, param)
            if why:
                ctx.fail(why, {'X': X.tolist(), 'method': method, 'param': param}, {'method': method})
                if stop_at_first:
                    return
    dense(ctx.n(120, 1500))
    # tall matrices that are rank-deficient or ill-conditioned, with rules that keep the small singular values
    tall(ctx, ctx.n(150, 1800))

    def search(c):
        dense(1500, True)
        if not ctx.failures:
            tall(ctx, 1500, True)
    # a broken proof / correspondence with no failing input so far: a larger population (same oracles)
    return ctx.finish('proof', search)


def replay(ctx, path):
    print(open(path).read()[:3000])
    return 1
