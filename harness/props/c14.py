"""C14 - Truncated SVD factors are a valid best low-rank factorisation."""
import json
from fractions import Fraction

import numpy as np

import pykoop
from .. import core

THEOREMS = ['Pk.C14.C14_economy', 'Pk.C14.C14_rank_rule', 'Pk.C14.C14_cutoff', 'Pk.C14.C14_cutoff_count', 'Pk.C14.C14_cutoff_le',
            'Pk.C14.C14_slices_consistent', 'Pk.C14.C14_rank_zero_raises', 'Pk.C14.C14_validation',
            'Pk.C14.C14_kept_orthonormal', 'Pk.C14.C14_residual', 'Pk.C14.C14_best_frobenius', 'Pk.C14.C14_best_spectral', 'Pk.C14.C14_svd_exists']
METHODS = ['economy', 'rank', 'cutoff', 'known_noise', 'unknown_noise', 'bogus']


def fr(x):
    x = Fraction(x)
    return f'{x.numerator}/{x.denominator}' if x.denominator != 1 else str(x.numerator)


def gen_sigma(rng):
    k = rng.randint(1, 6)
    vals = sorted((Fraction(rng.randint(0, 12), rng.choice([1, 2, 4])) for _ in range(k)), reverse=True)
    if rng.random() < 0.3 and k >= 2:      # ties
        i = rng.randrange(k - 1)
        vals[i + 1] = vals[i]
    return vals


def matrix_from_sigma(rng, sig):
    """rectangular matrix whose singular values are exactly `sig` (signed permutation of a diagonal matrix)"""
    k = len(sig)
    shape = rng.choice(['square', 'tall', 'wide'])
    m, n = (k, k) if shape == 'square' else ((k + rng.randint(1, 3), k) if shape == 'tall' else (k, k + rng.randint(1, 3)))
    D = np.zeros((m, n))
    rows = rng.sample(range(m), k)
    cols = rng.sample(range(n), k)
    for s, i, j in zip(sig, rows, cols):
        D[i, j] = float(s) * rng.choice([1, -1])
    return D, shape


def gen_case(rng):
    sig = gen_sigma(rng)
    method = rng.choice(METHODS)
    if method == 'rank':
        param = rng.choice([None, 1, 2, 3, len(sig), len(sig) + 2, -1])
    elif method == 'cutoff':
        param = rng.choice([None, Fraction(-1), Fraction(0), Fraction(1, 2), Fraction(100)] + sig)
    elif method == 'known_noise':
        param = rng.choice([None, Fraction(1, 2)])
    else:
        param = rng.choice([None, None, Fraction(1), Fraction(-1)])
    X, shape = matrix_from_sigma(rng, sig)
    return {'sig': [str(s) for s in sig], 'method': method, 'param': None if param is None else str(param),
            'X': X.tolist(), 'shape': shape}


def run_impl(c):
    X = np.array(c['X'])
    p = None if c['param'] is None else Fraction(c['param'])
    if p is not None:
        p = int(p) if (c['method'] == 'rank' and p.denominator == 1) else float(p)
    try:
        t = pykoop.Tsvd(truncation=c['method'], truncation_param=p).fit(X)
    except ValueError:
        return ('err', 'ValueError'), None
    except Exception as e:
        return ('err', type(e).__name__), None
    return ('ok', int(t.singular_values_.shape[0])), t


def oracle_factors(X, t, method, param):
    """factors: orthonormal columns, non-negative non-increasing values, same retained rank for all three,
    product = best approximation of that rank (computed independently with numpy)"""
    Q, s, Z = t.left_singular_vectors_, t.singular_values_, t.right_singular_vectors_
    r = s.shape[0]
    if Q.shape != (X.shape[0], r) or Z.shape != (X.shape[1], r):
        return f'factor shapes {Q.shape} {s.shape} {Z.shape} inconsistent'
    if r == 0:
        return None
    if not np.allclose(Q.T @ Q, np.eye(r), atol=1e-10) or not np.allclose(Z.T @ Z, np.eye(r), atol=1e-10):
        return 'singular vectors are not orthonormal'
    if np.any(s < 0) or np.any(np.diff(s) > 1e-12):
        return 'singular values are not non-negative and non-increasing'
    U, sv, Vh = np.linalg.svd(X, full_matrices=False)
    if not np.allclose(s, sv[:r], rtol=1e-10, atol=1e-12):
        return 'kept singular values are not the leading singular values'
    best = (U[:, :r] * sv[:r]) @ Vh[:r, :]
    approx = (Q * s) @ Z.T
    scale = max(1.0, np.max(np.abs(X)))
    if not np.allclose(approx, best, atol=1e-9 * scale):
        # with repeated singular values at the cut the best approximation is not unique: compare errors
        if abs(np.linalg.norm(X - approx) - np.linalg.norm(X - best)) > 1e-9 * scale:
            return 'Q diag(s) Z^T is not a best approximation of the retained rank'
    if method == 'economy' and r != min(X.shape):
        return 'economy does not keep everything'
    if method == 'rank' and r != min(int(param), min(X.shape)):
        return f'rank {param}: kept {r}'
    if method == 'cutoff':
        c = float(param)
        if np.any(s <= c) or np.any(sv[r:] > c):
            return 'cutoff: a kept value does not exceed the cutoff or a discarded one does'
    return None


def run(ctx):
    ctx.rule = ('singular-value lists of length 1..6 with dyadic rational entries (ties, zeros, values equal to the '
                'cutoff) realised exactly as signed-permutation diagonal matrices (tall / square / wide); all six '
                'truncation names (incl. an invalid one) with missing, negative, boundary and oversized parameters; '
                'plus random dense matrices (rank-deficient, repeated values) for the factor checks')
    ctx.explanation = ('theorems C14_* about the truncation rule; correspondence: retained rank / ValueError compared '
                       'exactly with the model (optht methods: model says opaque, factors still validated); oracle: '
                       'orthonormality, ordering, leading triplets, best approximation against numpy.linalg.svd')
    ctx.proof_obligations('Properties.C14', THEOREMS)
    drv = ctx.get_driver()
    lines, meta = [], []
    for i in range(ctx.n(300, 4000)):
        c = gen_case(ctx.rng)
        o, t = run_impl(c)
        p = 'n' if c['param'] is None else fr(c['param'])
        lines.append(f"tsvd {c['method']} {p} {len(c['sig'])} " + ' '.join(fr(s) for s in c['sig']))
        meta.append((c, o, t))
    replies = drv.ask(lines)
    for (c, o, t), rep in zip(meta, replies):
        ctx.count('method:' + c['method'])
        ctx.count('shape:' + c['shape'])
        ctx.count('outcome:' + (o[0] if o[0] == 'ok' else o[1]))
        ctx.record_case({k: c[k] for k in ('sig', 'method', 'param', 'shape')}, True)
        tk = rep.split()
        if tk[0] == 'opaque':
            ctx.count('opaque(optht)')
        elif o[0] == 'err':
            if tk[0] != 'err' or tk[1] != o[1]:
                ctx.mismatch('fit outcome', c, list(o), rep)
        elif tk[0] != 'ok' or int(tk[1]) != o[1]:
            ctx.mismatch('retained rank', c, list(o), rep)
        if t is not None:
            if o[0] == 'ok' and c['method'] in ('economy', 'rank', 'cutoff'):
                want = sorted((float(Fraction(s)) for s in c['sig']), reverse=True)[:o[1]]
                if not np.allclose(t.singular_values_, want, rtol=1e-13, atol=0):
                    ctx.mismatch('kept singular values', c, t.singular_values_.tolist(), want)
            why = oracle_factors(np.array(c['X']), t, c['method'], None if c['param'] is None else Fraction(c['param']))
            if why:
                ctx.fail(why, c, {'method': c['method']})
    # dense matrices
    def dense(n_cases, stop_at_first=False):
        for i in range(n_cases):
            rs = np.random.RandomState(ctx.rng.randint(0, 2 ** 31 - 1))
            m, n = ctx.rng.randint(1, 7), ctx.rng.randint(1, 7)
            X = rs.randn(m, n)
            kind = ctx.rng.choice(['full', 'deficient', 'repeated', 'integer'])
            if kind == 'integer':
                X = rs.randint(-4, 5, (m, n)).astype(ctx.rng.choice(['int64', 'int32', 'float64']))
            if kind == 'deficient' and min(m, n) >= 2:
                X = rs.randn(m, 1) @ rs.randn(1, n) + (rs.randn(m, 1) @ rs.randn(1, n) if ctx.rng.random() < 0.5 else 0)
            if kind == 'repeated':
                U, _, Vh = np.linalg.svd(X, full_matrices=False)
                s = np.sort(rs.choice([1.0, 2.0, 3.0], size=min(m, n)))[::-1]
                X = (U * s) @ Vh
            method = ctx.rng.choice(['economy', 'rank', 'cutoff'])
            param = None if method == 'economy' else (ctx.rng.randint(1, 4) if method == 'rank' else ctx.rng.choice([0.5, 1.5, 2.5]))
            t = pykoop.Tsvd(truncation=method, truncation_param=param)
            reused = ctx.rng.random() < 0.3
            if reused:
                # the same estimator and the same array OBJECT were used before with other contents
                buf = rs.randn(m, n)
                try:
                    t.fit(buf)
                except ValueError:
                    pass
                buf[:] = X
                X = buf
                ctx.count('dense:re-used estimator and buffer')
            elif ctx.rng.random() < 0.35:
                # the same estimator was fitted before on a matrix of ANOTHER shape (fewer singular values than it is
                # asked to keep, or more); the rule is about the constructor's parameters and the matrix fitted last
                m0, n0 = ctx.rng.randint(1, 7), ctx.rng.randint(1, 7)
                try:
                    t.fit(rs.randn(m0, n0))
                except ValueError:
                    pass
                ctx.count('dense:re-used estimator, other shape before')
            before = repr(sorted(t.get_params().items()))
            try:
                t.fit(X)
            except ValueError:
                ctx.count('dense:raised')
                continue
            if repr(sorted(t.get_params().items())) != before or (t.truncation, t.truncation_param) != (method, param):
                ctx.fail(f'Tsvd.fit changed the hyper-parameters: {t.get_params()} (constructed with {method}, {param})',
                         {'X': np.asarray(X).tolist(), 'method': method, 'param': param}, {'method': method})
                if stop_at_first:
                    return
            ctx.count('dense:' + kind)
            ctx.record_case({'dense': kind, 'shape': [m, n], 'method': method, 'param': param}, True)
            why = oracle_factors(X, t, method, param)
            if why:
                ctx.fail(why, {'X': X.tolist(), 'method': method, 'param': param}, {'method': method})
                if stop_at_first:
                    return
    dense(ctx.n(120, 1500))
    # a broken proof / correspondence with no failing input so far: a larger population (same oracle)
    return ctx.finish('proof', lambda c: dense(1500, True))


def replay(ctx, path):
    print(open(path).read()[:3000])
    return 1
