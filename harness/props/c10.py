"""C10 - H-infinity regularised fits report a valid bound on the true gain."""
import json
from fractions import Fraction

import numpy as np
import scipy.signal

import pykoop
import pykoop.lmi_regressors as lmi
from .. import core, lmi_common as lc

THEOREMS = ['Pk.C10.C10_core', 'Pk.C10.C10_dissipation', 'Pk.C10.W_nonneg', 'Pk.C10.C10_l2_gain',
            'Pk.C10.C10_l2_gain_lmi', 'Pk.C10.brl_spec_block', 'Pk.C10.C10_stable', 'Pk.C10.brl_P_posDef', 'Pk.C10.C10_series_post', 'Pk.C10.C10_series_pre', 'Pk.C10.C10_units',
            'Pk.C10.C10_dmdc_lift', 'Pk.C10.C10_dmdc_l2_gain',
            'Pk.C10.C10_resolvent_exists', 'Pk.C10.C10_hinf_norm', 'PkLA.brl_freq_real', 'PkLA.brl_freq_complex']


def dyadic_weight(rng, kind, order=None):
    """a first- or second-order SISO filter with dyadic entries"""
    if (order == 1) or (order is None and rng.random() < 0.5):
        Aw = np.array([[rng.choice([0.25, 0.5, -0.25])]])
        Bw = np.array([[rng.choice([1.0, 0.5])]])
        Cw = np.array([[rng.choice([1.0, -0.5, 2.0])]])
    else:
        Aw = np.array([[0.5, 0.25], [0.0, -0.25]])
        Bw = np.array([[0.25], [0.5]])
        Cw = np.array([[2.0, -3.0]])
    Dw = np.array([[rng.choice([0.0, 0.5, 1.0])]])
    return (kind, Aw, Bw, Cw, Dw)


def blk(M, n):
    import scipy.linalg
    return scipy.linalg.block_diag(*[M] * n)


def structure_case(ctx, forced=None):
    rng = ctx.rng
    nx, nu = rng.randint(1, 2), rng.randint(1, 2)
    if forced is not None:
        nx, nu = forced[2], forced[3]
    X, kw, _, _ = lc.lin_data(rng, nx, nu, noise=0.05)
    Xu, Xs = pykoop.shift_episodes(X, n_inputs=nu, episode_feature=True)
    Xu, Xs = Xu[:, 1:], Xs[:, 1:]
    wk = rng.choice([None, 'pre', 'post'])
    order = None
    if forced is not None:
        wk, order = forced[0], forced[1]
    weight = None if wk is None else dyadic_weight(rng, wk, order)
    reg = lmi.LmiEdmdHinfReg(alpha=1, ratio=1, weight=weight, picos_eps=0, solver_params=dict(lc.SOLVER))
    reg.tsvd_ = pykoop.Tsvd()
    reg.alpha_tikhonov_, reg.alpha_other_ = 0.0, 1.0
    nw = 0 if weight is None else (nu if wk == 'pre' else nx) * weight[1].shape[0]
    n = nx + nw
    P = lc.dyadic(rng, (n, n))
    P = (P + P.T) / 2
    U = lc.dyadic(rng, (nx, nx + nu))
    g = rng.choice([Fraction(1, 2), Fraction(2), Fraction(5, 4)])
    pa = reg._create_problem_a(Xu, Xs, P)
    pa.variables['U'].value = U
    pa.variables['Z'].value = np.eye(nx)
    pa.variables['gamma'].value = float(g)
    blocks = lc.constraint_blocks(pa)
    Am, Bm = U[:, :nx], U[:, nx:]
    Cm, Dm = np.eye(nx), np.zeros((nx, nu))
    out = []
    if weight is None:
        A, B, C, D = Am, Bm, Cm, Dm
    else:
        _, Aw1, Bw1, Cw1, Dw1 = weight
        r = nu if wk == 'pre' else nx
        Aw, Bw, Cw, Dw = blk(Aw1, r), blk(Bw1, r), blk(Cw1, r), blk(Dw1, r)
        rs_, ro_ = Aw.shape[0], Cw.shape[0]        # filter state / output counts after replication
        import picos
        Upc = picos.Constant('U', U)
        Ass, Bss, Css, Dss = lmi._create_ss(Upc, weight)
        impl = [lc.to_np(M.value) if not isinstance(M, np.ndarray) else M for M in (Ass, Bss, Css, Dss)]
        if wk == 'post':
            line = (f"post {nx} {rs_} {nx} {nu} {ro_} {lc.mat_tok(Am)} {lc.mat_tok(Bm)} {lc.mat_tok(Cm)} {lc.mat_tok(Dm)} "
                    f"{lc.mat_tok(Aw)} {lc.mat_tok(Bw)} {lc.mat_tok(Cw)} {lc.mat_tok(Dw)}")
            A = np.block([[Am, np.zeros((nx, rs_))], [Bw @ Cm, Aw]])
            B = np.vstack((Bm, Bw @ Dm))
            C = np.hstack((Dw @ Cm, Cw))
            D = Dw @ Dm
        else:
            line = (f"pre {nx} {rs_} {nu} {nu} {nx} {lc.mat_tok(Am)} {lc.mat_tok(Bm)} {lc.mat_tok(Cm)} {lc.mat_tok(Dm)} "
                    f"{lc.mat_tok(Aw)} {lc.mat_tok(Bw)} {lc.mat_tok(Cw)} {lc.mat_tok(Dw)}")
            A = np.block([[Aw, np.zeros((rs_, nx))], [Bm @ Cw, Am]])
            B = np.vstack((Bw, Bm @ Dw))
            C = np.hstack((Dm @ Cw, Cm))
            D = Dm @ Dw
        out.append((line, impl, f'_create_ss {wk} order {Aw1.shape[0]}'))
    k_out = C.shape[0]
    m_in = B.shape[1]
    big = [b for b in blocks if b[0].shape[0] == 2 * n + m_in + k_out][-1][0]
    # model index order ((n + n) + (m + k)) equals the code's block order [n, n, m, k]
    out.append((f"brl {n} {m_in} {k_out} {lc.fr(g)} {lc.mat_tok(P)} {lc.mat_tok(A)} {lc.mat_tok(B)} {lc.mat_tok(C)} {lc.mat_tok(D)}",
                [big], f'problem A ({wk})'))
    return out, {'nx': nx, 'nu': nu, 'weight': wk, 'gamma': str(g)}


def dmdc_structure_case(ctx, forced=None):
    """LmiDmdcHinfReg: the real sub-problem A on dyadic SVD factors (output matrix C = Q_hat); base block, the series
    connection of _create_ss(Q_hat=...) and the bounded-real block"""
    import picos
    from types import SimpleNamespace
    rng = ctx.rng
    f = lc.dmdc_factors(rng, pu=rng.randint(1, 2))
    rh, pt, pu, q = f['rh'], f['pt'], f['pu'], f['q']
    wk = rng.choice([None, 'pre', 'post'])
    order = None
    if forced is not None:
        wk, order = forced
    weight = None if wk is None else dyadic_weight(rng, wk, order)
    reg = lmi.LmiDmdcHinfReg(alpha=1, ratio=1, weight=weight, picos_eps=0, solver_params=dict(lc.SOLVER))
    reg.tsvd_shifted_ = SimpleNamespace(left_singular_vectors_=f['Qh'])
    reg.alpha_tikhonov_, reg.alpha_other_ = q * f['alpha'], 1.0
    nw = 0 if weight is None else (pu if wk == 'pre' else pt) * weight[1].shape[0]
    n = rh + nw
    P = lc.dyadic(rng, (n, n)); P = (P + P.T) / 2
    Uh = lc.dyadic(rng, (rh, rh + pu), den=2)
    W = lc.dyadic(rng, (rh, rh), den=2); W = (W + W.T) / 2
    g = rng.choice([Fraction(1, 2), Fraction(2), Fraction(5, 4)])
    pa = reg._create_problem_a(*lc.dmdc_args(f), P)
    pa.variables['U_hat'].value = Uh
    pa.variables['W_hat'].value = W
    pa.variables['gamma'].value = float(g)
    blocks = lc.constraint_blocks(pa)
    tag = dict(lc.dmdc_tag(f), weight=wk, gamma=str(g), family='dmdc')
    if len(blocks) != 3:
        return [('bad', [np.zeros((1, 1))], f'Dmdc problem A has {len(blocks)} constraints, expected 3')], tag
    out = [(lc.dmdc_line(f, W, Uh), [blocks[1][0]], 'Dmdc problem A (base block)')]
    Am, Bm = Uh[:, :rh], Uh[:, rh:]
    Cm, Dm = f['Qh'], np.zeros((pt, pu))
    if weight is None:
        A, B, C, D = Am, Bm, Cm, Dm
    else:
        _, Aw1, Bw1, Cw1, Dw1 = weight
        r = pu if wk == 'pre' else pt
        Aw, Bw, Cw, Dw = blk(Aw1, r), blk(Bw1, r), blk(Cw1, r), blk(Dw1, r)
        rs_, ro_ = Aw.shape[0], Cw.shape[0]
        Ass, Bss, Css, Dss = lmi._create_ss(picos.Constant('U', Uh), weight, Q_hat=f['Qh'])
        impl = [lc.to_np(M.value) if not isinstance(M, np.ndarray) else M for M in (Ass, Bss, Css, Dss)]
        if wk == 'post':
            line = (f"post {rh} {rs_} {pt} {pu} {ro_} {lc.mat_tok(Am)} {lc.mat_tok(Bm)} {lc.mat_tok(Cm)} {lc.mat_tok(Dm)} "
                    f"{lc.mat_tok(Aw)} {lc.mat_tok(Bw)} {lc.mat_tok(Cw)} {lc.mat_tok(Dw)}")
            A = np.block([[Am, np.zeros((rh, rs_))], [Bw @ Cm, Aw]])
            B = np.vstack((Bm, Bw @ Dm))
            C = np.hstack((Dw @ Cm, Cw))
            D = Dw @ Dm
        else:
            line = (f"pre {rh} {rs_} {pu} {pu} {pt} {lc.mat_tok(Am)} {lc.mat_tok(Bm)} {lc.mat_tok(Cm)} {lc.mat_tok(Dm)} "
                    f"{lc.mat_tok(Aw)} {lc.mat_tok(Bw)} {lc.mat_tok(Cw)} {lc.mat_tok(Dw)}")
            A = np.block([[Aw, np.zeros((rs_, rh))], [Bm @ Cw, Am]])
            B = np.vstack((Bw, Bm @ Dw))
            C = np.hstack((Dm @ Cw, Cm))
            D = Dm @ Dw
        out.append((line, impl, f'_create_ss(Q_hat) {wk} order {Aw1.shape[0]}'))
    k_out, m_in = C.shape[0], B.shape[1]
    out.append((f"brl {n} {m_in} {k_out} {lc.fr(g)} {lc.mat_tok(P)} {lc.mat_tok(A)} {lc.mat_tok(B)} {lc.mat_tok(C)} {lc.mat_tok(D)}",
                [blocks[2][0]], f'Dmdc problem A ({wk})'))
    return out, tag


def hinf_norm(A, B, C, D, n_grid=4000):
    """independent estimate of the H-infinity norm of the discrete-time system: dense sweep + local refinement"""
    n = A.shape[0]

    def sig(th):
        z = np.exp(1j * th)
        G = C @ np.linalg.solve(z * np.eye(n) - A, B) + D
        return np.linalg.svd(G, compute_uv=False)[0]
    ths = np.linspace(0, np.pi, n_grid)
    vals = np.array([sig(t) for t in ths])
    i = int(np.argmax(vals))
    lo, hi = ths[max(0, i - 1)], ths[min(n_grid - 1, i + 1)]
    for _ in range(40):
        m1, m2 = lo + (hi - lo) / 3, hi - (hi - lo) / 3
        if sig(m1) < sig(m2):
            lo = m1
        else:
            hi = m2
    return max(vals[i], sig((lo + hi) / 2))


def oracle_fit(ctx, thorough, forced=None):
    rng = ctx.rng
    snap = ctx.snap()
    nx, nu = rng.randint(1, 3), rng.randint(1, 2)
    if forced is not None:
        nx = 2
    X, kw, _, _ = lc.lin_data(rng, nx, nu, radius=rng.choice([0.6, 0.9]), noise=0.02, n_min=12 if forced is None else 40)
    wk = rng.choice([None, None, 'pre', 'post'])
    if forced is not None:
        wk = forced[0]
    weight = None
    if wk is not None:
        if forced is None and rng.random() < 0.5:
            ss = scipy.signal.ZerosPolesGain([-0.5], [-3.0], 1.0).to_ss()
            ssd = ss.to_discrete(0.5, method='bilinear')
            weight = (wk, ssd.A, ssd.B, ssd.C, ssd.D)
        else:       # a second-order filter in modal form, feasible with the initial P = I
            weight = (wk, np.diag([0.6, -0.3]), np.array([[0.3], [0.2]]), np.array([[2.0, -3.0]]), np.array([[0.5]]))
            if forced is not None and len(forced) > 2 and forced[2] is not None:
                poles, cw = forced[2]
                weight = (wk, np.diag(poles), np.array([[0.3], [0.2]]), np.array([cw]), np.array([[0.5]]))
    fam = rng.choice(['edmd', 'dmdc'])
    if forced is not None:
        fam = forced[1]
    args = dict(alpha=rng.choice([0.5, 1, 5]), ratio=rng.choice([0.5, 1]), weight=weight, max_iter=rng.choice([1, 2, 4]),
                square_norm=rng.random() < 0.3, solver_params=dict(lc.SOLVER))
    if forced is not None:
        # a heavily regularised fit makes gamma_ tight, so a wrong cascade shows as norm > gamma_
        args.update(alpha=100, ratio=1, max_iter=6, square_norm=False)
        if len(forced) > 3 and forced[3] == 'square':
            # the squared-norm regulariser, enough iterations for the bound to become tight, and a gain BELOW one (where a
            # bound on the squared norm reported as the bound on the norm would be too small)
            args.update(max_iter=12, square_norm=True)
    reg = (lmi.LmiEdmdHinfReg if fam == 'edmd' else lmi.LmiDmdcHinfReg)(**args)
    case = {'family': fam, 'nx': nx, 'nu': nu, 'weight': wk, 'alpha': args['alpha'], 'ratio': args['ratio'],
            'max_iter': args['max_iter'], 'square_norm': bool(args['square_norm']), 'X': X.tolist(),
            'replay': {'rng': snap, 'thorough': thorough, 'forced': forced}}
    try:
        reg.fit(X, **kw)
    except Exception as ex:
        return None, case, 'fit did not complete: ' + type(ex).__name__
    if not np.any(reg.coef_):
        return None, case, reg.stop_reason_
    U = reg.coef_.T
    Am, Bm = U[:, :nx], U[:, nx:]
    Cm, Dm = np.eye(nx), np.zeros((nx, nu))
    if weight is None:
        A, B, C, D = Am, Bm, Cm, Dm
    else:
        _, Aw1, Bw1, Cw1, Dw1 = weight
        r = nu if wk == 'pre' else nx
        Aw, Bw, Cw, Dw = blk(Aw1, r), blk(Bw1, r), blk(Cw1, r), blk(Dw1, r)
        if wk == 'post':
            A = np.block([[Am, np.zeros((nx, Aw.shape[0]))], [Bw @ Cm, Aw]])
            B = np.vstack((Bm, Bw @ Dm))
            C = np.hstack((Dw @ Cm, Cw))
            D = Dw @ Dm
        else:
            A = np.block([[Aw, np.zeros((Aw.shape[0], nx))], [Bm @ Cw, Am]])
            B = np.vstack((Bw, Bm @ Dw))
            C = np.hstack((Dm @ Cw, Cm))
            D = Dm @ Dw
    rad = np.max(np.abs(np.linalg.eigvals(A)))
    if rad >= 1 - 1e-9:
        return f'{type(reg).__name__}: identified (weighted) system is not asymptotically stable (spectral radius {rad:.6f})', case, None
    norm = hinf_norm(A, B, C, D)
    gamma = float(np.ravel(reg.gamma_)[0])
    if norm > gamma * (1 + 1e-4) + 1e-7:
        return f'{type(reg).__name__}: true H-infinity norm {norm:.6f} exceeds the reported gamma_ {gamma:.6f}', case, None
    log = reg.objective_log_
    for a, b in zip(log, log[1:]):
        if b > a + 1e-4 * max(1.0, abs(a)):
            return f'{type(reg).__name__}: logged objective increases from {a} to {b}', case, None
    return None, case, reg.stop_reason_


def series_with_weight(Am, Bm, weight):
    """textbook series connection of the identified system (outputs = all lifted states) with a SISO filter replicated on every
    input ('pre') or every output ('post'); built here, not with pykoop"""
    n, m = Am.shape[0], Bm.shape[1]
    Cm, Dm = np.eye(n), np.zeros((n, m))
    if weight is None:
        return Am, Bm, Cm, Dm
    wk, Aw1, Bw1, Cw1, Dw1 = weight
    r = m if wk == 'pre' else n
    Aw, Bw, Cw, Dw = (blk(np.atleast_2d(np.asarray(M, dtype=float)), r) for M in (Aw1, Bw1, Cw1, Dw1))
    if wk == 'post':
        A = np.block([[Am, np.zeros((n, Aw.shape[0]))], [Bw @ Cm, Aw]])
        B = np.vstack((Bm, Bw @ Dm))
        C = np.hstack((Dw @ Cm, Cw))
        D = Dw @ Dm
    else:
        A = np.block([[Aw, np.zeros((Aw.shape[0], n))], [Bm @ Cw, Am]])
        B = np.vstack((Bw, Bm @ Dw))
        C = np.hstack((Dm @ Cw, Cm))
        D = Dm @ Dw
    return A, B, C, D


def own_snapshots(Xe, n_states):
    """unshifted (states and inputs) and shifted (states) snapshot matrices of data with a leading episode column; written
    here so that the singular values used to place a truncation do not come from the code under test"""
    un, sh = [], []
    seen = []
    for e in Xe[:, 0]:
        if e not in seen:
            seen.append(e)
    for e in seen:
        b = Xe[Xe[:, 0] == e][:, 1:]
        un.append(b[:-1])
        sh.append(b[1:, :n_states])
    return np.vstack(un), np.vstack(sh)


def place_truncation(rng, sig, how=None):
    """a Tsvd that REALLY truncates a matrix with the singular values sig (descending): a fixed rank below len(sig), or a
    cutoff placed between two well separated singular values; returns (Tsvd, number of retained directions)"""
    k = len(sig)
    how = how or rng.choice(['rank', 'cutoff'])
    r = rng.randint(1, k - 1)
    if how == 'cutoff':
        ok = [j for j in range(1, k) if sig[j] > 1e-8 * sig[0] and sig[j - 1] > 1.05 * sig[j]]
        if ok:
            r = rng.choice(ok)
            return pykoop.Tsvd('cutoff', float(np.sqrt(sig[r - 1] * sig[r]))), r, 'cutoff'
    return pykoop.Tsvd('rank', r), r, 'rank'


TRUNC_ZPK = [([-0.5], [-3.0], 1.0, 'bilinear', 0.5), ([-0.5], [-3.0], 1.0, 'zoh', 0.5), ([-1.0], [-4.0], 2.0, 'bilinear', 0.25),
             ([], [-2.0], 1.0, 'bilinear', 0.5)]


def oracle_trunc(ctx, thorough, forced=None):
    """LmiDmdcHinfReg with a tsvd_shifted (and sometimes a tsvd_unshifted) that really drops directions of the data - fitted
    directly, as the regressor of a KoopmanPipeline, or wrapped in LmiHinfZpkMeta. The property is stated on the RETURNED
    Koopman matrix over all lifted states: the system (A, B, I, 0), in series with the weight when one is given, has every
    eigenvalue strictly inside the unit circle and an independently computed H-infinity norm not above gamma_; the logged
    objective does not increase. forced = (route, weight kind, how the shifted SVD is truncated)"""
    rng = ctx.rng
    snap = ctx.snap()
    route = rng.choice(['direct', 'pipeline', 'meta'])
    wk = rng.choice([None, 'pre', 'post'])
    how = None
    if forced is not None:
        route, wk, how = forced
    if route == 'meta' and wk is None:
        wk = rng.choice(['pre', 'post'])
    nx, nu = rng.randint(2, 4), rng.randint(1, 2)
    X, kw, _, _ = lc.lin_data(rng, nx, nu, radius=rng.choice([0.6, 0.9]), noise=0.02, n_min=30)
    lift = None
    lifting = None
    if route == 'pipeline':
        lift = rng.choice(['none', 'delay', 'poly'])
        if lift == 'poly':
            nx, nu = 2, 1
            X, kw, _, _ = lc.lin_data(rng, nx, nu, radius=0.6, noise=0.02, n_min=30)
            lifting = [('p', pykoop.PolynomialLiftingFn(order=2))]
        elif lift == 'delay':
            nx = 2          # four lifted states: a replicated second-order post weight stays small
            X, kw, _, _ = lc.lin_data(rng, nx, nu, radius=rng.choice([0.6, 0.9]), noise=0.02, n_min=30)
            lifting = [('d', pykoop.DelayLiftingFn(n_delays_state=1, n_delays_input=1))]
    # the snapshot matrices the regressor will see (for the pipeline: after lifting), and their singular values
    if lifting is None:
        Psi, pt = X, nx
    else:
        pre = pykoop.KoopmanPipeline(lifting_functions=[(nm, lf) for nm, lf in lifting], regressor=pykoop.Edmd())
        pre.fit(X, **kw)
        Psi, pt = pre.transform(X), int(pre.n_states_out_)
    un, sh = own_snapshots(Psi, pt)
    sig_sh = np.linalg.svd(sh, compute_uv=False)
    sig_un = np.linalg.svd(un, compute_uv=False)
    case = {'oracle': 'trunc', 'family': 'dmdc', 'route': route, 'lift': lift, 'nx': nx, 'nu': nu, 'weight': wk, 'p_theta': pt,
            'X': X.tolist(), 'replay': {'oracle': 'trunc', 'rng': snap, 'thorough': thorough, 'forced': forced}}
    if pt < 2 or sig_sh[-1] <= 1e-8 * sig_sh[0]:
        return None, case, 'data not of full rank'
    ts_sh, r_sh, how = place_truncation(rng, sig_sh, how)
    ts_un, r_un = None, un.shape[1]
    if rng.random() < 0.4:
        ts_un, r_un, _ = place_truncation(rng, sig_un)
    weight = None
    zpk = None
    if route == 'meta':
        z, p, g, disc, dt = rng.choice(TRUNC_ZPK)
        zpk = (list(z), list(p), g, disc, dt)
        ssd = scipy.signal.ZerosPolesGain(np.array(z, dtype=float), np.array(p, dtype=float), g).to_ss().to_discrete(dt, method=disc)
        weight = (wk, ssd.A, ssd.B, ssd.C, ssd.D)
    elif wk is not None:
        if rng.random() < 0.5:
            ssd = scipy.signal.ZerosPolesGain([-0.5], [-3.0], 1.0).to_ss().to_discrete(0.5, method='bilinear')
            weight = (wk, ssd.A, ssd.B, ssd.C, ssd.D)
        else:
            weight = (wk, np.diag([0.6, -0.3]), np.array([[0.3], [0.2]]), np.array([[2.0, -3.0]]), np.array([[0.5]]))
    args = dict(alpha=rng.choice([0.5, 1, 5]), ratio=rng.choice([0.5, 1]), max_iter=rng.choice([1, 2, 4]),
                square_norm=rng.random() < 0.3, tsvd_shifted=ts_sh, tsvd_unshifted=ts_un, solver_params=dict(lc.SOLVER))
    case.update(alpha=args['alpha'], ratio=args['ratio'], max_iter=args['max_iter'], square_norm=bool(args['square_norm']),
                tsvd_shifted=[ts_sh.truncation, ts_sh.truncation_param], retained_shifted=int(r_sh),
                tsvd_unshifted=None if ts_un is None else [ts_un.truncation, ts_un.truncation_param],
                retained_unshifted=int(r_un), p=int(un.shape[1]), zpk=zpk)
    try:
        if route == 'direct':
            reg = lmi.LmiDmdcHinfReg(weight=weight, **args)
            reg.fit(X, **kw)
            inner = reg
        elif route == 'pipeline':
            reg = lmi.LmiDmdcHinfReg(weight=weight, **args)
            pipe = pykoop.KoopmanPipeline(lifting_functions=lifting, regressor=reg)
            pipe.fit(X, **kw)
            inner = pipe.regressor_
        else:
            est = lmi.LmiHinfZpkMeta(hinf_regressor=lmi.LmiDmdcHinfReg(**args), type=wk, zeros=zpk[0], poles=zpk[1], gain=zpk[2],
                                     discretization=zpk[3], t_step=zpk[4], units='rad/s')
            est.fit(X, **kw)
            inner = est.hinf_regressor_
            if not np.array_equal(est.coef_, inner.coef_):
                return 'LmiHinfZpkMeta.coef_ differs from the wrapped regressor', case, None
    except Exception as ex:
        return None, case, 'fit did not complete: ' + type(ex).__name__
    coef = np.asarray(inner.coef_, dtype=float)
    name = {'direct': 'LmiDmdcHinfReg', 'pipeline': 'KoopmanPipeline(LmiDmdcHinfReg)', 'meta': 'LmiHinfZpkMeta(LmiDmdcHinfReg)'}[route]
    name += f' with tsvd_shifted={ts_sh.truncation}:{ts_sh.truncation_param:g} keeping {r_sh} of {pt} lifted states'
    if coef.shape != (un.shape[1], pt):
        return f'{name}: coef_ has shape {coef.shape}, expected {(un.shape[1], pt)}', case, None
    if not np.all(np.isfinite(coef)):
        return f'{name}: coef_ is not finite', case, None
    if not np.any(coef):
        return None, case, inner.stop_reason_
    U = coef.T
    Am, Bm = U[:, :pt], U[:, pt:]
    rad_plant = np.max(np.abs(np.linalg.eigvals(Am)))
    if rad_plant >= 1 - 1e-9:
        return f'{name}: the returned Koopman matrix is not asymptotically stable (spectral radius {rad_plant:.9f})', case, None
    A, B, C, D = series_with_weight(Am, Bm, weight)
    rad = np.max(np.abs(np.linalg.eigvals(A)))
    if rad >= 1 - 1e-9:
        return f'{name}: the weighted cascade is not asymptotically stable (spectral radius {rad:.9f})', case, None
    norm = hinf_norm(A, B, C, D, 2000)
    gamma = float(np.ravel(inner.gamma_)[0])
    if norm > gamma * (1 + 1e-4) + 1e-7:
        return f'{name}: true H-infinity norm {norm:.6f} exceeds the reported gamma_ {gamma:.6f}', case, None
    log = inner.objective_log_
    for a, b in zip(log, log[1:]):
        if b > a + 1e-4 * max(1.0, abs(a)):
            return f'{name}: logged objective increases from {a} to {b}', case, None
    return None, case, inner.stop_reason_


# ----------------------------------------------------------------------------- a completed fit AFTER a fit that raised

class _Timeout(BaseException):
    pass


class time_limit:
    """wall-clock limit for one call into the implementation (main thread only; elsewhere a no-op)"""

    def __init__(self, seconds):
        self.seconds = seconds
        self.armed = False

    def _raise(self, signum, frame):
        raise _Timeout()

    def __enter__(self):
        import signal
        import threading
        if threading.current_thread() is threading.main_thread() and hasattr(signal, 'SIGALRM'):
            self.old = signal.signal(signal.SIGALRM, self._raise)
            signal.alarm(self.seconds)
            self.armed = True
        return self

    def __exit__(self, *a):
        if self.armed:
            import signal
            signal.alarm(0)
            signal.signal(signal.SIGALRM, self.old)
        return False


# continuous-time SISO filters (zeros, poles) of order one and two: low-pass, lead / lag, high-pass (zero at the origin)
AF_SHAPES = {1: [([], [-4.0]), ([0.0], [-4.0]), ([-0.5], [-3.0]), ([-1.0], [-4.0]), ([0.0], [-2.0]), ([-6.0], [-2.0])],
             2: [([0.0], [-2.0, -5.0]), ([-1.0], [-3.0, -6.0]), ([0.0, -1.0], [-2.0, -5.0]), ([], [-3.0, -4.0])]}
AF_GAINS = [0.05, 0.2, 1.0, 5.0]
AF_MODES = ['alpha zero', 'alpha negative', 'unknown solver', 'unknown solver option', 'weight C of the wrong width',
            'weight B of the wrong height', 'weight with a NaN', 'solver raises in a later call']
AF_ROUTES = ['edmd', 'dmdc', 'meta-edmd', 'meta-dmdc']


def af_zpk(rng, order, avoid=None, gain=None):
    """a stable filter as (zeros, poles, gain, discretisation, t_step), different from avoid"""
    while True:
        z, p = rng.choice(AF_SHAPES[order])
        spec = (list(z), list(p), rng.choice(AF_GAINS) if gain is None else gain, rng.choice(['bilinear', 'zoh']),
                rng.choice([0.1, 0.25, 0.5]))
        if avoid is None or spec[:3] != avoid[:3]:
            return spec


def af_weight(kind, spec, route='meta'):
    """the discretised state-space weight of a zpk spec (scipy; units rad/s), as LmiHinfZpkMeta is documented to build it.
    Given directly to a regressor, a second-order filter is handed over in modal coordinates with a small input matrix (the
    same filter; unlike the companion form it is usually feasible with the initial P = I)"""
    z, p, g, disc, dt = spec
    ssd = scipy.signal.ZerosPolesGain(np.array(z, dtype=float), np.array(p, dtype=float), g).to_ss().to_discrete(dt, method=disc)
    A, B, C, D = np.array(ssd.A), np.array(ssd.B), np.array(ssd.C), np.array(ssd.D)
    if A.shape[0] > 1 and not route.startswith('meta'):
        lam, V = np.linalg.eig(A)
        if np.all(np.isreal(lam)) and np.linalg.cond(V) < 1e6:
            V = np.real(V)
            Bm = np.linalg.solve(V, B)
            sc = 0.3 / max(np.linalg.norm(Bm), 1e-12)
            A, B, C = np.diag(np.real(lam)), Bm * sc, (C @ V) / sc
    return (kind, A, B, C, D)


def af_make(route, kind, spec, args):
    """a NEW estimator instance on the given route with the weight of spec (kind None: no weight); returns (estimator,
    function giving the fitted inner regressor)"""
    cls = lmi.LmiDmdcHinfReg if route.endswith('dmdc') else lmi.LmiEdmdHinfReg
    if kind is None:
        return cls(weight=None, **args), (lambda e: e)
    if route.startswith('meta'):
        est = lmi.LmiHinfZpkMeta(hinf_regressor=cls(**args), type=kind, zeros=spec[0], poles=spec[1], gain=spec[2],
                                 discretization=spec[3], t_step=spec[4], units='rad/s')
        return est, (lambda e: e.hinf_regressor_)
    return cls(weight=af_weight(kind, spec, route), **args), (lambda e: e)


def af_judge(name, inner, weight, pt):
    """the property on one completed fit, from its returned Koopman matrix and the weight IT was given"""
    coef = np.asarray(inner.coef_, dtype=float)
    if not np.all(np.isfinite(coef)):
        return f'{name}: coef_ is not finite'
    if not np.any(coef):
        return None
    U = coef.T
    A, B, C, D = series_with_weight(U[:, :pt], U[:, pt:], weight)
    rad = np.max(np.abs(np.linalg.eigvals(A)))
    if rad >= 1 - 1e-9:
        return f'{name}: identified (weighted) system is not asymptotically stable (spectral radius {rad:.9f})'
    norm = hinf_norm(A, B, C, D, 1500)
    gamma = float(np.ravel(inner.gamma_)[0])
    if norm > gamma * (1 + 1e-4) + 1e-7:
        return (f'{name}: true H-infinity norm {norm:.6f} of the identified system in series with the weight it was given '
                f'exceeds the reported gamma_ {gamma:.6f}')
    log = inner.objective_log_
    for a, b in zip(log, log[1:]):
        if b > a + 1e-4 * max(1.0, abs(a)):
            return f'{name}: logged objective increases from {a} to {b}'
    return None


def oracle_after_failure(ctx, thorough, forced=None):
    """Exception safety: a weighted H-infinity fit that RAISES after it has started (rejected alpha, a weight whose matrices do
    not fit together or hold a NaN, a solver that refuses its options or raises in a later call), followed by a VALID fit of
    ANOTHER estimator instance with a different weight (mostly of the same kind and order, and on data of the same sizes). The
    later fit is judged on its own: stability, independently computed H-infinity norm of the cascade with the weight IT was
    given vs gamma_, monotone log; and it must return what the same fit returned BEFORE the failing call (the reference is
    fitted first, in a state no failed fit has touched). forced = (failure mode, weight kind, failing route, later route)"""
    import picos
    rng = ctx.rng
    snap = ctx.snap()
    mode, kind, r1, r2 = rng.choice(AF_MODES), rng.choice(['pre', 'post']), rng.choice(AF_ROUTES), rng.choice(AF_ROUTES)
    if forced is not None:
        mode, kind, r1, r2 = forced
    order = rng.choice([1, 1, 2])
    nx, nu = rng.randint(1, 3 if order == 1 else 2), rng.randint(1, 2)      # (replicated second-order weights: keep the LMI small)
    X, kw, _, _ = lc.lin_data(rng, nx, nu, radius=rng.choice([0.6, 0.9]), noise=0.02, n_min=20)
    # the failing fit: mostly on other data of the same sizes, sometimes on the same data or on data of other sizes
    u = rng.random()
    if u < 0.25:
        X1, kw1, same = X, kw, 'same data'
    elif u < 0.85:
        X1, kw1, _, _ = lc.lin_data(rng, nx, nu, radius=0.8, noise=0.02, n_min=14)
        same = 'same sizes'
    else:
        X1, kw1, _, _ = lc.lin_data(rng, rng.randint(1, 3), rng.randint(1, 2), radius=0.8, noise=0.02, n_min=14)
        same = 'any sizes'
    spec1 = af_zpk(rng, order)
    # the later fit: another filter; half of the time with a much larger gain than the one of the failed fit (a bound that
    # was computed for the earlier weight is then far too small)
    u = rng.random()
    kind2, order2 = kind, order
    if u < 0.1:
        kind2 = None
    elif u < 0.2:
        kind2 = 'pre' if kind == 'post' else 'post'
    elif u < 0.3:
        order2 = 3 - order
    if rng.random() < 0.5:
        spec1 = spec1[:2] + (rng.choice([0.05, 0.2]),) + spec1[3:]
        spec2 = af_zpk(rng, order2, avoid=spec1, gain=rng.choice([1.0, 5.0]))
    else:
        spec2 = af_zpk(rng, order2, avoid=spec1)
    weight2 = None if kind2 is None else af_weight(kind2, spec2, r2)
    args2 = dict(alpha=rng.choice([1, 5, 100]), ratio=rng.choice([0.5, 1, 1]), max_iter=rng.choice([2, 4, 6]),
                 square_norm=rng.random() < 0.2, solver_params=dict(lc.SOLVER))
    args1 = dict(alpha=rng.choice([0.5, 1, 5]), ratio=rng.choice([0.5, 1]), max_iter=rng.choice([2, 4]),
                 solver_params=dict(lc.SOLVER))
    bad_weight = None
    w1 = af_weight(kind, spec1, r1)
    n1 = w1[1].shape[0]
    fail_at = None
    if mode == 'alpha zero':
        args1['alpha'] = 0
    elif mode == 'alpha negative':
        args1['alpha'] = -rng.choice([0.5, 1, 2])
    elif mode == 'unknown solver':
        args1['solver_params'] = {'solver': 'no_such_solver'}
    elif mode == 'unknown solver option':
        args1['solver_params'] = dict(lc.SOLVER, no_such_option=1)
    elif mode == 'weight C of the wrong width':
        bad_weight = (kind, w1[1], w1[2], np.hstack((w1[3], np.ones((1, 1)))), w1[4])
    elif mode == 'weight B of the wrong height':
        bad_weight = (kind, w1[1], np.vstack((w1[2], np.ones((1, 1)))), w1[3], w1[4])
    elif mode == 'weight with a NaN':
        Cn = np.array(w1[3], dtype=float)
        Cn[0, rng.randrange(n1)] = np.nan
        bad_weight = (kind, w1[1], w1[2], Cn, w1[4])
    else:
        fail_at = rng.randint(1, 2 * args1['max_iter'])
    case = {'oracle': 'after_failure', 'family': r2, 'weight': kind2, 'failure': mode, 'failing_route': r1, 'failing_weight': kind,
            'failing_data': same, 'nx': nx, 'nu': nu, 'zpk_failing': list(spec1), 'zpk': list(spec2), 'order': [order, order2],
            'alpha': args2['alpha'], 'ratio': args2['ratio'], 'max_iter': args2['max_iter'], 'square_norm': bool(args2['square_norm']),
            'X': X.tolist(), 'X_failing': X1.tolist(),
            'replay': {'oracle': 'after_failure', 'rng': snap, 'thorough': thorough, 'forced': forced}}
    name = {'edmd': 'LmiEdmdHinfReg', 'dmdc': 'LmiDmdcHinfReg', 'meta-edmd': 'LmiHinfZpkMeta(LmiEdmdHinfReg)',
            'meta-dmdc': 'LmiHinfZpkMeta(LmiDmdcHinfReg)'}[r2]
    if kind2 is None:
        name = name.replace('LmiHinfZpkMeta(', '').replace(')', '')

    def valid_fit():
        est, get = af_make(r2, kind2, spec2, args2)
        est.fit(X, **kw)
        inner = get(est)
        if kind2 is not None and r2.startswith('meta'):
            w = inner.weight
            if w[0] != kind2 or not all(np.allclose(a, b, rtol=1e-12, atol=1e-14) for a, b in zip(w[1:], weight2[1:])):
                return inner, 'the weight handed to the wrapped regressor is not the discretised zpk filter'
        return inner, None
    # 1. the reference: the valid fit in a state that no failed fit has touched
    try:
        ref, bad = valid_fit()
    except Exception as ex:
        return None, case, 'reference fit did not complete: ' + type(ex).__name__
    if bad:
        return f'{name}: {bad}', case, None
    why = af_judge(name + ' (fresh)', ref, weight2, nx)
    if why:
        return why, case, None
    ref_out = (np.array(ref.coef_, dtype=float), float(np.ravel(ref.gamma_)[0]), int(ref.n_iter_), [float(v) for v in ref.objective_log_],
               str(ref.stop_reason_))
    # 2. a fit that raises after it has started
    raised = None
    orig_solve = picos.Problem.solve
    try:
        if fail_at is not None:
            calls = [0]

            def scripted(self, *a, **k):
                calls[0] += 1
                if calls[0] >= fail_at:
                    raise RuntimeError('solver failure (scripted by the harness)')
                return orig_solve(self, *a, **k)
            picos.Problem.solve = scripted
        if bad_weight is not None:
            cls1 = lmi.LmiDmdcHinfReg if r1.endswith('dmdc') else lmi.LmiEdmdHinfReg
            est1 = cls1(weight=bad_weight, **args1)        # (the meta-estimator cannot express a malformed weight)
        else:
            est1, _ = af_make(r1, kind, spec1, args1)
        try:
            est1.fit(X1, **kw1)
        except Exception as ex:
            raised = type(ex).__name__
    finally:
        picos.Problem.solve = orig_solve
    case['failing_fit_raised'] = raised
    # 3. the same valid fit again, with a new estimator instance
    try:
        est, bad = valid_fit()
    except Exception as ex:
        return (f'{name}: a valid fit raises {type(ex).__name__} ({str(ex)[:120]}) after a fit of another estimator failed '
                f'({mode}: {raised}); the same fit completed before the failing call'), case, None
    if bad:
        return f'{name}: {bad}', case, None
    note = 'failing fit raised' if raised else 'failing fit did not raise'
    why = af_judge(name + f' fitted after a fit of another estimator failed ({mode}: {raised})', est, weight2, nx)
    if why:
        return why, case, None
    coef = np.asarray(est.coef_, dtype=float)
    tol = 1e-6 * (1.0 + float(np.max(np.abs(ref_out[0]))))
    if coef.shape != ref_out[0].shape or not np.allclose(coef, ref_out[0], rtol=0, atol=tol):
        d = float(np.max(np.abs(coef - ref_out[0]))) if coef.shape == ref_out[0].shape else float('nan')
        return (f'{name}: coef_ of a valid fit differs by {d:.3e} from the same fit before a fit of another estimator failed '
                f'({mode}: {raised})'), case, None
    g = float(np.ravel(est.gamma_)[0])
    if abs(g - ref_out[1]) > 1e-6 * (1.0 + abs(ref_out[1])):
        return (f'{name}: gamma_ of a valid fit is {g:.9g}, the same fit before a fit of another estimator failed '
                f'({mode}: {raised}) gave {ref_out[1]:.9g}'), case, None
    log = [float(v) for v in est.objective_log_]
    if int(est.n_iter_) != ref_out[2] or len(log) != len(ref_out[3]) or \
            any(abs(a - b) > 1e-6 * (1.0 + abs(b)) for a, b in zip(log, ref_out[3])):
        return (f'{name}: iteration count / objective log of a valid fit ({int(est.n_iter_)}, {log}) differ from the same fit before a '
                f'fit of another estimator failed ({ref_out[2]}, {ref_out[3]})'), case, None
    return None, case, note + ('; ' + ref_out[4][:40] if not np.any(coef) else '')


def meta_case(ctx, form=None, unit=None):
    """LmiHinfZpkMeta: the weight handed to the wrapped regressor is the discretised state-space form of the zpk filter
    after the unit conversion; the fitted cascade obeys the gamma_ bound"""
    rng = ctx.rng
    units = rng.choice(['rad/s', 'hz', 'normalized'])
    if unit is not None:
        units = ['rad/s', 'hz', 'normalized'][unit % 3]      # swept together with the argument forms
    t_step = rng.choice([0.1, 0.5, 1.0])
    kind = rng.choice(['pre', 'post'])
    disc = rng.choice(['bilinear', 'zoh', 'backward_diff'])
    gain = rng.choice([1.0, 2.0, 0.5])
    sc = 1 / 8 if units == 'normalized' else 1.0
    # the documented argument forms: None (no zeros / poles), a scalar, a sequence, an ndarray; zeros AT the origin
    # (high-pass weights, the documented example uses zeros=-0), repeated and complex-conjugate values
    forms = [
        ([-0.2], [-1.0]), ([-0.5], [-2.0]), (-0.5, -2.0), (None, -1.0), (None, [-1.0, -2.0]), ([], [-1.0]),
        (0, -1.0), (-0.0, -2.0), ([0.0], [-1.0]), ([0, 0], [-1.0, -2.0]), ([0.0, -0.5], [-1.0, -2.0]),
        (np.array([-0.5]), np.array([-1.0, -2.0])), (np.array([0.0]), np.array([-2.0])),
        ([-0.25 + 0.5j, -0.25 - 0.5j], [-1.0 + 1.0j, -1.0 - 1.0j]), (0.0, [-0.5 + 1.0j, -0.5 - 1.0j]),
    ]
    zp = forms[form % len(forms)] if form is not None else rng.choice(forms)

    def scaled(v):
        if v is None:
            return None
        if isinstance(v, np.ndarray):
            return v * sc
        if isinstance(v, list):
            return [x * sc for x in v]
        return v * sc
    z_in, p_in = scaled(zp[0]), scaled(zp[1])

    def as_list(v):          # independent reading of the documented forms
        if v is None:
            return []
        if isinstance(v, (list, tuple, np.ndarray)):
            return [complex(x) for x in v]
        return [complex(v)]
    z_ref, p_ref = as_list(z_in), as_list(p_in)
    X, kw, _, _ = lc.lin_data(rng, 2, 1, radius=0.7, noise=0.02)
    inner = lmi.LmiEdmdHinfReg(alpha=1, ratio=1, max_iter=2, solver_params=dict(lc.SOLVER))
    est = lmi.LmiHinfZpkMeta(hinf_regressor=inner, type=kind, zeros=z_in, poles=p_in, gain=gain, discretization=disc,
                             t_step=t_step, units=units)
    tag = {'units': units, 't_step': t_step, 'type': kind, 'discretization': disc, 'zeros': repr(z_in), 'poles': repr(p_in),
           'gain': gain}
    try:
        est.fit(X, **kw)
    except Exception as ex:
        return None, tag, 'fit did not complete: ' + type(ex).__name__
    f = {'rad/s': 1.0, 'hz': 2 * np.pi, 'normalized': np.pi / t_step}[units]
    ss = scipy.signal.ZerosPolesGain(f * np.array(z_ref), f * np.array(p_ref), gain).to_ss().to_discrete(t_step, disc)
    w = est.hinf_regressor_.weight
    if w[0] != kind or not all(np.allclose(a, b, rtol=1e-12, atol=1e-14) for a, b in zip(w[1:], (ss.A, ss.B, ss.C, ss.D))):
        return ('LmiHinfZpkMeta: the weight handed to the wrapped regressor is not the discretised zpk filter after the unit '
                f'conversion ({units}; zeros={z_in!r}, poles={p_in!r}, gain={gain})', tag, None)
    if not np.array_equal(est.coef_, est.hinf_regressor_.coef_):
        return 'LmiHinfZpkMeta.coef_ differs from the wrapped regressor', tag, None
    return None, tag, None


def run(ctx):
    ctx.rule = ('(i) the real _create_problem_a of LmiEdmdHinfReg (no weight / pre / post first-order filters) and '
                '_create_ss evaluated with PICOS at dyadic points vs the Lean blocks over Q (1e-12); (ii) scripted-solver '
                'loop correspondence; (iii) cvxopt fits of both families with and without weights: stability and an '
                'independently computed H-infinity norm (dense frequency sweep + refinement) vs gamma_; (iv) G(z)u at rational points of '
                'the unit circle: exact rational solve in the Lean driver (hypotheses of brl_freq_real checked on the solution) vs complex '
                'arithmetic, KoopmanRegressor.frequency_response and the H-infinity oracle; (v) LmiDmdcHinfReg with a tsvd_shifted '
                '(rank below the number of lifted states, or a cutoff placed between two singular values computed here from own '
                'snapshot matrices; sometimes a truncated tsvd_unshifted too) fitted directly, as the regressor of a KoopmanPipeline '
                '(plain / delay / polynomial lifting) and inside LmiHinfZpkMeta, no / pre / post weight: the RETURNED Koopman matrix '
                'over all lifted states and its own series connection with the weight have every |eig| < 1 - 1e-9, the independent '
                'H-infinity norm stays below gamma_, the log is monotone; (vi) exception safety / state shared between fits: a '
                'weighted fit (either family, directly or inside LmiHinfZpkMeta) that RAISES after it has started - alpha zero or '
                'negative, an unknown solver or solver option, a weight whose B / C do not fit or that holds a NaN, a solver that '
                'raises in a later call - followed by a valid fit of ANOTHER estimator instance with a different zpk weight (mostly '
                'same kind, order and data sizes; sometimes another kind / order / no weight): the later fit is stable and the '
                'independent H-infinity norm of its cascade with the weight IT was given stays below its gamma_, it does not raise, '
                'and its coef_ / gamma_ / n_iter_ / objective log equal (1e-6) those of the same fit made BEFORE the failing call')
    ctx.explanation = ('theorems C10_* (bounded-real core, dissipation, l2-gain over every horizon with no side condition, '
                       'stability from the 2x2 sub-block via C09, frequency-domain bound |G(z)u| <= gamma|u| on the whole unit circle: C10_hinf_norm); correspondence of LMI structure, series connection and '
                       'loop; oracle: norm <= gamma_(1+1e-4), stability, monotone log - on full and on really truncated DMDc bases (C10_dmdc_lift: '
                       'from rest the state of the returned model Q A_hat Q^T is Q times the reduced state; the oracle measures the '
                       'spectrum of the returned matrix itself), on every route that returns coef_; the theorems speak about ONE fit, so '
                       'the same oracle is also applied to a completed fit that follows a fit which raised part-way (nothing a failed fit '
                       'leaves behind may enter a later problem: the later fit is compared with the identical fit made before the failure)')
    ctx.assumptions = ["an 'optimal' solver answer satisfies its constraints up to tolerance (measured by the oracle)",
                       'scipy zpk -> state space and discretisation in LmiHinfZpkMeta: trusted']
    ctx.proof_obligations('Properties.C10', THEOREMS)
    drv = ctx.get_driver()
    def _sec_problem_structure():
        la_lines, la_meta = [], []
        forced_struct = [(wk, order, nx, nu) for wk in ('pre', 'post') for order in (1, 2) for nx in (1, 2) for nu in (1, 2)] \
            + [(None, None, 2, 1)]
        for i in range(ctx.n(25, 300) + len(forced_struct)):
            items, tag = structure_case(ctx, forced_struct[i] if i < len(forced_struct) else None)
            for line, impl, what in items:
                la_lines.append(line)
                la_meta.append((impl, what, tag))
        forced_dmdc = [(wk, order) for wk in ('pre', 'post') for order in (1, 2)] + [(None, None)]
        for i in range(ctx.n(10, 120) + len(forced_dmdc)):
            items, tag = dmdc_structure_case(ctx, forced_dmdc[i] if i < len(forced_dmdc) else None)
            for line, impl, what in items:
                la_lines.append(line)
                la_meta.append((impl, what, tag))
        for (impl, what, tag), rep in zip(la_meta, lc.la_ask(la_lines)):
            ctx.count('structure:' + what)
            ctx.record_case(dict(tag, part=what), True)
            parts = rep.split(' | ')
            mats = [lc.parse_mat(('ok ' + p) if not p.startswith('ok') else p) for p in parts]
            ok = len(mats) == len(impl) and all(M is not None and M.shape == I.shape and np.allclose(M, I, rtol=1e-12, atol=1e-12)
                                                for M, I in zip(mats, impl))
            if not ok:
                ctx.mismatch(f'{what}', tag, [I.tolist() for I in impl], [None if M is None else M.tolist() for M in mats])
    ctx.attempt('problem structure', _sec_problem_structure)
    def _sec_scripted_loop():
        lines, meta = [], []
        for i in range(ctx.n(30, 400)):
            nx, nu = ctx.rng.randint(1, 2), 1
            X, kw, _, _ = lc.lin_data(ctx.rng, nx, nu)
            mk = lambda **k: lmi.LmiEdmdHinfReg(alpha=1, ratio=1, solver_params=dict(lc.SOLVER), **k)
            reg, script, rows, line = lc.check_loop(ctx, mk, X, kw, (nx, nx + nu), (nx, nx), None, None)
            lines.append(line)
            meta.append((reg, script, rows))
        for (reg, script, rows), rep in zip(meta, drv.ask(lines)):
            t = rep.split()
            case = {'rows': [[a, str(o), b] for a, o, b in rows], 'stop_at': script.stop_at, 'max_iter': reg.max_iter}
            ctx.record_case(case, True)
            ctx.count('loop')
            ui, pi, stop, n_iter, nlog = int(t[1]), int(t[2]), t[3], int(t[4]), int(t[5])
            log = [float(Fraction(x)) for x in t[6:6 + nlog]]
            obs = {'stop': lc.stop_category(reg.stop_reason_), 'n_iter': int(reg.n_iter_), 'log': [float(x) for x in reg.objective_log_]}
            if obs != {'stop': stop, 'n_iter': n_iter, 'log': log}:
                ctx.mismatch('loop outcome', case, obs, rep)
            wantU = np.zeros_like(script.a[0][1]) if ui < 0 else script.a[ui][1]
            if not np.array_equal(reg.coef_.T, wantU):
                ctx.mismatch('returned U', case, reg.coef_.T.tolist(), [ui])
    ctx.attempt('scripted loop', _sec_scripted_loop)
    def _sec_frequency_response():
        """the object of C10_hinf_norm - G(z)u for a point z of the unit circle - computed EXACTLY by the Lean driver (rational
        solve of the real form of z x = A x + B u, with the hypotheses of brl_freq_real checked on the solution) vs numpy's
        complex arithmetic, vs KoopmanRegressor.frequency_response at the same frequency, and vs the independent H-infinity
        oracle used on the fits (which must dominate every point)"""
        circle = [(Fraction(3, 5), Fraction(4, 5)), (Fraction(5, 13), Fraction(12, 13)), (Fraction(-7, 25), Fraction(24, 25)),
                  (Fraction(0), Fraction(1)), (Fraction(-1), Fraction(0)), (Fraction(1), Fraction(0)), (Fraction(-3, 5), Fraction(4, 5)),
                  (Fraction(8, 17), Fraction(15, 17))]
        lines, meta = [], []
        for i in range(ctx.n(24, 300)):
            n, m = ctx.rng.randint(1, 3), ctx.rng.randint(1, 2)
            A = lc.dyadic(ctx.rng, (n, n), lo=-1, hi=1, den=8)
            if np.max(np.abs(np.linalg.eigvals(A))) > 0.9:
                A = A / 2
            B = lc.dyadic(ctx.rng, (n, m), lo=-2, hi=2)
            c, s_ = circle[i % len(circle)]
            for j in range(m):
                e = [1 if t == j else 0 for t in range(m)]
                lines.append(f"freq {n} {m} {n} {lc.fr(c)} {lc.fr(s_)} {lc.mat_tok(A)} {lc.mat_tok(B)} {lc.mat_tok(np.eye(n))} "
                             f"{lc.mat_tok(np.zeros((n, m)))} {' '.join(str(v) for v in e)} {' '.join('0' for _ in e)}")
            meta.append((A, B, c, s_, m))
        reps = iter(lc.la_ask(lines))
        for A, B, c, s_, m in meta:
            n = A.shape[0]
            case = {'A': A.tolist(), 'B': B.tolist(), 'z': [str(c), str(s_)]}
            ctx.count('frequency response')
            ctx.record_case(case, True)
            cols = []
            for j in range(m):
                t = next(reps).split()
                if t[0] != 'ok':
                    cols = None
                    continue
                k = int(t[1])
                v = [float(Fraction(x)) for x in t[2:2 + 2 * k]]
                if cols is not None:
                    cols.append(np.array(v[:k]) + 1j * np.array(v[k:]))
            z = float(c) + 1j * float(s_)
            Gn = np.linalg.solve(z * np.eye(n) - A, B)
            if cols is None:
                ctx.mismatch('frequency response: the model says z I - A is singular', case, Gn.tolist(), None)
                continue
            G = np.array(cols).T
            if not np.allclose(G, Gn, rtol=1e-10, atol=1e-12):
                ctx.mismatch('G(z) of the Lean model differs from complex arithmetic', case, Gn.tolist(), G.tolist())
                continue
            sig = np.linalg.svd(G, compute_uv=False)[0]
            reg = pykoop.DataRegressor(coef=np.hstack((A, B)).T)
            reg.fit(np.zeros((3, n + m)), n_inputs=m, episode_feature=False)
            f = float(np.arctan2(float(s_), float(c)) / (2 * np.pi))
            fp, mag = reg.frequency_response(t_step=1.0, f_min=f, f_max=f, n_points=1, decibels=False)
            fp2, mag_db = reg.frequency_response(t_step=1.0, f_min=f, f_max=f, n_points=1, decibels=True)
            if abs(mag[0] - sig) > 1e-9 * max(1.0, sig) or (sig > 0 and abs(mag_db[0] - 20 * np.log10(sig)) > 1e-7):
                ctx.mismatch('frequency_response differs from the largest singular value of the model\'s G(z)', case,
                             [float(mag[0]), float(mag_db[0])], [float(sig)])
            if np.max(np.abs(np.linalg.eigvals(A))) < 1 and hinf_norm(A, B, np.eye(n), np.zeros((n, m)), 800) < sig * (1 - 1e-6):
                ctx.mismatch('the H-infinity oracle is below the gain at a point of the unit circle', case, None, [float(sig)])
    ctx.attempt('frequency response', _sec_frequency_response)
    sweeps = [('post', fam) for fam in ('edmd', 'dmdc') for _ in range(4)] + [('pre', 'edmd'), ('pre', 'dmdc')]   # second-order weights, two states
    sweeps += [(None, 'edmd', None, 'square'), (None, 'dmdc', None, 'square'), ('post', 'dmdc', None, 'square')]
    for i in range(ctx.n(14, 250) + len(sweeps)):
        why, case, note = oracle_fit(ctx, ctx.tier == 'thorough', forced=sweeps[i] if i < len(sweeps) else None)
        ctx.count('fit:' + case['family'] + '/' + str(case['weight']))
        if why:
            ctx.fail(why, case, {'family': case['family'], 'weight': case['weight']})
    # LmiDmdcHinfReg behind a shifted-data SVD that really drops directions: every route (direct / regressor of a pipeline,
    # also behind delay and polynomial lifting / wrapped in LmiHinfZpkMeta) x every weight kind x rank / cutoff truncation in
    # turn, then at random (with a truncated unshifted SVD in some of them)
    forced_tr = [(r, w, h) for r in ('direct', 'pipeline', 'meta') for w in (None, 'pre', 'post') for h in ('rank', 'cutoff')
                 if not (r == 'meta' and w is None)]

    def _one_truncated(i):
        why, case, note = oracle_trunc(ctx, ctx.tier == 'thorough', forced=forced_tr[i] if i < len(forced_tr) else None)
        tr = (case.get('tsvd_shifted') or ['none'])[0]
        ctx.count(f"truncated:{case['route']}/{case['weight']}/{tr}")
        if case.get('tsvd_unshifted'):
            ctx.count('truncated:unshifted SVD truncated as well')
        if case.get('lift') not in (None, 'none'):
            ctx.count('truncated:behind ' + case['lift'] + ' lifting')
        ctx.count('truncated:' + ('completed' if note and str(note).startswith('Reached') else 'verdict' if why else str(note)[:60]))
        ctx.record_case({k: v for k, v in case.items() if k not in ('X', 'replay')}, True)
        if why:
            ctx.fail(why, case, {'family': 'dmdc', 'weight': case['weight'], 'route': case['route'], 'truncated': True})
    for i in range(ctx.n(6, 150) + len(forced_tr)):
        ctx.attempt('truncated DMDc fit', lambda i=i: _one_truncated(i))
    # exception safety: a valid weighted fit of another estimator instance after a weighted fit that raised part-way; every
    # failure mode x weight kind x failing route x later route in turn, then at random
    forced_af = [(AF_MODES[i % len(AF_MODES)], ('post', 'pre')[(i // len(AF_MODES) + i) % 2], AF_ROUTES[i % 4],
                  AF_ROUTES[(i // 4 + i) % 4]) for i in range(32)]

    def _one_after_failure(i):
        try:
            with time_limit(120):
                why, case, note = oracle_after_failure(ctx, ctx.tier == 'thorough', forced=forced_af[i] if i < len(forced_af) else None)
        except _Timeout:
            ctx.count('after failed fit:timed out (not judged)')
            return
        ctx.count(f"after failed fit:{case['failure']}")
        ctx.count(f"after failed fit:{case['failing_route']} ({case['failing_weight']}) -> {case['family']} ({case['weight']})")
        ctx.count('after failed fit:' + ('verdict' if why else str(note)[:70]))
        ctx.record_case({k: v for k, v in case.items() if k not in ('X', 'X_failing', 'replay')}, True)
        if why:
            ctx.fail(why, case, {'family': case['family'], 'weight': case['weight'], 'after_failed_fit': case['failure']})
    for i in range(ctx.n(16, 240)):
        ctx.attempt('fit after a failed fit', lambda i=i: _one_after_failure(i))
    for i in range(ctx.n(15, 90)):
        why, tag, note = meta_case(ctx, form=i, unit=i + i // 15)      # every argument form x unit in turn, other options at random
        ctx.count('meta:' + tag['units'])
        if note:
            ctx.count('meta:' + note)
        ctx.record_case(tag, True)
        if why:
            ctx.fail(why, tag, {'estimator': 'LmiHinfZpkMeta', 'units': tag['units']})

    def search(ctx):
        """the structure / loop correspondence broke: more tight-gamma fits with second-order weights of the kinds whose
        structure disagreed (all kinds when the disagreement is elsewhere), several modal weights and both families"""
        kinds = sorted({str(m.case.get('weight')) for m in ctx.mismatches if isinstance(m.case, dict)}
                       & {'pre', 'post'}) or ['post', 'pre']
        variants = [([0.6, -0.3], [2.0, -3.0]), ([0.5, -0.5], [3.0, -2.0]), ([0.6, 0.2], [-1.0, 2.5]),
                    ([0.4, -0.6], [2.5, 1.5])]
        for i in range(48):
            forced = (kinds[i % len(kinds)], ('edmd', 'dmdc')[(i // len(kinds)) % 2], variants[(i // 4) % len(variants)])
            why, case, note = oracle_fit(ctx, False, forced=forced)
            if why:
                ctx.fail(why, case, {'family': case['family'], 'weight': case['weight']})
                return
    return ctx.finish('proof', search)


def replay(ctx, path):
    """re-execute the oracle call that produced the replay (same PRNG state, same forced arguments)"""
    obj = json.load(open(path))
    r = (obj.get('case') or {}).get('replay') if isinstance(obj.get('case'), dict) else None
    print(json.dumps({k: v for k, v in obj.items() if k != 'case'}, indent=1)[:1500])
    if not r:
        print('this replay carries no re-executable oracle call (broken proof / correspondence: see "broken")')
        return 1
    ctx.restore(r['rng'])
    if r.get('oracle') == 'after_failure':
        why, case, note = oracle_after_failure(ctx, r['thorough'], forced=None if r['forced'] is None else tuple(r['forced']))
        print('oracle now:', why or 'property holds on this input', '' if note is None else f'({note})')
        return 1 if why else 0
    if r.get('oracle') == 'trunc':
        why, case, note = oracle_trunc(ctx, r['thorough'], forced=None if r['forced'] is None else tuple(r['forced']))
        print('oracle now:', why or 'property holds on this input', '' if note is None else f'({note})')
        return 1 if why else 0
    why, case, note = oracle_fit(ctx, r['thorough'], forced=None if r['forced'] is None else tuple(tuple(x) if isinstance(x, list) and x and isinstance(x[0], list) else x for x in r['forced']))
    print('oracle now:', why or 'property holds on this input', '' if note is None else f'({note})')
    return 1 if why else 0
