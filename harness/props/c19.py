"""C19 - Output feature names describe the columns they label."""
import json
import math
import re

import numpy as np
import pandas

import pykoop
from .. import core, pipes, structural as st

THEOREMS = ['Pk.C19.C19_rowwise_names_are_transform', 'Pk.C19.C19_one_per_column', 'Pk.C19.C19_delay_names',
            'Pk.C19.C19_delay_values', 'Pk.C19.C19_symbols_only', 'Pk.C19.C19_episode_name',
            'Pk.C19.C19_given_names', 'Pk.C19.C19_denotation', 'Pk.C19.C19_rowwise_natural',
            'Pk.C19.C19_term_semantics', 'Pk.C19.C19_accepted_same_positions', 'Pk.C19.C19_different_names_rejected']
KINDS = ['poly', 'bilinear', 'const', 'delay', 'sk', 'angle', 'rbf', 'kernel']
ORACLE_KINDS = ['poly', 'bilinear', 'const', 'delay', 'delay', 'angle']


def sk_classes(spec, est):
    """id -> class name of wrapped transformers, ids as pipes.tokens assigns them"""
    _, reg = pipes.tokens(spec, est)
    return {i: type(e.transformer_).__name__ for i, e in reg.items() if hasattr(e, 'transformer_')
            and isinstance(e, pykoop.SkLearnLiftingFn)}


def subst(names, classes, latex):
    out = []
    for n in names:
        for i, cls in classes.items():
            n = n.replace(f'SK{i}(', (r'\mathrm{' + cls + '}(') if latex else cls + '(')
        out.append(n)
    return out


def multiplicative_depth(spec):
    k = spec['k']
    own = 1 if (k == 'bilinear' or (k == 'poly' and spec['order'] >= 2)) else 0
    if k == 'pipe':
        return sum(multiplicative_depth(s) for s in spec['ss'])
    if k == 'split':
        return max(sum(multiplicative_depth(s) for s in spec['a']), sum(multiplicative_depth(s) for s in spec['b']))
    return own


# ------------------------------------------------------------------ plaintext name evaluator (oracle)

TOKEN = re.compile(r'\s*(D\d+|cos|sin|[A-Za-z_][A-Za-z_0-9]*|\d+|\^|\*|\(|\)|,)')


class NameEval:
    def __init__(self, text, cols):
        self.toks = TOKEN.findall(text)
        if ''.join(self.toks) != text.replace(' ', ''):
            raise ValueError('cannot tokenise ' + text)
        self.i = 0
        self.cols = cols       # name -> function(t) -> value

    def peek(self):
        return self.toks[self.i] if self.i < len(self.toks) else None

    def eat(self, t=None):
        tok = self.peek()
        if t is not None and tok != t:
            raise ValueError(f'expected {t} got {tok}')
        self.i += 1
        return tok

    def expr(self):
        f = self.factor()
        fs = [f]
        while self.peek() == '*':
            self.eat('*')
            fs.append(self.factor())
        return lambda t: math.prod(g(t) for g in fs)

    def factor(self):
        a = self.atom()
        if self.peek() == '^':
            self.eat('^')
            p = int(self.eat())
            return lambda t: a(t) ** p
        return a

    def atom(self):
        tok = self.eat()
        if tok == '1':
            return lambda t: 1.0
        if tok in ('cos', 'sin'):
            self.eat('(')
            e = self.expr()
            self.eat(')')
            f = math.cos if tok == 'cos' else math.sin
            return lambda t: f(e(t))
        m = re.fullmatch(r'D(\d+)', tok)
        if m and self.peek() == '(':
            k = int(m.group(1))
            self.eat('(')
            e = self.expr()
            self.eat(')')
            return lambda t: e(t - k)
        if tok in self.cols:
            c = self.cols[tok]
            return lambda t: c(t)
        raise ValueError('unknown atom ' + tok)


def _oracle_names(case, est=None):
    """evaluate every plaintext output name on the input data (per episode, delays looking back in time) and
    compare with the lifted column it labels"""
    if multiplicative_depth(case['spec']) > 1 or not (pipes.kinds_in(case['spec']) <= set(ORACLE_KINDS) | {'pipe', 'split'}):
        return None
    try:
        if est is None:
            est = st.fit_case(case)
    except Exception:
        return None
    X = st.X_of(case)
    ep = case['ep']
    e = 1 if ep else 0
    Xt = est.transform(X)
    names_in = list(est.get_feature_names_in())
    names_out = list(est.get_feature_names_out())
    if len(names_out) != Xt.shape[1]:
        return f'{len(names_out)} names for {Xt.shape[1]} columns'
    if ep and names_out[0] != names_in[0]:
        return 'episode column name changed'
    # the episode_feature override only adds / removes the episode name; every other name still labels its column
    body = names_out[e:]
    for call in (True, False):
        try:
            nm = list(est.get_feature_names_out(episode_feature=call))
        except Exception as ex:
            return f'get_feature_names_out(episode_feature={call}) raised {type(ex).__name__}: {ex}'
        if (len(nm) != len(body) + (1 if call else 0)) or nm[(1 if call else 0):] != body:
            return (f'get_feature_names_out(episode_feature={call}) on an estimator fitted with episode_feature={ep}: the '
                    f'names {nm} do not label the lifted columns {body}')
        if call and not (nm[0] == 'ep' or (ep and nm[0] == names_in[0])):
            return f'episode name missing with episode_feature=True: {nm[:2]}'
    eps, eps_t = st.episodes(X, ep), st.episodes(Xt, ep)
    for l, Xe in eps.items():
        if l not in eps_t:
            continue
        T = eps_t[l]
        off = Xe.shape[0] - T.shape[0]
        cols = {names_in[e + j]: (lambda t, j=j: float(Xe[t, j])) for j in range(Xe.shape[1])}
        for c in range(T.shape[1]):
            try:
                f = NameEval(names_out[e + c], cols).expr()
            except ValueError as ex:
                return f'name {names_out[e + c]!r} is not an expression over the input names: {ex}'
            for r in (0, T.shape[0] - 1):
                v = f(r + off)
                if not math.isclose(v, T[r, c], rel_tol=1e-9, abs_tol=1e-12):
                    return (f'column {c} is named {names_out[e + c]!r} but evaluating that expression at episode {l}, '
                            f'time {r + off} gives {v!r}, the column holds {T[r, c]!r}')
    return None


def frame_order_probe(rng):
    """names captured from a DataFrame at fit time label columns BY NAME: a later DataFrame with the same names in another
    order must be rejected, or be consumed by name - never silently by position (the output names would then label the
    wrong columns)"""
    import pandas
    rs = np.random.RandomState(rng.randint(0, 2 ** 31 - 1))
    nx, nu = rng.randint(1, 3), rng.randint(0, 2)
    ep = rng.random() < 0.5
    n = 8
    cols = given_names(rng, nx + nu)
    data = rs.uniform(-1, 1, (n, nx + nu)) * np.arange(1, nx + nu + 1)
    names = (['episode'] if ep else []) + cols
    full = np.hstack((np.zeros((n, 1)), data)) if ep else data
    df = pandas.DataFrame(full, columns=names)
    kind = rng.choice(['poly', 'delay', 'pipeline', 'split'])
    if kind == 'poly':
        est = pykoop.PolynomialLiftingFn(order=2)
    elif kind == 'delay':
        est = pykoop.DelayLiftingFn(1, 1)
    elif kind == 'split':
        est = pykoop.SplitPipeline(lifting_functions_state=[('pl', pykoop.PolynomialLiftingFn(order=2))],
                                   lifting_functions_input=None)
    else:
        est = pykoop.KoopmanPipeline(lifting_functions=[('pl', pykoop.PolynomialLiftingFn(order=2)), ('dl', pykoop.DelayLiftingFn(1, 0))],
                                     regressor=pykoop.Edmd())
    est.fit(df, n_inputs=nu, episode_feature=ep)
    want = est.transform(df)
    perm = cols[:]
    for _ in range(10):
        rng.shuffle(perm)
        if perm != cols:
            break
    if perm == cols:
        return None, None
    dfp = df[(['episode'] if ep else []) + perm]
    tag = {'part': 'frame-order', 'estimator': kind}
    case = {'estimator': kind, 'fit_columns': names, 'call_columns': list(dfp.columns), 'n_inputs': nu, 'episode_feature': ep}
    try:
        got = est.transform(dfp)
    except Exception:
        return None, None          # rejected: fine
    if got.shape != want.shape or not np.allclose(got, want, rtol=1e-12, atol=0):
        names_out = list(est.get_feature_names_out())
        return (f'{type(est).__name__} fitted on columns {names} accepts a DataFrame with columns {list(dfp.columns)} and consumes it '
                f'by position: the output column named {names_out[1 if ep else 0]!r} holds the data of column '
                f'{dfp.columns[1 if ep else 0]!r}'), case, tag
    return None, None


def accept_cases(rng, n):
    """(estimator fitted on names A, on a frame without valid names, or on an array) x (called with a frame named B, a
    frame whose column names are not all strings, or a plain array): accepted or rejected?  observation on a real lifting
    function, model line for the driver"""
    import pandas
    out = []
    for _ in range(n):
        k = rng.randint(2, 4)
        data = np.arange(1.0, 1.0 + 5 * k).reshape(5, k)
        fit_names = given_names(rng, k) if rng.random() < 0.8 else None
        r = rng.random()
        call_kind = 'frame'
        if fit_names is None:
            call_names = given_names(rng, k) if r < 0.4 else None
            call_kind = 'frame' if r < 0.4 else ('array' if r < 0.7 else 'frame')
        elif r < 0.2:
            call_names = list(fit_names)
        elif r < 0.4:
            call_names = list(fit_names)
            rng.shuffle(call_names)
        elif r < 0.55:
            call_names, call_kind = None, 'array'
        elif r < 0.65:
            call_names = None                      # a frame whose column names are not all strings
        elif r < 0.8:
            call_names = [nm + '_x' if j == 0 else nm for j, nm in enumerate(fit_names)]
        else:
            call_names = given_names(rng, k)

        def mk(names, kind='frame'):
            if kind == 'array':
                return data
            if names is None:
                return pandas.DataFrame(data, columns=[7] + [f'c{j}' for j in range(1, k)])     # mixed names: none extracted
            return pandas.DataFrame(data, columns=names)
        fit_kind = 'frame' if (fit_names is not None or rng.random() < 0.5) else 'array'
        est = rng.choice([pykoop.PolynomialLiftingFn(order=2), pykoop.DelayLiftingFn(1, 0), pykoop.ConstantLiftingFn()])
        est.fit(mk(fit_names, fit_kind), n_inputs=0, episode_feature=False)
        try:
            est.transform(mk(call_names, call_kind))
            accepted = True
        except ValueError:
            accepted = False
        tok = lambda names: 'n' if names is None else f"{len(names)} " + ' '.join(names)
        ctok = 'a' if call_kind == 'array' else tok(call_names)
        out.append((f"accept {tok(fit_names)} {ctok}", accepted, {'fit_names': fit_names, 'fit_input': fit_kind, 'call_names': call_names,
                                                                  'call_input': call_kind, 'estimator': type(est).__name__}))
    return out


def given_names(rng, n):
    pool = ['alpha', 'beta', 'gamma', 'pos', 'vel', 'acc', 'tau', 'q', 'w', 'z']
    return rng.sample(pool, n)


# ------------------------------------------------------------------ names used verbatim inside composed names (oracle)
# The names that enter a stage - DataFrame columns, or the names an earlier stage generated - are arbitrary strings:
# 'cart pos', 'a*b', 'x^2', 'f(x, y)', 'D1(x0)', 'R_0(x, u)'.  A stage has to use them VERBATIM as the atoms of the
# expressions it composes, and the composed name still has to denote the column.  The reader below therefore does not
# tokenise: at an atom position it tries every input name as a literal prefix (blanks, '*', '^', commas, parentheses
# included) next to the constant / cos / sin / delay forms, keeps every possible reading, and a name is accepted when
# SOME reading of it reproduces the column (so an ambiguous name can never raise a false alarm).

SPECIAL_POOL = ['cart pos', 'cart vel', 'motor V', 'a*b', 'x^2', 'th^2 dot', 'f(x, y)', 'g(t)', 'D1(x0)', 'cos(th)',
                'sin (q)', 'q, w', '(p)', 'k 1', '2*pi t', 'x0', 'u0', 'x1', 'ep', 'R_0(x, u)', 'z_1(x, u)', 'v [m/s]',
                'i_d (A)', 'pos*', '^w', 'a b c', ' lead', 'trail ', 'x_{0}', '\\theta', 'D_{1}(y)', 'alpha', 'beta',
                'x 2^3', 'p*q r', 'y^{2}', 'w, (z)']
SPECIAL_CHARS = [' ', ' ', '*', '^', ',', '(', ')', '_', '{', '}', '.', '-', '+', '/', ':', '\\']
LETTERS = list('abcdkpqtuvwxyzDRT0123')


def special_names(rng, n, force=False):
    """n distinct column names, most of them with characters that the naming code might treat specially"""
    for _ in range(100):
        out = []
        for _j in range(n):
            if rng.random() < 0.65:
                nm = rng.choice(SPECIAL_POOL)
            else:
                nm = ''.join(rng.choice(SPECIAL_CHARS) if rng.random() < 0.35 else rng.choice(LETTERS)
                             for _k in range(rng.randint(1, 7)))
            out.append(nm)
        if force:
            # at least one blank and one of the other special characters somewhere among the non-episode names
            out[-1] = rng.choice([p for p in SPECIAL_POOL if ' ' in p])
            out[rng.randrange(n)] = rng.choice([p for p in SPECIAL_POOL if ' ' in p or '*' in p or '^' in p or '(' in p])
        if len(set(out)) == n and all(o.strip() for o in out):
            return out
    return [f'col {j}' for j in range(n)]


class Undecided(Exception):
    pass


class VerbatimReader:
    """all readings of `text` as  expr := factor (TIMES factor)* ; factor := atom [^k] ; atom := <an input name, verbatim>
    | 1 | cos(expr) | sin(expr) | Dk(expr)   in the plain-text or the LaTeX spelling.  A reading is a function
    (t, get) -> value where get(j, t) is input column j at time t of the episode."""

    def __init__(self, text, atoms, latex=False):
        self.s = text
        self.atoms = atoms            # [(name, column index)]
        self.latex = latex
        self.memo = {}
        self.made = 0
        self.times = ' ' if latex else '*'
        self.pow = re.compile(r'\^\{(\d+)\}' if latex else r'\^(\d+)')
        self.delay = re.compile(r'D_\{(\d+)\}\(' if latex else r'D(\d+)\(')
        self.trig = [('\\cos{(', ')}', math.cos), ('\\sin{(', ')}', math.sin)] if latex else \
                    [('cos(', ')', math.cos), ('sin(', ')', math.sin)]

    def _tick(self, n=1):
        self.made += n
        if self.made > 4000:
            raise Undecided()

    def readings(self):
        return [f for p, f in self.expr(0) if p == len(self.s)]

    def expr(self, pos):
        key = ('e', pos)
        if key not in self.memo:
            out = []
            for p1, f in self.factor(pos):
                out.append((p1, f))
                if self.s.startswith(self.times, p1):
                    for p2, g in self.expr(p1 + len(self.times)):
                        out.append((p2, lambda t, get, f=f, g=g: f(t, get) * g(t, get)))
                self._tick(len(out))
            self.memo[key] = out
        return self.memo[key]

    def factor(self, pos):
        out = []
        for p1, a in self.atom(pos):
            out.append((p1, a))
            m = self.pow.match(self.s, p1)
            if m:
                k = int(m.group(1))
                out.append((m.end(), lambda t, get, a=a, k=k: a(t, get) ** k))
        return out

    def atom(self, pos):
        key = ('a', pos)
        if key in self.memo:
            return self.memo[key]
        s, out = self.s, []
        for name, j in self.atoms:
            if s.startswith(name, pos):
                out.append((pos + len(name), lambda t, get, j=j: get(j, t)))
        if s.startswith('1', pos):
            out.append((pos + 1, lambda t, get: 1.0))
        for head, tail, fn in self.trig:
            if s.startswith(head, pos):
                for p1, e in self.expr(pos + len(head)):
                    if s.startswith(tail, p1):
                        out.append((p1 + len(tail), lambda t, get, e=e, fn=fn: fn(e(t, get))))
        m = self.delay.match(s, pos)
        if m:
            k = int(m.group(1))
            for p1, e in self.expr(m.end()):
                if s.startswith(')', p1):
                    out.append((p1 + 1, lambda t, get, e=e, k=k: e(t - k, get)))
        self._tick(len(out))
        self.memo[key] = out
        return out


def _stage_mode(sp):
    if sp is None:
        return 'expr'
    if sp['k'] in ('rbf', 'kernel'):
        return 'append'
    if sp['k'] == 'sk':
        return 'wrap'
    if pipes.kinds_in(sp) <= set(ORACLE_KINDS) | {'pipe', 'split'} and multiplicative_depth(sp) <= 1:
        return 'expr'
    return None


def _close(v, w):
    return math.isclose(v, w, rel_tol=1e-9, abs_tol=1e-12)


def _check_stage(mode, prev_names, cur_names, P, T, ep, latex, where):
    """the names after a stage are expressions over the names in front of it (used verbatim), and each denotes its column:
    P / T are the data in front of / behind the stage"""
    e = 1 if ep else 0
    if len(cur_names) != T.shape[1]:
        return f'{where}: {len(cur_names)} names for {T.shape[1]} columns'
    if ep and cur_names[0] != prev_names[0]:
        return f'{where}: the episode column {prev_names[0]!r} is renamed {cur_names[0]!r}'
    if mode is None:
        return None
    prev, cur = prev_names[e:], cur_names[e:]
    eps_p, eps_t = st.episodes(P, ep), st.episodes(T, ep)
    if mode == 'wrap':
        for a, b in zip(prev, cur):
            head = b[:-(len(a) + 2)] if b.endswith('(' + a + ')') else None
            if head is None or not re.fullmatch(r'\\mathrm\{[A-Za-z_]\w*\}' if latex else r'[A-Za-z_]\w*', head):
                return f'{where}: the wrapped column is named {b!r}, which is not <transformer>({a}) with the input name {a!r} verbatim'
        return None
    if mode == 'append':
        n = len(prev)
        if cur[:n] != prev:
            return f'{where}: the columns passed through unchanged are named {cur[:n]}, their names were {prev}'
        for l, Te in eps_t.items():
            Pe = eps_p.get(l)
            if Pe is not None and Pe.shape[0] == Te.shape[0] and not np.allclose(Pe, Te[:, :n], rtol=1e-12, atol=0, equal_nan=True):
                return f'{where}: the columns named {prev} do not hold the unchanged input columns'
        if len(set(cur[n:])) != len(cur[n:]):
            return f'{where}: the names of the appended columns are not distinct: {cur[n:]}'
        return None
    atoms = sorted(((nm, j) for j, nm in enumerate(prev)), key=lambda a: -len(a[0]))
    for c, name in enumerate(cur):
        try:
            fs = VerbatimReader(name, atoms, latex).readings()
        except (Undecided, RecursionError):
            continue                    # too many readings to enumerate: undecided, not a failure
        if not fs:
            return (f'{where}: column {c} is named {name!r}, which is not an expression over the input names {prev} used '
                    'verbatim')
        alive, shown = list(fs), None
        for l, Te in eps_t.items():
            Pe = eps_p.get(l)
            if Pe is None or Te.shape[0] == 0:
                continue
            off = Pe.shape[0] - Te.shape[0]

            def get(j, t, Pe=Pe):
                if t < 0 or t >= Pe.shape[0]:
                    raise IndexError(t)
                return float(Pe[t, j])
            for r in sorted({0, Te.shape[0] // 2, Te.shape[0] - 1}):
                want = float(Te[r, c])
                if not math.isfinite(want):
                    continue
                keep = []
                for f in alive:
                    try:
                        v = f(r + off, get)
                    except (IndexError, OverflowError, ValueError, ZeroDivisionError):
                        v = None
                    if v is not None and _close(v, want):
                        keep.append(f)
                    elif shown is None:
                        shown = (l, r + off, v, want)
                alive = keep
                if not alive:
                    l0, t0, v, want = shown
                    return (f'{where}: column {c} is named {name!r} but no reading of that expression over the input names '
                            f'{prev} (used verbatim) gives the column: at episode {l0}, time {t0} the expression gives {v!r}, '
                            f'the column holds {want!r}')
    return None


def oracle_verbatim(case):
    """stage by stage: the names behind stage i (the output names of the pipeline cut after stage i) must be expressions
    over the names in front of it - DataFrame names or whatever the earlier stages generated, whatever characters they
    contain - used verbatim, and evaluating them on the data in front of the stage must give the data behind it.  Plain
    text and LaTeX.  Names given through a DataFrame come back verbatim; a frame with one altered name is rejected."""
    spec, nu, ep = case['spec'], case['nu'], case['ep']
    X = np.asarray(st.X_of(case), dtype=float)
    given = case.get('given')
    Xfit = pandas.DataFrame(X, columns=given) if given else X
    try:
        est = pipes.fit(spec, Xfit, nu, ep)
    except Exception:
        return None
    stages = list(spec['ss']) if spec['k'] == 'pipe' else [spec]
    Xt = np.asarray(est.transform(Xfit), dtype=float)
    datas = [X]
    if spec['k'] == 'pipe' and stages:
        for _, lf in est.lifting_functions_:
            datas.append(np.asarray(lf.transform(datas[-1]), dtype=float))
        datas[-1] = Xt
    else:
        datas.append(Xt)
    if not stages:
        stages = [None]
    cuts = [None]
    for i in range(1, len(stages)):
        try:
            cuts.append(pipes.fit({'k': 'pipe', 'ss': stages[:i]}, Xfit, nu, ep))
        except Exception:
            return None
    cuts.append(est)
    for latex in (False, True):
        fmt = 'latex' if latex else None
        names = [list(est.get_feature_names_in(format=fmt))] + [list(c.get_feature_names_out(format=fmt)) for c in cuts[1:]]
        if given and names[0] != list(given):
            return f'names given through a DataFrame {given} are not used verbatim: get_feature_names_in(format={fmt}) = {names[0]}'
        for i in range(1, len(names)):
            where = (f'stage {i} of {len(stages)} ({"identity" if stages[i - 1] is None else stages[i - 1]["k"]}), '
                     f'{"latex" if latex else "plaintext"}')
            why = _check_stage(_stage_mode(stages[i - 1]), names[i - 1], names[i], datas[i - 1], datas[i], ep, latex, where)
            if why:
                return why
    if given:
        j = len(given) - 1
        for alt in (given[j] + ' ', given[j].replace(' ', '*') if ' ' in given[j] else given[j] + '*'):
            if alt in given:
                continue
            other = pandas.DataFrame(X, columns=given[:j] + [alt])
            try:
                est.transform(other)
                return f'fitted on columns {given}, transform accepted a DataFrame whose last column is named {alt!r}'
            except ValueError:
                pass
    return None


def verbatim_family(rng):
    """every kind of stage in front of every kind of name-composing stage, with generated names and with DataFrame names
    that contain blanks / operators / parentheses"""
    firsts = [None,
              {'k': 'rbf', 'centers': 'data', 'rbf': 'gaussian', 'shape': 1, 'seed': 3, 'n': 2, 'n_out': 2},
              {'k': 'kernel', 'method': 'rff', 'n': 2, 'seed': 5, 'rff_method': 'weight_offset', 'kernel': 'gaussian', 'n_out': 2},
              {'k': 'delay', 'dx': 1, 'du': 1}, {'k': 'angle', 'feat': [0]}, {'k': 'sk', 'scaler': 'standard'},
              {'k': 'const'}, {'k': 'bilinear'}, {'k': 'poly', 'order': 2, 'io': False}]
    seconds = [{'k': 'poly', 'order': 1, 'io': False}, {'k': 'poly', 'order': 2, 'io': False}, {'k': 'poly', 'order': 3, 'io': True},
               {'k': 'bilinear'}, {'k': 'delay', 'dx': 1, 'du': 0}, {'k': 'angle', 'feat': [1]}, {'k': 'const'},
               {'k': 'sk', 'scaler': 'maxabs'},
               {'k': 'split', 'a': [{'k': 'poly', 'order': 2, 'io': False}], 'b': [{'k': 'delay', 'dx': 0, 'du': 1}]}]
    for first in firsts:
        for second in seconds:
            dims = [(2, 1)] + ([(1, 0)] if (first or {}).get('k') in ('rbf', 'kernel') else [])
            for nx, nu in dims:
                if nu == 0 and second['k'] in ('bilinear', 'split', 'angle'):
                    continue
                for named in (False, True):
                    first_ = dict(first, n_feat=nx + nu) if first and first['k'] == 'rbf' else first
                    ss = ([first_] if first_ else []) + [second]
                    spec = ss[0] if (len(ss) == 1 and rng.random() < 0.5) else {'k': 'pipe', 'ss': ss}
                    ep = rng.random() < 0.5
                    m = pipes.loss(spec) + 2
                    labels = [0, 3] if ep else [0]
                    rows = [([l] if ep else []) + [round(rng.uniform(-2, 2), 3) for _ in range(nx + nu)]
                            for l in labels for _ in range(m + 1)]
                    c = {'spec': spec, 'nx': nx, 'nu': nu, 'ep': ep, 'rows': rows, 'min_len': m, 'form': 'c',
                         'degenerate': False, 'verbatim': True}
                    if named:
                        c['given'] = special_names(rng, nx + nu + (1 if ep else 0), force=True)
                    yield c


def verbatim_random(rng):
    c = st.gen_case(rng, KINDS, max_depth=2, cap=30, opaque=True)
    c['verbatim'] = True
    if rng.random() < 0.6:
        c['given'] = special_names(rng, c['nx'] + c['nu'] + (1 if c['ep'] else 0), force=rng.random() < 0.5)
    return c


def verbatim_tags(c):
    return {'part': 'verbatim', 'kinds': sorted(pipes.kinds_in(c['spec'])), 'names': 'dataframe' if c.get('given') else 'generated'}


# ------------------------------------------------------------------ several fitted estimators in one process (oracle)
# Names are a function of ONE fitted estimator: its own fit-time names, its own state / input split, its own episode
# flag, its own place in a composite.  Nothing another estimator of the same process was fitted with or was asked for
# before may show in the answer.  A cohort is a set of estimators that share what is visible from outside (the kind of
# stage, its hyper-parameters, the column names - one DataFrame, or generated names) and differ in what decides the
# column order (n_inputs, episode_feature, the nesting: used directly / as a stage of a KoopmanPipeline / on either side
# of a SplitPipeline, a frame with fewer columns); they are asked for names in a random order, repeatedly, in both
# formats and with every episode_feature flag, fitted all in advance or each one just before its first question.  Every
# single answer is checked against the asked estimator's OWN lifted columns by evaluating the names on its own input.

SHORT_NAMES = ['a', 'b', 'c', 'd', 'p', 'q', 'r', 's', 'th', 'om', 'v', 'i_d']

COHORT_BASES = [
    {'k': 'poly', 'order': 2, 'io': False}, {'k': 'poly', 'order': 3, 'io': False}, {'k': 'poly', 'order': 2, 'io': True},
    {'k': 'poly', 'order': 3, 'io': True}, {'k': 'poly', 'order': 1, 'io': False}, {'k': 'bilinear'},
    {'k': 'delay', 'dx': 1, 'du': 1}, {'k': 'delay', 'dx': 2, 'du': 0}, {'k': 'const'}, {'k': 'angle', 'feat': [0]},
    {'k': 'pipe', 'ss': [{'k': 'delay', 'dx': 1, 'du': 1}, {'k': 'poly', 'order': 2, 'io': False}]},
    {'k': 'pipe', 'ss': [{'k': 'poly', 'order': 2, 'io': False}, {'k': 'delay', 'dx': 1, 'du': 0}]},
    {'k': 'pipe', 'ss': [{'k': 'angle', 'feat': [1]}, {'k': 'poly', 'order': 2, 'io': False}]},
    {'k': 'pipe', 'ss': [{'k': 'const'}, {'k': 'bilinear'}]},
]


def _cohort_nestings(base):
    """the same stage(s) used directly, as the stage(s) of a pipeline, on the state side / the input side of a split
    pipeline, and a split pipeline as a stage of a pipeline"""
    ss = list(base['ss']) if base['k'] == 'pipe' else [base]
    out = [base, {'k': 'pipe', 'ss': ss}, {'k': 'split', 'a': ss, 'b': []}, {'k': 'split', 'a': [], 'b': ss},
           {'k': 'split', 'a': ss, 'b': ss}, {'k': 'pipe', 'ss': [{'k': 'split', 'a': ss, 'b': []}]}]
    return [s for s in out if _stage_mode(s) == 'expr']


def gen_cohort(rng, base=None, named=None, size=None):
    k = rng.randint(2, 4)                       # data columns next to the episode column
    if base is None:
        base = rng.choice(COHORT_BASES)
    if named is None:
        named = rng.random() < 0.75
    names = None
    if named:
        r = rng.random()
        names = rng.sample(SHORT_NAMES, k + 1) if r < 0.5 else (given_names(rng, k + 1) if r < 0.85 else special_names(rng, k + 1))
    m = pipes.loss(base) + 3
    rows = []
    for l in (1, 2):
        for _ in range(m + rng.randint(0, 2)):
            rows.append([l] + [round(rng.uniform(0.3, 2.0) * (1 + 0.37 * j) * rng.choice([-1, 1]), 3) for j in range(k)])
    nestings = _cohort_nestings(base)
    members, seen = [], set()
    want = size or rng.randint(3, 6)
    for _ in range(60):
        if len(members) >= want:
            break
        sp = rng.choice(nestings) if rng.random() < 0.85 else rng.choice(_cohort_nestings(rng.choice(COHORT_BASES)) or [base])
        ep = rng.random() < 0.4
        lead = (not ep) and rng.random() < 0.25                 # the first column of the frame is an ordinary state
        ncols = k if rng.random() < 0.7 else rng.randint(2, k)      # a frame with the leading data columns only
        nfeat = ncols + (1 if lead else 0)
        nu = rng.randint(0, nfeat - 1)
        mem = {'spec': sp, 'nu': nu, 'ep': ep, 'lead': lead, 'ncols': ncols}
        key = json.dumps(mem, sort_keys=True)
        if key in seen:
            continue
        seen.add(key)
        members.append(mem)
    asks = []
    for i in range(len(members)):
        for latex in (False, True):
            asks.append([i, latex, rng.choice([None, None, True, False])])
    rng.shuffle(asks)
    asks += [[rng.randrange(len(members)), rng.random() < 0.5, rng.choice([None, True, False])] for _ in range(len(members))]
    return {'cohort': True, 'names': names, 'rows': rows, 'members': members, 'asks': asks, 'fit_first': rng.random() < 0.6}


def _cohort_input(case, mem):
    A = np.asarray(case['rows'], dtype=float)
    cols = list(range(1, 1 + mem['ncols']))
    if mem['ep'] or mem['lead']:
        cols = [0] + cols
    X = np.ascontiguousarray(A[:, cols])
    if case['names'] is None:
        return X, X, None
    given = [case['names'][j] for j in cols]
    return X, pandas.DataFrame(X, columns=given), given


def _generated_in(nx, nu, ep, latex):
    if latex:
        return ([r'\mathrm{episode}'] if ep else []) + [f'x_{{{j}}}' for j in range(nx)] + [f'u_{{{j}}}' for j in range(nu)]
    return (['ep'] if ep else []) + [f'x{j}' for j in range(nx)] + [f'u{j}' for j in range(nu)]


def oracle_cohort(case, count=None):
    fitted = {}

    def get(i):
        if i not in fitted:
            mem = case['members'][i]
            X, Xfit, given = _cohort_input(case, mem)
            try:
                est = pipes.fit(mem['spec'], Xfit, mem['nu'], mem['ep'])
                Xt = np.asarray(est.transform(Xfit), dtype=float)
            except Exception as ex:
                fitted[i] = None
                if count:
                    count('cohort member rejected:' + st.err_enum(ex))
                return None
            fitted[i] = (est, X, Xt, given)
            if count:
                count('cohort member fitted: ' + ('DataFrame names' if given else 'generated names'))
        return fitted[i]
    if case['fit_first']:
        for i in range(len(case['members'])):
            get(i)
    for n_ask, (i, latex, call) in enumerate(case['asks']):
        got = get(i)
        if got is None:
            continue
        est, X, Xt, given = got
        mem = case['members'][i]
        ep = mem['ep']
        e = 1 if ep else 0
        fmt = 'latex' if latex else None
        who = (f'question {n_ask + 1} of the process, to member {i} ({type(est).__name__} {json.dumps(mem["spec"])}, n_inputs={mem["nu"]}, '
               f'episode_feature={ep}, fitted on {"columns " + str(given) if given else "an array"}), format={fmt}, '
               f'episode_feature={call}')
        nfeat = X.shape[1] - e
        want_in = list(given) if given else _generated_in(nfeat - mem['nu'], mem['nu'], ep, latex)
        try:
            names_in = [str(s) for s in est.get_feature_names_in(format=fmt)]
            names = [str(s) for s in est.get_feature_names_out(format=fmt, episode_feature=call)]
            syms = [str(s) for s in est.get_feature_names_out(format=fmt, episode_feature=call, symbols_only=True)]
        except Exception as ex:
            return f'{who}: raised {type(ex).__name__}: {ex}'
        if names_in != want_in:
            return f'{who}: get_feature_names_in = {names_in}, the input columns are named {want_in}'
        ce = ep if call is None else bool(call)
        if len(names) != Xt.shape[1] - e + (1 if ce else 0):
            return f'{who}: {len(names)} names for {Xt.shape[1] - e} lifted columns' + (' and the episode column' if ce else '')
        if len(syms) != len(names) or len(set(syms)) != len(syms):
            return f'{who}: symbols_only names {syms} are not one distinct symbol per column ({len(names)} columns)'
        if ce:
            head = want_in[0] if ep else (r'\mathrm{episode}' if latex else 'ep')
            if names[0] != head or syms[0] != (r'\mathrm{episode}' if latex else 'ep'):
                return f'{who}: the episode column is named {names[0]!r} / {syms[0]!r}, expected {head!r}'
        body = names[(1 if ce else 0):]
        why = _check_stage('expr', want_in, ([want_in[0]] if ep else []) + body, X, Xt, ep, latex, who)
        if why:
            return why
        if count:
            count('cohort answers evaluated against the asked estimator\'s own columns')
    return None


def cohort_family(rng):
    """every base in a named and in a generated-names cohort (random members / order), plus the sharpest form: ONE frame,
    one stage, every n_inputs, asked in a random order"""
    for base in COHORT_BASES:
        for named in (True, False):
            yield gen_cohort(rng, base=base, named=named)
    for base in COHORT_BASES[:4] + COHORT_BASES[10:12]:
        c = gen_cohort(rng, base=base, named=True, size=2)
        k = len(c['rows'][0]) - 1
        ep = rng.random() < 0.5
        nest = _cohort_nestings(base)
        c['members'] = [{'spec': nest[j % 2] if rng.random() < 0.5 else base, 'nu': nu, 'ep': ep, 'lead': False, 'ncols': k}
                        for j, nu in enumerate(rng.sample(range(k), k))]
        c['asks'] = [[i, latex, None] for latex in (False, True) for i in range(k)]
        rng.shuffle(c['asks'])
        yield c


def cohort_tags(c):
    return {'part': 'cohort', 'kinds': sorted(set().union(*[pipes.kinds_in(m['spec']) for m in c['members']])),
            'names': 'dataframe' if c.get('names') else 'generated'}


def oracle(case, est=None):
    """the name-evaluating oracle under the default configuration and - the documented way to speed up prediction - with
    `skip_validation=True` (a fresh fit inside the context): names must describe the columns on both routes"""
    why = _oracle_names(case, est)
    if why:
        return why
    with pykoop.config_context(skip_validation=True):
        why = _oracle_names(case, None)
    if why:
        return why + ' (with skip_validation=True)'
    return None


def systematic_cases(rng):
    """a small systematic family evaluated on every run (both configuration routes): polynomial orders x widths x
    interaction_only, bilinear, delays before / after a polynomial stage, a split"""
    specs = []
    for order in (1, 2, 3):
        for io in (False, True):
            specs.append({'k': 'poly', 'order': order, 'io': io})
    specs += [{'k': 'bilinear'}, {'k': 'const'}, {'k': 'delay', 'dx': 1, 'du': 2},
              {'k': 'pipe', 'ss': [{'k': 'delay', 'dx': 1, 'du': 1}, {'k': 'poly', 'order': 2, 'io': False}]},
              {'k': 'pipe', 'ss': [{'k': 'poly', 'order': 2, 'io': False}, {'k': 'delay', 'dx': 1, 'du': 0}]},
              {'k': 'split', 'a': [{'k': 'poly', 'order': 2, 'io': False}], 'b': [{'k': 'delay', 'dx': 0, 'du': 1}]}]
    for sp in specs:
        for nx, nu in ((2, 1), (1, 2), (2, 2), (1, 1), (2, 0)):
            if nu == 0 and sp['k'] in ('bilinear', 'split'):
                continue
            if multiplicative_depth(sp) > 1:
                continue
            ep = rng.random() < 0.5
            m = pipes.loss(sp) + 2
            labels = [0, 3] if ep else [0]
            rows = [([l] if ep else []) + [round(rng.uniform(-2, 2), 3) for _ in range(nx + nu)] for l in labels for _ in range(m + 1)]
            yield {'spec': sp, 'nx': nx, 'nu': nu, 'ep': ep, 'rows': rows, 'min_len': m, 'form': 'c', 'degenerate': False}


def population_search(ctx):
    """failing-input search over a fresh population (also used when an exception raised inside the implementation
    ended the correspondence run early)"""
    for i in range(400):
        c = st.gen_case(ctx.rng, ORACLE_KINDS, max_depth=2, cap=30, opaque=True)
        why = oracle(c)
        if why:
            ctx.fail(why, c, {'kinds': sorted(pipes.kinds_in(c['spec']))})
            return


def run(ctx):
    ctx.rule = ('random trees of all kinds (both formats, symbols_only on/off, fit flag x call flag None/True/False, '
                'generated or DataFrame-supplied input names): get_feature_names_out compared verbatim with the Lean '
                'names model; oracle: a parser for the plaintext grammar evaluates every name on the data (delays per '
                'episode) and compares with the column, on algebraic + angle pipelines with unambiguous products; '
                'DataFrame names verbatim and mismatching column names rejected; names with blanks / * / ^ / commas / '
                'parentheses (DataFrame columns such as "cart pos", "f(x, y)", or names generated by an earlier stage such as '
                '"R_0(x, u)", "D1(x0)") checked stage by stage: every kind of stage in front of every name-composing stage + '
                'random trees, both formats - the names behind a stage are read as expressions whose atoms are the names in '
                'front of it taken verbatim and must evaluate to the column; cohorts of several fitted estimators in ONE process '
                'that share the stage, its hyper-parameters and the column names (one DataFrame, or generated names) and differ in '
                'n_inputs / episode_feature / nesting (direct, pipeline stage, either side of a split pipeline, shorter frame), '
                'fitted in advance or just before their first question, asked in random order, repeatedly, both formats, every '
                'episode_feature flag: every answer is evaluated against the asked estimator\'s own columns')
    ctx.explanation = ('theorems C19_*: names of row-wise stages are the generic row function at the string instance; one '
                       'name per column; delay block i names D_i(.) and holds the data delayed by i; symbols_only / '
                       'episode-name / given-names rules; correspondence verbatim; oracle evaluates names as expressions; a second '
                       'reader matches input names literally (no tokenising), keeps every reading of an ambiguous name and '
                       'accepts a column when some reading reproduces it, so arbitrary strings can be input names; names are a '
                       'function of the one fitted estimator that is asked (the model has no process-level state), so the cohort '
                       'oracle interleaves questions to estimators that look alike from outside and checks each answer - input '
                       'names, one name and one distinct symbol per column, episode name, every name evaluated on the data - '
                       'against that estimator alone, whatever was fitted or asked before')
    ctx.proof_obligations('Properties.C19', THEOREMS)
    drv = ctx.get_driver()
    lines, meta = [], []
    for i in range(ctx.n(120, 1500)):
        c = st.gen_case(ctx.rng, KINDS if i % 2 else ORACLE_KINDS, max_depth=2, cap=30, opaque=True)
        use_df = ctx.rng.random() < 0.3
        X = st.X_of(c)
        given = None
        try:
            if use_df:
                given = given_names(ctx.rng, X.shape[1])
                Xfit = pandas.DataFrame(X, columns=given)
                est = pipes.fit(c['spec'], Xfit, c['nu'], c['ep'])
            else:
                est = st.fit_case(c)
        except Exception as ex:
            ctx.count('rejected:' + st.err_enum(ex))
            continue
        toks, _ = pipes.tokens(c['spec'], est)
        classes = sk_classes(c['spec'], est)
        for fmt in ('p', 'l'):
            for sym in (False, True):
                for call in (None, True, False):
                    try:
                        names = list(est.get_feature_names_out(symbols_only=sym, format='latex' if fmt == 'l' else None,
                                                               episode_feature=call))
                    except Exception as ex:
                        names = ['<raised %s>' % type(ex).__name__]
                    ce = 'n' if call is None else ('1' if call else '0')
                    g = 'n' if given is None else f'{len(given)} ' + ' '.join(given)
                    lines.append(f"names {fmt} {1 if sym else 0} {1 if c['ep'] else 0} {ce} {c['nx']} {c['nu']} {toks} {g}")
                    meta.append((c, fmt, sym, call, names, classes, use_df))
        st.count_dist(ctx, c)
        if use_df:
            ctx.count('dataframe_names')
            # verbatim + rejection clause
            if list(est.get_feature_names_in()) != given:
                ctx.fail('names given through a DataFrame are not used verbatim', c, {'part': 'given'})
            other = pandas.DataFrame(X, columns=[n + '_' for n in given])
            try:
                est.transform(other)
                ctx.fail('transform accepted a DataFrame with different column names', c, {'part': 'given'})
            except ValueError:
                pass
            try:
                est.transform(Xfit)
            except Exception as ex:
                ctx.fail(f'transform rejected the fit-time column names: {ex}', c, {'part': 'given'})
        ctx.record_case({k: c[k] for k in ('spec', 'nx', 'nu', 'ep')}, st.nontrivial(c))
        if not use_df:
            why = oracle(c, est)
            if why:
                ctx.fail(why, c, {'kinds': sorted(pipes.kinds_in(c['spec']))})
            elif multiplicative_depth(c['spec']) <= 1 and pipes.kinds_in(c['spec']) <= set(ORACLE_KINDS) | {'pipe', 'split'}:
                ctx.count('oracle_evaluated')
    for c in systematic_cases(ctx.rng):
        ctx.count('systematic family')
        why = oracle(c)
        if why:
            ctx.fail(why, c, {'kinds': sorted(pipes.kinds_in(c['spec']))})
            break
    # names with special characters (DataFrame columns, names generated by an earlier stage) used verbatim downstream
    n_fail = len(ctx.failures)
    fam = list(verbatim_family(ctx.rng))
    for c in fam + [verbatim_random(ctx.rng) for _ in range(ctx.n(60, 700))]:
        why = oracle_verbatim(c)
        ctx.count('verbatim names: ' + ('DataFrame names with special characters' if c.get('given') else 'generated names, stage by stage'))
        ctx.record_case({k: c.get(k) for k in ('spec', 'nx', 'nu', 'ep', 'given')}, True)
        if why:
            ctx.fail(why, c, verbatim_tags(c))
            if len(ctx.failures) > n_fail:
                break
    # several fitted estimators in one process, asked in various orders: every answer describes the asked estimator's columns
    n_fail = len(ctx.failures)
    for c in list(cohort_family(ctx.rng)) + [gen_cohort(ctx.rng) for _ in range(ctx.n(20, 300))]:
        why = oracle_cohort(c, ctx.count)
        ctx.count('cohort: ' + ('one DataFrame\'s names' if c.get('names') else 'generated names') + ', members differ in n_inputs / episode_feature / nesting')
        ctx.record_case({k: c.get(k) for k in ('names', 'members', 'fit_first')}, True)
        if why:
            ctx.fail(why, c, cohort_tags(c))
            if len(ctx.failures) > n_fail:
                break
    replies = drv.ask(lines)
    bad = []
    for (c, fmt, sym, call, names, classes, use_df), rep in zip(meta, replies):
        parts = rep.split('\t')
        got = subst(parts[1:], classes, fmt == 'l') if parts[0] == 'ok' else None
        ctx.count(f'fmt:{fmt}/sym:{int(sym)}')
        if got != names:
            ctx.mismatch(f'get_feature_names_out(format={fmt}, symbols_only={sym}, episode_feature={call})',
                         {k: c[k] for k in ('spec', 'nx', 'nu', 'ep')}, names, got)
            bad.append(c)

    def search(ctx):
        for c in bad[:40]:
            why = oracle(c)
            if why:
                ctx.fail(why, c, {'kinds': sorted(pipes.kinds_in(c['spec']))})
                return
            why = oracle_verbatim(c)
            if why:
                ctx.fail(why, dict(c, verbatim=True), verbatim_tags(c))
                return
        population_search(ctx)
    acc = accept_cases(ctx.rng, ctx.n(40, 400))
    for (line, accepted, tag), rep in zip(acc, drv.ask([a[0] for a in acc])):
        ctx.count('accept:' + ('accepted' if accepted else 'rejected'))
        ctx.record_case(tag, True)
        if rep.split() != ['ok', '1' if accepted else '0']:
            ctx.mismatch('acceptance of input feature names', tag, accepted, rep)
    for _ in range(ctx.n(12, 100)):
        res = frame_order_probe(ctx.rng)
        ctx.count('frame-order probe')
        if res[0]:
            ctx.fail(res[0], res[1], res[2])
    return ctx.finish('proof', search)


def replay(ctx, path):
    obj = json.load(open(path))
    case = obj.get('case') or (obj.get('first_disagreement') or {}).get('case')
    why = oracle_cohort(case) if case.get('cohort') else (oracle_verbatim(case) if case.get('verbatim') else oracle(case))
    print('oracle:', why)
    return 1 if why else 0
