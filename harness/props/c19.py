"""C19 - Output feature names describe the columns they label."""
import json
import math
import re

import numpy as np
import pandas

import pykoop
from .. import core, pipes, structural as st

THEOREMS = ['Pk.C19.C19_rowwise_names_are_transform', 'Pk.C19.C19_one_per_column', 'Pk.C19.C19_delay_names',
            'Pk.C19.C19_delay_values', 'Pk.C19.C19_symbols_only', 'Pk.C19.C19_episode_name',
            'Pk.C19.C19_given_names', 'Pk.C19.C19_denotation', 'Pk.C19.C19_rowwise_natural',
            'Pk.C19.C19_term_semantics', 'Pk.C19.C19_accepted_same_positions', 'Pk.C19.C19_different_names_rejected']
KINDS = ['poly', 'bilinear', 'const', 'delay', 'sk', 'angle', 'rbf', 'kernel']
ORACLE_KINDS = ['poly', 'bilinear', 'const', 'delay', 'delay', 'angle']


def sk_classes(spec, est):
    """id -> class name of wrapped transformers, ids as pipes.tokens assigns them"""
    _, reg = pipes.tokens(spec, est)
    return {i: type(e.transformer_).__name__ for i, e in reg.items() if hasattr(e, 'transformer_')
            and isinstance(e, pykoop.SkLearnLiftingFn)}


def subst(names, classes, latex):
    out = []
    for n in names:
        for i, cls in classes.items():
            n = n.replace(f'SK{i}(', (r'\mathrm{' + cls + '}(') if latex else cls + '(')
        out.append(n)
    return out


def multiplicative_depth(spec):
    k = spec['k']
    own = 1 if (k == 'bilinear' or (k == 'poly' and spec['order'] >= 2)) else 0
    if k == 'pipe':
        return sum(multiplicative_depth(s) for s in spec['ss'])
    if k == 'split':
        return max(sum(multiplicative_depth(s) for s in spec['a']), sum(multiplicative_depth(s) for s in spec['b']))
    return own


# ------------------------------------------------------------------ plaintext name evaluator (oracle)

TOKEN = re.compile(r'\s*(D\d+|cos|sin|[A-Za-z_][A-Za-z_0-9]*|\d+|\^|\*|\(|\)|,)')


class NameEval:
    def __init__(self, text, cols):
        self.toks = TOKEN.findall(text)
        if ''.join(self.toks) != text.replace(' ', ''):
            raise ValueError('cannot tokenise ' + text)
        self.i = 0
        self.cols = cols       # name -> function(t) -> value

    def peek(self):
        return self.toks[self.i] if self.i < len(self.toks) else None

    def eat(self, t=None):
        tok = self.peek()
        if t is not None and tok != t:
            raise ValueError(f'expected {t} got {tok}')
        self.i += 1
        return tok

    def expr(self):
        f = self.factor()
        fs = [f]
        while self.peek() == '*':
            self.eat('*')
            fs.append(self.factor())
        return lambda t: math.prod(g(t) for g in fs)

    def factor(self):
        a = self.atom()
        if self.peek() == '^':
            self.eat('^')
            p = int(self.eat())
            return lambda t: a(t) ** p
        return a

    def atom(self):
        tok = self.eat()
        if tok == '1':
            return lambda t: 1.0
        if tok in ('cos', 'sin'):
            self.eat('(')
            e = self.expr()
            self.eat(')')
            f = math.cos if tok == 'cos' else math.sin
            return lambda t: f(e(t))
        m = re.fullmatch(r'D(\d+)', tok)
        if m and self.peek() == '(':
            k = int(m.group(1))
            self.eat('(')
            e = self.expr()
            self.eat(')')
            return lambda t: e(t - k)
        if tok in self.cols:
            c = self.cols[tok]
            return lambda t: c(t)
        raise ValueError('unknown atom ' + tok)


def _oracle_names(case, est=None):
    """evaluate every plaintext output name on the input data (per episode, delays looking back in time) and
    compare with the lifted column it labels"""
    if multiplicative_depth(case['spec']) > 1 or not (pipes.kinds_in(case['spec']) <= set(ORACLE_KINDS) | {'pipe', 'split'}):
        return None
    try:
        if est is None:
            est = st.fit_case(case)
    except Exception:
        return None
    X = st.X_of(case)
    ep = case['ep']
    e = 1 if ep else 0
    Xt = est.transform(X)
    names_in = list(est.get_feature_names_in())
    names_out = list(est.get_feature_names_out())
    if len(names_out) != Xt.shape[1]:
        return f'{len(names_out)} names for {Xt.shape[1]} columns'
    if ep and names_out[0] != names_in[0]:
        return 'episode column name changed'
    # the episode_feature override only adds / removes the episode name; every other name still labels its column
    body = names_out[e:]
    for call in (True, False):
        try:
            nm = list(est.get_feature_names_out(episode_feature=call))
        except Exception as ex:
            return f'get_feature_names_out(episode_feature={call}) raised {type(ex).__name__}: {ex}'
        if (len(nm) != len(body) + (1 if call else 0)) or nm[(1 if call else 0):] != body:
            return (f'get_feature_names_out(episode_feature={call}) on an estimator fitted with episode_feature={ep}: the '
                    f'names {nm} do not label the lifted columns {body}')
        if call and not (nm[0] == 'ep' or (ep and nm[0] == names_in[0])):
            return f'episode name missing with episode_feature=True: {nm[:2]}'
    eps, eps_t = st.episodes(X, ep), st.episodes(Xt, ep)
    for l, Xe in eps.items():
        if l not in eps_t:
            continue
        T = eps_t[l]
        off = Xe.shape[0] - T.shape[0]
        cols = {names_in[e + j]: (lambda t, j=j: float(Xe[t, j])) for j in range(Xe.shape[1])}
        for c in range(T.shape[1]):
            try:
                f = NameEval(names_out[e + c], cols).expr()
            except ValueError as ex:
                return f'name {names_out[e + c]!r} is not an expression over the input names: {ex}'
            for r in (0, T.shape[0] - 1):
                v = f(r + off)
                if not math.isclose(v, T[r, c], rel_tol=1e-9, abs_tol=1e-12):
                    return (f'column {c} is named {names_out[e + c]!r} but evaluating that expression at episode {l}, '
                            f'time {r + off} gives {v!r}, the column holds {T[r, c]!r}')
    return None


def frame_order_probe(rng):
    """names captured from a DataFrame at fit time label columns BY NAME: a later DataFrame with the same names in another
    order must be rejected, or be consumed by name - never silently by position (the output names would then label the
    wrong columns)"""
    import pandas
    rs = np.random.RandomState(rng.randint(0, 2 ** 31 - 1))
    nx, nu = rng.randint(1, 3), rng.randint(0, 2)
    ep = rng.random() < 0.5
    n = 8
    cols = given_names(rng, nx + nu)
    data = rs.uniform(-1, 1, (n, nx + nu)) * np.arange(1, nx + nu + 1)
    names = (['episode'] if ep else []) + cols
    full = np.hstack((np.zeros((n, 1)), data)) if ep else data
    df = pandas.DataFrame(full, columns=names)
    kind = rng.choice(['poly', 'delay', 'pipeline', 'split'])
    if kind == 'poly':
        est = pykoop.PolynomialLiftingFn(order=2)
    elif kind == 'delay':
        est = pykoop.DelayLiftingFn(1, 1)
    elif kind == 'split':
        est = pykoop.SplitPipeline(lifting_functions_state=[('pl', pykoop.PolynomialLiftingFn(order=2))],
                                   lifting_functions_input=None)
    else:
        est = pykoop.KoopmanPipeline(lifting_functions=[('pl', pykoop.PolynomialLiftingFn(order=2)), ('dl', pykoop.DelayLiftingFn(1, 0))],
                                     regressor=pykoop.Edmd())
    est.fit(df, n_inputs=nu, episode_feature=ep)
    want = est.transform(df)
    perm = cols[:]
    for _ in range(10):
        rng.shuffle(perm)
        if perm != cols:
            break
    if perm == cols:
        return None, None
    dfp = df[(['episode'] if ep else []) + perm]
    tag = {'part': 'frame-order', 'estimator': kind}
    case = {'estimator': kind, 'fit_columns': names, 'call_columns': list(dfp.columns), 'n_inputs': nu, 'episode_feature': ep}
    try:
        got = est.transform(dfp)
    except Exception:
        return None, None          # rejected: fine
    if got.shape != want.shape or not np.allclose(got, want, rtol=1e-12, atol=0):
        names_out = list(est.get_feature_names_out())
        return (f'{type(est).__name__} fitted on columns {names} accepts a DataFrame with columns {list(dfp.columns)} and consumes it '
                f'by position: the output column named {names_out[1 if ep else 0]!r} holds the data of column '
                f'{dfp.columns[1 if ep else 0]!r}'), case, tag
    return None, None


def accept_cases(rng, n):
    """(estimator fitted on names A, on a frame without valid names, or on an array) x (called with a frame named B, a
    frame whose column names are not all strings, or a plain array): accepted or rejected?  observation on a real lifting
    function, model line for the driver"""
    import pandas
    out = []
    for _ in range(n):
        k = rng.randint(2, 4)
        data = np.arange(1.0, 1.0 + 5 * k).reshape(5, k)
        fit_names = given_names(rng, k) if rng.random() < 0.8 else None
        r = rng.random()
        call_kind = 'frame'
        if fit_names is None:
            call_names = given_names(rng, k) if r < 0.4 else None
            call_kind = 'frame' if r < 0.4 else ('array' if r < 0.7 else 'frame')
        elif r < 0.2:
            call_names = list(fit_names)
        elif r < 0.4:
            call_names = list(fit_names)
            rng.shuffle(call_names)
        elif r < 0.55:
            call_names, call_kind = None, 'array'
        elif r < 0.65:
            call_names = None                      # a frame whose column names are not all strings
        elif r < 0.8:
            call_names = [nm + '_x' if j == 0 else nm for j, nm in enumerate(fit_names)]
        else:
            call_names = given_names(rng, k)

        def mk(names, kind='frame'):
            if kind == 'array':
                return data
            if names is None:
                return pandas.DataFrame(data, columns=[7] + [f'c{j}' for j in range(1, k)])     # mixed names: none extracted
            return pandas.DataFrame(data, columns=names)
        fit_kind = 'frame' if (fit_names is not None or rng.random() < 0.5) else 'array'
        est = rng.choice([pykoop.PolynomialLiftingFn(order=2), pykoop.DelayLiftingFn(1, 0), pykoop.ConstantLiftingFn()])
        est.fit(mk(fit_names, fit_kind), n_inputs=0, episode_feature=False)
        try:
            est.transform(mk(call_names, call_kind))
            accepted = True
        except ValueError:
            accepted = False
        tok = lambda names: 'n' if names is None else f"{len(names)} " + ' '.join(names)
        ctok = 'a' if call_kind == 'array' else tok(call_names)
        out.append((f"accept {tok(fit_names)} {ctok}", accepted, {'fit_names': fit_names, 'fit_input': fit_kind, 'call_names': call_names,
                                                                  'call_input': call_kind, 'estimator': type(est).__name__}))
    return out


def given_names(rng, n):
    pool = ['alpha', 'beta', 'gamma', 'pos', 'vel', 'acc', 'tau', 'q', 'w', 'z']
    return rng.sample(pool, n)


def oracle(case, est=None):
    """the name-evaluating oracle under the default configuration and - the documented way to speed up prediction - with
    `skip_validation=True` (a fresh fit inside the context): names must describe the columns on both routes"""
    why = _oracle_names(case, est)
    if why:
        return why
    with pykoop.config_context(skip_validation=True):
        why = _oracle_names(case, None)
    if why:
        return why + ' (with skip_validation=True)'
    return None


def systematic_cases(rng):
    """a small systematic family evaluated on every run (both configuration routes): polynomial orders x widths x
    interaction_only, bilinear, delays before / after a polynomial stage, a split"""
    specs = []
    for order in (1, 2, 3):
        for io in (False, True):
            specs.append({'k': 'poly', 'order': order, 'io': io})
    specs += [{'k': 'bilinear'}, {'k': 'const'}, {'k': 'delay', 'dx': 1, 'du': 2},
              {'k': 'pipe', 'ss': [{'k': 'delay', 'dx': 1, 'du': 1}, {'k': 'poly', 'order': 2, 'io': False}]},
              {'k': 'pipe', 'ss': [{'k': 'poly', 'order': 2, 'io': False}, {'k': 'delay', 'dx': 1, 'du': 0}]},
              {'k': 'split', 'a': [{'k': 'poly', 'order': 2, 'io': False}], 'b': [{'k': 'delay', 'dx': 0, 'du': 1}]}]
    for sp in specs:
        for nx, nu in ((2, 1), (1, 2), (2, 2), (1, 1), (2, 0)):
            if nu == 0 and sp['k'] in ('bilinear', 'split'):
                continue
            if multiplicative_depth(sp) > 1:
                continue
            ep = rng.random() < 0.5
            m = pipes.loss(sp) + 2
            labels = [0, 3] if ep else [0]
            rows = [([l] if ep else []) + [round(rng.uniform(-2, 2), 3) for _ in range(nx + nu)] for l in labels for _ in range(m + 1)]
            yield {'spec': sp, 'nx': nx, 'nu': nu, 'ep': ep, 'rows': rows, 'min_len': m, 'form': 'c', 'degenerate': False}


def population_search(ctx):
    """failing-input search over a fresh population (also used when an exception raised inside the implementation
    ended the correspondence run early)"""
    for i in range(400):
        c = st.gen_case(ctx.rng, ORACLE_KINDS, max_depth=2, cap=30, opaque=True)
        why = oracle(c)
        if why:
            ctx.fail(why, c, {'kinds': sorted(pipes.kinds_in(c['spec']))})
            return


def run(ctx):
    ctx.rule = ('random trees of all kinds (both formats, symbols_only on/off, fit flag x call flag None/True/False, '
                'generated or DataFrame-supplied input names): get_feature_names_out compared verbatim with the Lean '
                'names model; oracle: a parser for the plaintext grammar evaluates every name on the data (delays per '
                'episode) and compares with the column, on algebraic + angle pipelines with unambiguous products; '
                'DataFrame names verbatim and mismatching column names rejected')
    ctx.explanation = ('theorems C19_*: names of row-wise stages are the generic row function at the string instance; one '
                       'name per column; delay block i names D_i(.) and holds the data delayed by i; symbols_only / '
                       'episode-name / given-names rules; correspondence verbatim; oracle evaluates names as expressions')
    ctx.proof_obligations('Properties.C19', THEOREMS)
    drv = ctx.get_driver()
    lines, meta = [], []
    for i in range(ctx.n(120, 1500)):
        c = st.gen_case(ctx.rng, KINDS if i % 2 else ORACLE_KINDS, max_depth=2, cap=30, opaque=True)
        use_df = ctx.rng.random() < 0.3
        X = st.X_of(c)
        given = None
        try:
            if use_df:
                given = given_names(ctx.rng, X.shape[1])
                Xfit = pandas.DataFrame(X, columns=given)
                est = pipes.fit(c['spec'], Xfit, c['nu'], c['ep'])
            else:
                est = st.fit_case(c)
        except Exception as ex:
            ctx.count('rejected:' + st.err_enum(ex))
            continue
        toks, _ = pipes.tokens(c['spec'], est)
        classes = sk_classes(c['spec'], est)
        for fmt in ('p', 'l'):
            for sym in (False, True):
                for call in (None, True, False):
                    try:
                        names = list(est.get_feature_names_out(symbols_only=sym, format='latex' if fmt == 'l' else None,
                                                               episode_feature=call))
                    except Exception as ex:
                        names = ['<raised %s>' % type(ex).__name__]
                    ce = 'n' if call is None else ('1' if call else '0')
                    g = 'n' if given is None else f'{len(given)} ' + ' '.join(given)
                    lines.append(f"names {fmt} {1 if sym else 0} {1 if c['ep'] else 0} {ce} {c['nx']} {c['nu']} {toks} {g}")
                    meta.append((c, fmt, sym, call, names, classes, use_df))
        st.count_dist(ctx, c)
        if use_df:
            ctx.count('dataframe_names')
            # verbatim + rejection clause
            if list(est.get_feature_names_in()) != given:
                ctx.fail('names given through a DataFrame are not used verbatim', c, {'part': 'given'})
            other = pandas.DataFrame(X, columns=[n + '_' for n in given])
            try:
                est.transform(other)
                ctx.fail('transform accepted a DataFrame with different column names', c, {'part': 'given'})
            except ValueError:
                pass
            try:
                est.transform(Xfit)
            except Exception as ex:
                ctx.fail(f'transform rejected the fit-time column names: {ex}', c, {'part': 'given'})
        ctx.record_case({k: c[k] for k in ('spec', 'nx', 'nu', 'ep')}, st.nontrivial(c))
        if not use_df:
            why = oracle(c, est)
            if why:
                ctx.fail(why, c, {'kinds': sorted(pipes.kinds_in(c['spec']))})
            elif multiplicative_depth(c['spec']) <= 1 and pipes.kinds_in(c['spec']) <= set(ORACLE_KINDS) | {'pipe', 'split'}:
                ctx.count('oracle_evaluated')
    for c in systematic_cases(ctx.rng):
        ctx.count('systematic family')
        why = oracle(c)
        if why:
            ctx.fail(why, c, {'kinds': sorted(pipes.kinds_in(c['spec']))})
            break
    replies = drv.ask(lines)
    bad = []
    for (c, fmt, sym, call, names, classes, use_df), rep in zip(meta, replies):
        parts = rep.split('\t')
        got = subst(parts[1:], classes, fmt == 'l') if parts[0] == 'ok' else None
        ctx.count(f'fmt:{fmt}/sym:{int(sym)}')
        if got != names:
            ctx.mismatch(f'get_feature_names_out(format={fmt}, symbols_only={sym}, episode_feature={call})',
                         {k: c[k] for k in ('spec', 'nx', 'nu', 'ep')}, names, got)
            bad.append(c)

    def search(ctx):
        for c in bad[:40]:
            why = oracle(c)
            if why:
                ctx.fail(why, c, {'kinds': sorted(pipes.kinds_in(c['spec']))})
                return
        population_search(ctx)
    acc = accept_cases(ctx.rng, ctx.n(40, 400))
    for (line, accepted, tag), rep in zip(acc, drv.ask([a[0] for a in acc])):
        ctx.count('accept:' + ('accepted' if accepted else 'rejected'))
        ctx.record_case(tag, True)
        if rep.split() != ['ok', '1' if accepted else '0']:
            ctx.mismatch('acceptance of input feature names', tag, accepted, rep)
    for _ in range(ctx.n(12, 100)):
        res = frame_order_probe(ctx.rng)
        ctx.count('frame-order probe')
        if res[0]:
            ctx.fail(res[0], res[1], res[2])
    return ctx.finish('proof', search)


def replay(ctx, path):
    obj = json.load(open(path))
    case = obj.get('case') or (obj.get('first_disagreement') or {}).get('case')
    why = oracle(case)
    print('oracle:', why)
    return 1 if why else 0
