"""C13 - DMD eigenvalues, modes and rank agree with the returned operator."""
import json

import numpy as np
from scipy import linalg

import pykoop
from .. import core, lmi_common as lc

THEOREMS = ['Pk.C13.C13_eigpairs', 'Pk.C13.C13_eigvec', 'Pk.C13.C13_mode_ne_zero', 'Pk.C13.C13_rank',
            'Pk.C13.C13_projected', 'Pk.C13.C13_spectrum_partial', 'Pk.C13.C13_charpoly', 'Pk.C13.C13_spectrum',
            'Pk.C13.C13_reconstruction_real', 'Pk.C13.C13_real_part_eigpairs']
LEVEL = 'other'


def tsvd_choice(rng, full):
    k = rng.choice(['economy', 'rank', 'cutoff'])
    if k == 'economy':
        return pykoop.Tsvd('economy'), 'economy'
    if k == 'rank':
        r = rng.randint(1, full)
        return pykoop.Tsvd('rank', r), f'rank {r}'
    c = rng.choice([1e-8, 1e-3, 0.3])
    return pykoop.Tsvd('cutoff', c), f'cutoff {c}'


def check(ctx):
    snap = ctx.snap()
    rng = ctx.rng
    nx = rng.randint(1, 4)
    nu = rng.choice([0, 0, 1, 2])
    X, kw, _, _ = lc.lin_data(rng, nx, nu, radius=rng.choice([0.7, 0.95, 1.05]), noise=rng.choice([0.0, 0.02]), n_min=14)
    form = 'float64'
    if rng.random() < 0.35:
        # the same kind of data handed over in another valid form: integer-valued (quantised) samples as an integer
        # array, a single episode without episode feature, Fortran order, a read-only array
        form = rng.choice(['int64', 'int32', 'no-episode-feature', 'int64/no-episode-feature', 'fortran', 'readonly'])
        from .. import structural as st
        if 'no-episode-feature' in form:
            first = X[X[:, 0] == X[0, 0]][:, 1:]
            X, kw = first, dict(kw, episode_feature=False)
        if 'int' in form:
            e = 1 if kw.get('episode_feature') else 0
            Xq = X.copy()
            Xq[:, e:] = np.round(Xq[:, e:] * 40)
            X = Xq.astype('int32' if form.startswith('int32') else 'int64')
        elif form in ('fortran', 'readonly'):
            X = st.in_form(X, form)
    if nu == 0 and rng.random() < 0.25:
        # FEWER snapshot pairs than states (a short record of a high-dimensional state): every SVD factor is then
        # rectangular the other way round, and the retained rank is bounded by the number of pairs
        form = 'wide'
        nx = rng.randint(4, 8)
        rs = np.random.RandomState(rng.randint(0, 2 ** 31 - 1))
        A0 = rs.randn(nx, nx)
        A0 *= rng.choice([0.7, 0.95]) / max(abs(np.linalg.eigvals(A0)))
        rows = [rs.randn(nx)]
        for _ in range(rng.randint(2, nx - 1)):
            rows.append(A0 @ rows[-1])
        X, kw = np.array(rows), {'n_inputs': 0, 'episode_feature': False}
    if form == 'float64' and rng.random() < 0.12:
        # a DEFECTIVE system (repeated eigenvalue with a single eigenvector: double integrator, critically damped
        # oscillator, Jordan blocks), noise-free: LAPACK returns nearly parallel modes and nearly equal eigenvalues
        form = 'defective'
        rs = np.random.RandomState(rng.randint(0, 2 ** 31 - 1))
        nx = rng.choice([2, 2, 3])
        mu, dt = rng.choice([1.0, 0.9, 0.5]), rng.choice([0.1, 0.5, 1.0])
        J = mu * np.eye(nx) + dt * np.eye(nx, k=1)
        if nx == 3 and rng.random() < 0.5:
            J[1, 2] = 0.0
            J[2, 2] = rng.choice([0.3, -0.6])
        B0 = rs.uniform(-1, 1, (nx, nu))
        blocks = []
        for l in range(rng.randint(1, 3)):
            n = rng.randint(12, 25)
            x = np.zeros((n, nx)); x[0] = rs.uniform(-1, 1, nx)
            u = rs.uniform(-1, 1, (n, nu))
            for k in range(n - 1):
                x[k + 1] = J @ x[k] + B0 @ u[k]
            blocks.append(np.hstack((np.full((n, 1), l), x, u)))
        X, kw = np.vstack(blocks), {'n_inputs': nu, 'episode_feature': True}
    mode = rng.choice(['exact', 'projected'])
    if form == 'defective' and rng.random() < 0.7:
        est = (pykoop.Dmd(mode_type=mode) if nu == 0 else pykoop.Dmdc(mode_type=mode))
        desc = f"{'Dmd' if nu == 0 else 'Dmdc'}({mode}, economy)"
    elif nu == 0 and rng.random() < (0.6 if form != 'wide' else 1.0):
        t, td = tsvd_choice(rng, min(nx, X.shape[0] - 1) if form == 'wide' else nx)
        est = pykoop.Dmd(mode_type=mode, tsvd=t)
        desc = f'Dmd({mode}, {td})'
    else:
        t1, d1 = tsvd_choice(rng, nx + nu)
        t2, d2 = tsvd_choice(rng, nx)
        est = pykoop.Dmdc(mode_type=mode, tsvd_unshifted=t1, tsvd_shifted=t2)
        desc = f'Dmdc({mode}, {d1}, {d2})'
    case = {'estimator': desc + (' wide data' if form == 'wide' else ''), 'nx': nx, 'nu': nu, 'form': form, 'X': X.tolist(), 'replay': {'rng': snap}}
    try:
        est.fit(X, **kw)
        if rng.random() < 0.3:
            # a second regressor built from the SAME Tsvd objects (hyper-parameters may be shared between estimators) is
            # fitted afterwards on data of another effective rank; the first one's published state must still be its own
            import sklearn.base
            other = type(est)(**{k: v for k, v in est.get_params(deep=False).items()})
            rs2 = np.random.RandomState(rng.randint(0, 2 ** 31 - 1))
            e2 = 1 if kw.get('episode_feature') else 0
            X2 = np.array(X, dtype=float)
            X2[:, e2:] = rs2.randn(X2.shape[0], 1) @ rs2.randn(1, X2.shape[1] - e2) + 1e-6 * rs2.randn(X2.shape[0], X2.shape[1] - e2)
            try:
                other.fit(X2, **kw)
                case['history'] = 'another regressor sharing the Tsvd hyper-parameter objects was fitted afterwards'
            except Exception:
                pass
    except Exception as ex:
        return None, case, 'fit raised ' + type(ex).__name__
    A = est.coef_.T[:, :nx]
    lam, V = est.eigenvalues_, est.modes_
    r = lam.shape[0]
    # the published truncation state belongs to this fit: retained rank = number of reported eigenvalues
    pub = est.tsvd_ if hasattr(est, 'tsvd_') else est.tsvd_shifted_
    if pub.singular_values_.shape[0] != r or pub.left_singular_vectors_.shape != (nx, r):
        return (f'{desc}: the published truncated SVD (retained rank {pub.singular_values_.shape[0]}) does not belong to this '
                f'fit ({r} eigenvalues_)'), case, None
    scale = max(1.0, np.max(np.abs(A)))
    tol = 1e-7 * scale * max(1.0, np.linalg.cond(V) if V.size else 1.0)
    if np.iscomplexobj(est.coef_):
        return 'coef_ is not real', case, None
    # hypotheses of the theorems, on the fitted factors
    Vp = linalg.lstsq(V.T, np.eye(r))[0].T if r else np.zeros((0, nx))     # a left inverse of V, independently
    if r and not np.allclose(Vp @ V, np.eye(r), atol=1e-8 * max(1.0, np.linalg.cond(V))):
        return None, case, 'modes not left-invertible (degenerate)'         # hypothesis not met: nothing claimed
    # conclusions on coef_
    if r and np.max(np.abs(A @ V - V * lam[None, :])) > tol:
        case['clause'] = 'eigenpairs'
        return (f'{desc}: (eigenvalues_, modes_) are not eigenpairs of the state-transition block of coef_ '
                f'(residual {np.max(np.abs(A @ V - V * lam[None, :])):.3g})', case, None)
    # hypotheses of C13_reconstruction_real on the fitted factors (accounted in the evidence, nothing is claimed
    # where they are not met): conjugate-closed eigenpairs
    if r:
        closed = all(any(abs(lam[j] - np.conj(lam[i])) <= 1e-8 * max(1.0, abs(lam[i]))
                         and np.linalg.norm(V[:, j] - np.conj(V[:, i])) <= 1e-6 * max(1e-300, np.linalg.norm(V[:, i]))
                         for j in range(r)) for i in range(r))
        case['conj_closed'] = bool(closed)
        svV = np.linalg.svd(V, compute_uv=False)
        # linearly dependent modes (LAPACK returns an exactly repeated eigenvalue with parallel eigenvectors for a
        # defective reduced operator): the hypothesis `V has a left inverse` of the C13 theorems is not met
        case['degenerate_modes'] = bool(svV[-1] <= 1e-12 * svV[0])
    rank_A = np.linalg.matrix_rank(A, tol=1e-9 * scale)
    if rank_A > r:
        case['clause'] = 'rank'
        return f'{desc}: rank of the state-transition block {rank_A} exceeds the retained rank {r}', case, None
    ev = np.linalg.eigvals(A)
    nz = sorted((e for e in ev if abs(e) > 1e-7 * scale), key=lambda z: (round(z.real, 6), round(z.imag, 6)))
    lam_nz = sorted((e for e in lam if abs(e) > 1e-7 * scale), key=lambda z: (round(z.real, 6), round(z.imag, 6)))
    if len(nz) != len(lam_nz) or any(min(abs(a - b) for b in lam_nz) > 1e-5 * scale for a in nz) \
            or any(min(abs(a - b) for b in nz) > 1e-5 * scale for a in lam_nz):
        case['clause'] = 'spectrum'
        return f'{desc}: non-zero spectrum of the state-transition block {nz} differs from eigenvalues_ {lam_nz}', case, None
    return None, case, None


def run(ctx):
    ctx.rule = ('Dmd and Dmdc fitted on random data (1..4 states, 0..2 inputs, stable / marginal / unstable, with and '
                'without noise) x mode_type {exact, projected} x truncation {economy, rank r, cutoff c} for both SVDs; '
                'the hypotheses of the theorems (left-invertible modes) and their conclusions (eigenpairs, rank bound, '
                'non-zero spectrum = eigenvalues_, real coef_) are evaluated numerically on the fitted attributes')
    ctx.explanation = ('level "other": the factors are irrational (orthonormal bases), so there is no exact executable model '
                       'to diff against; theorems C13_* are about the formula A_r = V Lambda V^+ and the tie is a numeric '
                       'validation of their hypotheses and conclusions on every fitted estimator (1e-7 scale tolerances)')
    ctx.assumptions = ['scipy.linalg.eig / lstsq / svd (LAPACK) are trusted and validated numerically',
                       'that LAPACK returns conjugate-closed eigenpairs (hypothesis of C13_reconstruction_real: then real(..) loses nothing) is validated on every fit, not proved']
    ctx.proof_obligations('Properties.C13', THEOREMS)
    def cases(n, stop_at_first=False):
        for i in range(n):
            why, case, note = check(ctx)
            ctx.count(case['estimator'].split('(')[0])
            ctx.count('form:' + case['form'])
            if note:
                ctx.count('note:' + note[:40])
            if 'conj_closed' in case:
                ctx.count('hypothesis conjugate-closed eigenpairs (C13_reconstruction_real): ' + ('met' if case['conj_closed'] else 'not met'))
            ctx.record_case({k: v for k, v in case.items() if k != 'X'}, True)
            if why:
                ctx.fail(why, case, {'estimator': case['estimator'].split('(')[0], 'clause': case.get('clause'),
                                     'degenerate_modes': case.get('degenerate_modes', False)})
                if stop_at_first:
                    return
    cases(ctx.n(150, 2500))
    # a broken proof with no failing fit so far: a larger population of fits (same oracle)
    return ctx.finish('other', lambda c: cases(1500, True))


def replay(ctx, path):
    """re-execute the oracle call that produced the replay (same PRNG state)"""
    obj = json.load(open(path))
    r = (obj.get('case') or {}).get('replay') if isinstance(obj.get('case'), dict) else None
    print(json.dumps({k: v for k, v in obj.items() if k != 'case'}, indent=1)[:1500])
    if not r:
        print('this replay carries no re-executable oracle call (broken proof: see "broken")')
        return 1
    ctx.restore(r['rng'])
    why, case, note = check(ctx)
    print('oracle now:', why or 'property holds on this input', '' if note is None else f'({note})')
    return 1 if why else 0
