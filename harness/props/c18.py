"""C18 - RBF features and generated centres follow their definitions."""
import json
import struct
from fractions import Fraction

import numpy as np
import scipy.stats
import sklearn.cluster
import sklearn.mixture

import pykoop
from .. import structural as st, core

THEOREMS = ['Pk.C18.C18_range_contains', 'Pk.C18.C18_symmetric_range', 'Pk.C18.C18_scaled_in_range',
            'Pk.C18.C18_linspace_in_range', 'Pk.C18.C18_grid_complete', 'Pk.C18.C18_grid_shape',
            'Pk.C18.C18_rbf_layout', 'Pk.C18.C18_default_offset', 'Pk.C18.C18_uniform_streams_int_witness']
RBFS = ['exponential', 'gaussian', 'multiquadric', 'inverse_quadratic', 'inverse_multiquadric', 'thin_plate', 'bump_function']


def bits(x):
    return str(struct.unpack('<Q', struct.pack('<d', float(x)))[0])


def unbits(t):
    return struct.unpack('<d', struct.pack('<Q', int(t)))[0]


def fmat(M):
    M = np.atleast_2d(np.asarray(M, dtype=float))
    return f'{M.shape[0]} {M.shape[1]} ' + ' '.join(bits(v) for v in M.ravel())


def rmat(M):
    M = np.atleast_2d(np.asarray(M))
    return f'{M.shape[0]} {M.shape[1]} ' + ' '.join(str(int(v)) for v in M.ravel())


def generators(rng, n_feat):
    nc = rng.choice([1, 2, 5])
    seed = rng.randint(0, 10 ** 5)
    st = rng.choice(['int', 'instance'])
    rs = lambda: (seed if st == 'int' else np.random.RandomState(seed))
    sym = rng.random() < 0.4
    out = [
        ('GridCenters', pykoop.GridCenters(n_points_per_feature=rng.choice([1, 2, 3]), symmetric_range=sym), {'sym': sym}),
        ('UniformRandomCenters', pykoop.UniformRandomCenters(n_centers=nc, symmetric_range=sym, random_state=rs()), {'sym': sym, 'seed_type': st, 'n_centers': nc}),
        ('QmcCenters', pykoop.QmcCenters(n_centers=nc, symmetric_range=sym, qmc=rng.choice([None, scipy.stats.qmc.Sobol, scipy.stats.qmc.Halton]),
                                         random_state=rs()), {'sym': sym, 'seed_type': st, 'n_centers': nc}),
        ('GaussianRandomCenters', pykoop.GaussianRandomCenters(n_centers=nc, random_state=rs()), {'seed_type': st, 'n_centers': nc}),
        ('ClusterCenters', pykoop.ClusterCenters(sklearn.cluster.KMeans(n_clusters=min(nc, 3), n_init=2, random_state=0)), {'n_centers': min(nc, 3)}),
        ('GaussianMixtureRandomCenters', pykoop.GaussianMixtureRandomCenters(n_centers=nc, estimator=sklearn.mixture.GaussianMixture(n_components=2, random_state=0)), {'n_centers': nc}),
        ('DataCenters', pykoop.DataCenters(), {}),
    ]
    return out


NP_RBF = {
    'exponential': lambda r: np.exp(-r),
    'gaussian': lambda r: np.exp(-r ** 2),
    'multiquadric': lambda r: np.sqrt(1 + r ** 2),
    'inverse_quadratic': lambda r: 1 / (1 + r ** 2),
    'inverse_multiquadric': lambda r: 1 / np.sqrt(1 + r ** 2),
    'thin_plate': lambda r: r ** 2 * np.log(r),
    'bump_function': lambda r: np.where(r < 1, np.exp(-1 / (1 - np.minimum(r, 1 - 1e-300) ** 2)), 0.0),
}


def oracle_rbf(tag, X, Xt, Cn):
    """the property statement: the appended features are R(shape * ||[x;u] - c|| + offset) for the named R; offset None
    means 0 except for thin_plate (1e-3)"""
    off = tag['offset'] if tag['offset'] is not None else (1e-3 if tag['rbf'] == 'thin_plate' else 0.0)
    r = tag['shape'] * np.linalg.norm(X[:, None, :] - Cn[None, :, :], axis=-1) + off
    with np.errstate(all='ignore'):
        want = np.hstack((X, NP_RBF[tag['rbf']](r)))
    if Xt.shape != want.shape or not np.allclose(Xt, want, rtol=1e-10, atol=1e-13, equal_nan=True):
        return (f"RbfLiftingFn(rbf={tag['rbf']!r}, shape={tag['shape']}, offset={tag['offset']}): appended features are not "
                f"R(shape*||[x;u]-c|| + offset) (max deviation {np.nanmax(np.abs(Xt - want)):.3g})")
    return None


def independence_probe(rng, seed_type):
    """random generators must not couple different features through a shared seed"""
    rs = np.random.RandomState(rng.randint(0, 2 ** 31 - 1))
    X = rs.uniform(-1, 1, (20, 3)) * np.array([1.0, 5.0, 0.2])
    seed = rng.randint(0, 10 ** 5)
    est = pykoop.UniformRandomCenters(n_centers=40, random_state=seed if seed_type == 'int' else np.random.RandomState(seed)).fit(X)
    C = est.centers_
    U = (C - est.range_min_) / (est.range_max_ - est.range_min_)
    for a in range(3):
        for b in range(a + 1, 3):
            rho = scipy.stats.spearmanr(U[:, a], U[:, b])[0]
            if abs(rho) > 0.8:
                return (f'UniformRandomCenters ({seed_type} seed): normalised coordinates of features {a} and {b} have rank '
                        f'correlation {rho:.3f} (max |difference| {np.max(np.abs(U[:, a] - U[:, b])):.2e}): the features share one random stream',
                        {'estimator': 'UniformRandomCenters', 'seed_type': seed_type, 'n_features': 3})
    return None


def instance_probe(rng, mode):
    """the centres of one fitted RbfLiftingFn are generated from ITS data: fitting another lifting function (default
    centres, or the same centre-generator object passed to both constructors) must not move them"""
    rs = np.random.RandomState(rng.randint(0, 2 ** 31 - 1))
    X1 = rs.uniform(-1, 1, (12, 2))
    X2 = rs.uniform(50, 60, (9, rng.choice([2, 3])))
    if mode == 'default':
        lf1, lf2 = pykoop.RbfLiftingFn(), pykoop.RbfLiftingFn()
    else:
        shared = pykoop.GridCenters(2) if mode == 'shared-grid' else pykoop.QmcCenters(n_centers=4, random_state=3)
        lf1, lf2 = pykoop.RbfLiftingFn(centers=shared), pykoop.RbfLiftingFn(centers=shared)
    tag = {'estimator': 'RbfLiftingFn', 'centers': mode, 'part': 'instances'}
    lf1.fit(X1)
    C1 = np.array(lf1.centers_.centers_)
    T1 = lf1.transform(X1)
    lo, hi = X1.min(axis=0), X1.max(axis=0)
    if np.any(C1 < lo - 1e-12) or np.any(C1 > hi + 1e-12):
        return f'RbfLiftingFn ({mode} centres): generated centres lie outside the range of the data', tag
    lf2.fit(X2)
    try:
        T1b = lf1.transform(X1)
    except Exception as ex:
        return (f'RbfLiftingFn ({mode} centres): after fitting ANOTHER lifting function, transform of the first one raises '
                f'{type(ex).__name__}'), tag
    C1b = np.array(lf1.centers_.centers_)
    if C1b.shape != C1.shape or not np.array_equal(C1b, C1) or not np.array_equal(T1b, T1):
        return (f'RbfLiftingFn ({mode} centres): fitting ANOTHER lifting function moved the centres of the first one '
                f'(now in [{C1b.min():.3g}, {C1b.max():.3g}], its data lie in [{lo.min():.3g}, {hi.max():.3g}])'), tag
    return None


def run(ctx):
    ctx.rule = ('integer data with 1..5 features: (a) range / grid / shape of all 7 centre generators (GridCenters compared '
                'with the exact-rational model incl. meshgrid order; random ones: shape (n_centers_, n_features), range '
                'membership, DataCenters = data) for counts incl. 1, symmetric range, QMC engines, int / RandomState seeds; '
                '(b) RbfLiftingFn.transform vs the Lean Float formula for all 7 radial functions, shape, offset incl. None, '
                'callables, n_inputs 0 and > 0; (c) cross-feature independence probe; (d) two lifting functions with default / '
                'shared centre generators fitted one after the other: the first keeps its own centres')
    ctx.explanation = ('theorems C18_* about the exact-rational model of ranges, linspace, the grid (completeness and count) and '
                       'range scaling, the RBF layout and the stream model; correspondence exact / 1e-12; sampling distributions '
                       'trusted; independence defect with integer seeds is a known finding')
    ctx.proof_obligations('Properties.C18', THEOREMS)
    drv = ctx.get_driver()
    lines, meta = [], []
    for i in range(ctx.n(60, 800)):
        rng = ctx.rng
        nf = rng.randint(1, 5)
        X = np.array([[rng.randint(-6, 6) for _ in range(nf)] for _ in range(rng.randint(4, 9))], dtype=float)
        # degenerate but valid data values: a feature held constant (an input kept at a fixed value, an exactly zero
        # column), sometimes every feature; a single sample
        deg = rng.random()
        if deg < 0.2:
            X[:, rng.randrange(nf)] = rng.choice([0, 0, 3, -2])
        elif deg < 0.25:
            X[:] = X[0]
        elif deg < 0.3:
            X = X[:1]
        # the integer-valued data in another valid form: integer dtype, Fortran order, read-only, strided view
        form = st.pick_form(rng, integral=True)
        Xf = st.in_form(X, form)
        for name, est, tag in generators(rng, nf):
            tag = dict(tag, generator=name, n_features=nf, form=form, constant_column=bool(np.any(X.max(axis=0) == X.min(axis=0))))
            if name == 'GridCenters' and est.n_points_per_feature ** nf > 300:
                continue
            try:
                est.fit(Xf)
            except Exception as ex:
                ctx.count(f'fit_raised:{name}:{type(ex).__name__}')
                continue
            ctx.count('gen:' + name)
            ctx.record_case(tag, True)
            C = np.asarray(est.centers_)
            if C.ndim != 2 or C.shape != (est.n_centers_, nf):
                ctx.fail(f'{name}: centers_ has shape {C.shape}, expected ({est.n_centers_}, {nf})', dict(tag, X=X.tolist()),
                         {'estimator': name, 'part': 'shape'})
                continue
            if 'n_centers' in tag and name not in ('ClusterCenters',) and est.n_centers_ != tag['n_centers']:
                ctx.fail(f'{name}: n_centers_ {est.n_centers_} != requested {tag["n_centers"]}', tag, {'estimator': name, 'part': 'shape'})
            if name in ('GridCenters', 'UniformRandomCenters', 'QmcCenters'):
                sym = tag['sym']
                lines.append(f"centers range {1 if sym else 0} {rmat(X)}")
                meta.append(('range', est, X, tag))
                lo, hi = np.asarray(est.range_min_), np.asarray(est.range_max_)
                if np.any(C < lo - 1e-12) or np.any(C > hi + 1e-12):
                    ctx.fail(f'{name}: a centre lies outside the per-feature range of the data', dict(tag, X=X.tolist()),
                             {'estimator': name, 'part': 'range'})
            if name == 'GridCenters':
                # definition, computed independently: the Cartesian product of n equally spaced points per feature over
                # the (possibly symmetric) range of the data
                import itertools
                lo_f, hi_f = X.min(axis=0), X.max(axis=0)
                if tag['sym']:
                    m_abs = np.maximum(np.abs(lo_f), np.abs(hi_f))
                    lo_f, hi_f = -m_abs, m_abs
                axes = [np.linspace(a, b, est.n_points_per_feature) for a, b in zip(lo_f, hi_f)]
                want = sorted(itertools.product(*[[float(v) for v in ax] for ax in axes]))
                got = sorted(tuple(float(v) for v in r) for r in C)
                if len(got) != len(want) or not np.allclose(np.array(got), np.array(want), rtol=1e-12, atol=1e-12):
                    ctx.fail(f'GridCenters ({form} data): centers_ is not the Cartesian grid of {est.n_points_per_feature} equally '
                             f'spaced points per feature over the data range', dict(tag, X=X.tolist()),
                             {'estimator': name, 'part': 'grid'})
                lines.append(f"centers grid {1 if tag['sym'] else 0} {est.n_points_per_feature} {rmat(X)}")
                meta.append(('grid', est, X, tag))
            if name == 'DataCenters' and not np.array_equal(C, X):
                ctx.fail('DataCenters: centres are not the data', tag, {'estimator': name})
    # RBF formula
    for i in range(ctx.n(60, 800)):
        rng = ctx.rng
        nx, nu = rng.randint(1, 3), rng.randint(0, 2)
        rs = np.random.RandomState(rng.randint(0, 2 ** 31 - 1))
        X = rs.uniform(-1.5, 1.5, (rng.randint(3, 6), nx + nu))
        if i < 3 * len(RBFS):           # systematic sweep first: every named function x {None, 0, positive} offset
            name = RBFS[i % len(RBFS)]
            offset = [None, 0, 0.25][i // len(RBFS)]
        else:
            name = rng.choice(RBFS)
            offset = rng.choice([None, None, 0.0, 0, 0.25])
        shape = rng.choice([0.5, 1.0, 2.0])
        Cn = rs.uniform(-1.5, 1.5, (rng.choice([1, 2, 4]), nx + nu))
        lf = pykoop.RbfLiftingFn(rbf=name, centers=pykoop.DataCenters(centers=Cn), shape=shape, offset=offset)
        lf.fit(X, n_inputs=nu)
        Xt = lf.transform(X)
        off = 'default' if offset is None else bits(offset)
        lines.append(f"rbf {name} {bits(shape)} {off} {fmat(Cn)} {fmat(X)}")
        tag_r = {'rbf': name, 'shape': shape, 'offset': offset, 'nx': nx, 'nu': nu}
        meta.append(('rbf', lf, (X, Xt), tag_r))
        why = oracle_rbf(tag_r, X, Xt, Cn)
        if why:
            ctx.fail(why, dict(tag_r, X=X.tolist(), centers=Cn.tolist()), {'part': 'rbf_formula', 'rbf': name})
        want = (nx + Cn.shape[0], 0) if nu == 0 else (nx, nu + Cn.shape[0])
        if (lf.n_states_out_, lf.n_inputs_out_) != want:
            ctx.fail('RBF features are not declared in the block C02 says', {'nx': nx, 'nu': nu}, {'part': 'layout'})
        # callable radial function
        if i % 10 == 0:
            lf2 = pykoop.RbfLiftingFn(rbf=lambda r: 1.0 / (1.0 + r), centers=pykoop.DataCenters(centers=Cn), shape=shape, offset=offset)
            lf2.fit(X, n_inputs=nu)
            r = shape * np.linalg.norm(X[:, None, :] - Cn[None, :, :], axis=-1) + (0 if offset is None else offset)
            if not np.allclose(lf2.transform(X), np.hstack((X, 1.0 / (1.0 + r))), rtol=1e-12):
                ctx.fail('RbfLiftingFn with a callable does not append R(shape*||[x;u]-c|| + offset)', {'shape': shape}, {'part': 'callable'})
    for (kind, est, X, tag), rep in zip(meta, drv.ask(lines)):
        t = rep.split()
        if kind == 'range':
            vals = [float(Fraction(x)) for x in t[1:]]
            lo, hi = vals[0::2], vals[1::2]
            if t[0] != 'ok' or not np.allclose(lo, est.range_min_, rtol=0, atol=0) or not np.allclose(hi, est.range_max_, rtol=0, atol=0):
                ctx.mismatch('feature range', tag, [list(map(float, est.range_min_)), list(map(float, est.range_max_))], [lo, hi])
        elif kind == 'grid':
            r_, c_ = int(t[1]), int(t[2])
            G = np.array([float(Fraction(x)) for x in t[3:3 + r_ * c_]]).reshape(r_, c_) if r_ * c_ else np.zeros((r_, c_))
            C = np.asarray(est.centers_)
            if G.shape != C.shape or not np.allclose(G, C, rtol=1e-12, atol=1e-12):
                ctx.mismatch('GridCenters (values and meshgrid order)', tag, C.tolist(), G.tolist())
        else:
            X0, Xt = X
            ctx.count('rbf:' + tag['rbf'])
            ctx.record_case(tag, True)
            vals = np.array([unbits(x) for x in t[1:]]).reshape(Xt.shape) if t[0] == 'ok' and len(t) - 1 == Xt.size else None
            if vals is None or not np.allclose(vals, Xt, rtol=1e-11, atol=1e-13, equal_nan=True):
                ctx.mismatch('RBF feature formula', tag, Xt.tolist(), None if vals is None else vals.tolist())
    # SIZE form + results already handed out: many samples x many centres (beyond any buffer threshold); the features
    # returned for one matrix must follow the formula, and must STILL do so after another matrix of the same size was lifted
    for epf in (False, True):
        for name in ('gaussian', 'multiquadric'):
            rs = np.random.RandomState(ctx.rng.randint(0, 2 ** 31 - 1))
            nx, nu, nrow, ncen = 2, 1, 400, 60
            Cn = rs.uniform(-1.5, 1.5, (ncen, nx + nu))
            lab = np.repeat([0.0, 4.0], nrow // 2)[:, None]
            Xa, Xb = rs.uniform(-1.5, 1.5, (nrow, nx + nu)), rs.uniform(-1.5, 1.5, (nrow, nx + nu))
            lf = pykoop.RbfLiftingFn(rbf=name, centers=pykoop.DataCenters(centers=Cn), shape=0.75)
            full = (lambda M: np.hstack((lab, M))) if epf else (lambda M: M)
            lf.fit(full(Xa), n_inputs=nu, episode_feature=epf)
            Ta = lf.transform(full(Xa))
            tag_r = {'rbf': name, 'shape': 0.75, 'offset': None, 'nx': nx, 'nu': nu, 'size_form': f'{nrow} samples x {ncen} centres',
                     'episode_feature': epf}
            ctx.count('size form / returned results')
            ctx.record_case(tag_r, True)
            why = oracle_rbf(tag_r, Xa, Ta[:, (1 if epf else 0):], Cn)
            if not why:
                lf.transform(full(Xb))
                lf.lift_state(full(Xb)[:, :(1 if epf else 0) + nx])
                why = oracle_rbf(tag_r, Xa, Ta[:, (1 if epf else 0):], Cn)
                if why:
                    why = 'the lifted matrix returned for one data matrix was overwritten by a later call on the same estimator: ' + why
            if why:
                ctx.fail(why, tag_r, {'part': 'rbf_formula', 'rbf': name, 'size': 'large'})
    for seed_kind in ('int', 'instance'):
        for _ in range(ctx.n(2, 10)):
            res = independence_probe(ctx.rng, seed_kind)
            ctx.count('independence:' + seed_kind)
            if res:
                ctx.fail(res[0], {'probe': 'independence'}, res[1])
    for mode in ('default', 'shared-grid', 'shared-qmc'):
        res = instance_probe(ctx.rng, mode)
        ctx.count('instances:' + mode)
        if res:
            ctx.fail(res[0], {'probe': 'instances', 'mode': mode}, res[1])
    return ctx.finish('proof', None)


def replay(ctx, path):
    print(open(path).read()[:3000])
    return 1
