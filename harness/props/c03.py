"""C03 - Episodes are never mixed and samples keep their temporal order."""
import json
import zlib

import numpy as np

import pykoop
from .. import core, pipes, structural as st

THEOREMS = ['Pk.C03.C03_transform_refines', 'Pk.C03.C03_inverse_refines', 'Pk.C03.C03_layout_irrelevant', 'Pk.C03.C03_window',
            'Pk.C03.C03_slice', 'Pk.C03.C03_utils', 'Pk.C03.C03_split_combine', 'Pk.C03.C03_provenance_sound']
KINDS = ['poly', 'bilinear', 'const', 'delay', 'delay', 'sk', 'angle', 'rbf', 'kernel']
ALG = ['poly', 'bilinear', 'const', 'delay', 'delay']


def row_deps_model(reply, case):
    """for each output row: (label, set of input rows it may depend on)"""
    rows, err = st.parse_reply_mat(reply)
    if err:
        return None
    w = case['nx'] + case['nu']
    out = []
    for l, cells in rows:
        d = set()
        for c in cells:
            if c != '-':
                d |= {int(x) // w for x in c.split(',')}
        out.append((l, d))
    return out


def same(a, b):
    """unchanged up to the last bits (vectorised elementary functions may round a lane differently when OTHER lanes change)"""
    a, b = np.asarray(a, dtype=float), np.asarray(b, dtype=float)
    return a.shape == b.shape and np.allclose(a, b, rtol=1e-11, atol=1e-13, equal_nan=True)


def row_deps_impl(case, est, what='transform', Y=None):
    """perturb one input row at a time; which output rows move"""
    X = st.X_of(case) if Y is None else Y
    ep = 1 if case['ep'] else 0
    f = getattr(est, what)
    base = f(X)
    deps = [set() for _ in range(base.shape[0])]
    for i in range(X.shape[0]):
        Xp = X.copy()
        Xp[i, ep:] = (Xp[i, ep:] * 3 + 7) if Xp.dtype.kind in 'iu' else (Xp[i, ep:] * 1.37 + 0.211)   # never a fixed point
        out = f(Xp)
        for k in range(base.shape[0]):
            if not same(out[k, ep:], base[k, ep:]):
                deps[k].add(i)
    labels = [int(r[0]) if ep else 0 for r in base]
    return list(zip(labels, deps))


def util_lines(case):
    """requests for the episode utilities on the case's (integer) data"""
    body = pipes.mat_tokens([[int(v) for v in r] for r in case['rows']], case['ep'])
    nu, m = case['nu'], case['min_len']
    return [f'util split {body}', f'util shift {nu} {body}', f'util ic {m} {nu} {body}',
            f'util input {nu} {body}', f'util strip {m} {body}']


def util_impl(case):
    X = st.X_of(case)
    ep, nu, m = case['ep'], case['nu'], case['min_len']
    outs = []
    eps = pykoop.split_episodes(X, episode_feature=ep)
    outs.append([pykoop.combine_episodes([(l, Xe)], episode_feature=ep) for l, Xe in eps])
    un, sh = pykoop.shift_episodes(X, n_inputs=nu, episode_feature=ep)
    outs.append([un, sh])
    outs.append([pykoop.extract_initial_conditions(X, min_samples=m, n_inputs=nu, episode_feature=ep)])
    outs.append([pykoop.extract_input(X, n_inputs=nu, episode_feature=ep)])
    outs.append([pykoop.strip_initial_conditions(X, min_samples=m, episode_feature=ep)])
    return outs


def cmp_util(case, impl_list, reply, kind):
    t = reply.split()
    if t[0] != 'ok':
        return 'model: ' + reply[:100]
    pos = 1
    if kind == 'split':
        k = int(t[1])
        pos = 2
        if k != len(impl_list):
            return f'episode count impl={len(impl_list)} model={k}'
    for A in impl_list:
        if t[pos] == '|':
            pos += 1
        rows, pos = pipes.parse_mat(t, pos)
        why = st.cmp_int_rows(st.impl_rows(A, case['ep']), rows)
        if why:
            return why
    return None


def _oracle(case, est=None, tol=1e-12):
    """per-episode-vs-whole and time-window locality, directly on the implementation (float data)"""
    try:
        if est is None:
            est = st.fit_case(case)
    except Exception:
        return None
    X = st.X_of(case)
    ep = case['ep']
    e = 1 if ep else 0
    Xt = est.transform(X)
    eps, eps_t = st.episodes(X, ep), st.episodes(Xt, ep)
    m = est.min_samples_
    if set(eps_t) - set(eps):
        return f'labels appear from nowhere: {sorted(set(eps_t) - set(eps))}'
    # output rows grouped by ascending label or in place, but each episode's rows in time order
    for l, Xe in eps.items():
        if Xe.shape[0] < m:
            continue
        alone = st.ref_combine([(l, Xe)], ep)
        Ta = est.transform(alone)[:, e:]
        if l not in eps_t:
            return f'episode {l} vanished'
        if Ta.shape != eps_t[l].shape or not np.allclose(Ta, eps_t[l], rtol=tol, atol=tol):
            return f'episode {l}: transform of the whole matrix differs from transform of the episode alone'
        # window locality for the last output sample
        if Xe.shape[0] > m:
            win = st.ref_combine([(l, Xe[-m:, :])], ep)
            Tw = est.transform(win)[:, e:]
            if Tw.shape[0] != 1 or not np.allclose(Tw[0], eps_t[l][-1], rtol=tol, atol=tol):
                return f'episode {l}: last lifted sample is not a function of the last min_samples_={m} samples'
    Xr = est.inverse_transform(Xt)
    eps_r = st.episodes(Xr, ep)
    for l in eps_t:
        alone = st.ref_combine([(l, eps_t[l])], ep)
        Ra = est.inverse_transform(alone)[:, e:]
        if l not in eps_r or Ra.shape != eps_r[l].shape or not np.allclose(Ra, eps_r[l], rtol=tol, atol=tol):
            return f'episode {l}: inverse_transform of the whole matrix differs from the episode alone'
    if ep:
        # HISTORY: the SAME array object is transformed, its episode column is rewritten in place (episodes re-cut and
        # renumbered), and it is transformed again at once: the second result must follow the labels the array has NOW
        X1 = np.array(X, dtype=float)
        est.transform(X1)
        pykoop.split_episodes(X1, episode_feature=True)
        lab = X1[:, 0].copy()
        big = max(eps, key=lambda l: eps[l].shape[0])
        idx = np.flatnonzero(lab == big)
        new = lab + 2                                   # renumber every episode ...
        if idx.shape[0] >= 2 * m:
            new[idx[idx.shape[0] // 2:]] = lab.max() + 7    # ... and cut the longest one in two
        X1[:, 0] = new
        got = [(int(l), np.array(b)) for l, b in pykoop.split_episodes(X1, episode_feature=True)]
        want = st.ref_split(X1, True)
        if len(got) != len(want) or any(a[0] != b[0] or a[1].shape != b[1].shape or not np.array_equal(a[1], b[1])
                                        for a, b in zip(got, want)):
            return ('split_episodes on an array whose episode column was rewritten in place since the previous call does not '
                    'group the rows by their current labels')
        T1 = est.transform(X1)
        eps1, eps1_t = st.episodes(X1, True), st.episodes(T1, True)
        if set(eps1_t) - set(eps1):
            return (f'after rewriting the episode column in place, transform returns labels {sorted(set(eps1_t) - set(eps1))} '
                    f'that the array no longer contains')
        for l, Xe in eps1.items():
            if Xe.shape[0] < m:
                continue
            Ta = est.transform(st.ref_combine([(l, Xe)], True))[:, 1:]
            if l not in eps1_t or Ta.shape != eps1_t[l].shape or not np.allclose(Ta, eps1_t[l], rtol=tol, atol=tol):
                return (f'after rewriting the episode column in place, episode {l} of transform(X) differs from the transform '
                        f'of that episode alone')
    return None


# ----------------------------------------------------------------------------- the convenience routes
# lift / lift_state / lift_input / retract / retract_state / retract_input accept an `episode_feature` flag that may differ from
# the one the estimator was fitted with; whatever the combination, the rows returned for a label must be what that episode
# alone gives. The reference goes through transform / inverse_transform of ONE episode in the estimator's own format (that
# base route is itself checked by `_oracle`), with the padding / stripping the documentation of the route describes.

LIFT_ROUTES = ('lift', 'lift_state', 'lift_input')
RETRACT_ROUTES = ('retract', 'retract_state', 'retract_input')


def labelled_matrix(case, m):
    """the case's data as a matrix WITH a label column; an unlabelled case becomes two episodes (labels 3 then 1, not
    ascending) when it is long enough for both halves to hold `m` samples, one episode labelled 0 otherwise"""
    X = np.array(case['rows'], dtype=float)
    if case['ep']:
        return X
    n = X.shape[0]
    lab = np.zeros((n, 1))
    if n >= 2 * m:
        lab[:n // 2, 0] = 3
        lab[n // 2:, 0] = 1
    return np.hstack((lab, X))


def first_appearance(X):
    seen = []
    for v in X[:, 0]:
        if int(v) not in seen:
            seen.append(int(v))
    return seen


def _route_arg(route, B, nx, nso):
    """columns of an (unlabelled) full block that the route takes"""
    if route == 'lift_state':
        return B[:, :nx]
    if route == 'retract_state':
        return B[:, :nso]
    if route == 'retract_input':
        return B[:, nso:]
    return B


def _route_alone(est, route, A):
    """reference: ONE episode `A` (no label column; already restricted to the columns the route takes) through the base
    route of the estimator in the estimator's own format"""
    e = 1 if est.episode_feature_ else 0
    nsi, nso = est.n_states_in_, est.n_states_out_
    z = lambda k: np.zeros((A.shape[0], k))
    nat = lambda B: st.ref_combine([(0, B)], bool(est.episode_feature_))
    if route == 'lift':
        return est.transform(nat(A))[:, e:]
    if route == 'lift_state':
        return est.transform(nat(np.hstack((A, z(est.n_inputs_in_)))))[:, e:][:, :nso]
    if route == 'lift_input':
        return est.transform(nat(A))[:, e:][:, nso:]
    if route == 'retract':
        return est.inverse_transform(nat(A))[:, e:]
    if route == 'retract_state':
        return est.inverse_transform(nat(np.hstack((A, z(est.n_inputs_out_)))))[:, e:][:, :nsi]
    if route == 'retract_input':
        return est.inverse_transform(nat(np.hstack((z(nso), A))))[:, e:][:, nsi:]
    raise ValueError(route)


def _routes_oracle(case, tol=1e-12):
    CLOSE = dict(rtol=tol, atol=tol)
    spec, nx, nu = case['spec'], case['nx'], case['nu']
    body = np.array(case['rows'], dtype=float)
    if case['ep']:
        body = body[:, 1:]
    ests = {}
    try:
        ests[False] = pipes.fit(spec, st.in_form(body, case.get('form')), nu, False)
    except Exception:
        pass
    m = ests[False].min_samples_ if False in ests else pipes.loss(spec) + 1
    XL = labelled_matrix(case, m)
    try:
        ests[True] = pipes.fit(spec, st.in_form(XL, case.get('form')), nu, True)
    except Exception:
        pass
    order = first_appearance(XL)
    eps = st.episodes(XL, True)
    for fitted_with, est in ests.items():
        m = est.min_samples_
        if any(Xe.shape[0] < m for Xe in eps.values()):
            continue            # an episode too short to be lifted: outside the statement
        nso = est.n_states_out_
        tag = f"estimator fitted with episode_feature={fitted_with}"
        # lifted episodes (reference) - they are also the data of the retract routes
        try:
            lifted = {l: _route_alone(est, 'lift', eps[l]) for l in order}
        except Exception:
            continue
        data = {'lift': (XL, eps), 'retract': (st.ref_combine([(l, lifted[l]) for l in order], True), lifted)}
        for route in LIFT_ROUTES + RETRACT_ROUTES:
            M, blocks = data['lift' if route in LIFT_ROUTES else 'retract']
            args = {l: _route_arg(route, blocks[l], nx, nso) for l in order}
            whole = _route_arg(route, M[:, 1:], nx, nso)
            try:
                want = {l: _route_alone(est, route, args[l]) for l in order}
                want_whole = _route_alone(est, route, whole)
            except Exception:
                continue        # the base route does not accept this (padded) data: nothing to compare with
            f = getattr(est, route)
            for flag in (True, False, None):
                labelled = fitted_with if flag is None else flag
                where = f'{route}(X, episode_feature={flag}), {tag}'
                try:
                    arg = np.hstack((M[:, [0]], whole)) if labelled else whole
                    got = np.asarray(f(st.in_form(arg, case.get('form')), episode_feature=flag))
                except Exception as ex:
                    return f'{where}: raised {type(ex).__name__}: {str(ex)[:160]} (each episode alone is accepted)'
                if not labelled:
                    if got.shape != want_whole.shape or not np.allclose(got, want_whole, **CLOSE):
                        return (f'{where}: the rows as ONE unlabelled episode give {got.shape}, the base route on that '
                                f'episode gives {want_whole.shape}' + ('' if got.shape != want_whole.shape else ' with other values'))
                    continue
                if got.ndim != 2 or got.shape[1] != 1 + want_whole.shape[1]:
                    return f'{where}: result has shape {got.shape}, expected a label column and {want_whole.shape[1]} features'
                try:
                    got_eps = st.episodes(got, True)
                except Exception:
                    return f'{where}: the label column of the result does not hold integer labels'
                if set(got_eps) != set(want):
                    return f'{where}: labels returned {sorted(got_eps)}, labels of the data {sorted(want)}'
                for l in order:
                    if got_eps[l].shape != want[l].shape:
                        return (f'{where}: episode {l} comes back with {got_eps[l].shape[0]} rows, that episode alone gives '
                                f'{want[l].shape[0]} (min_samples_={m}, {len(order)} episodes)')
                    if not np.allclose(got_eps[l], want[l], **CLOSE):
                        k = int(np.flatnonzero(~np.all(np.isclose(got_eps[l], want[l], **CLOSE), axis=1))[0])
                        return (f'{where}: row {k} of episode {l} differs from what that episode alone gives '
                                f'(min_samples_={m}, {len(order)} episodes)')
    return None


def routes_oracle(case, tol=1e-12):
    try:
        return _routes_oracle(case, tol)
    except Exception as ex:
        return f'lift / retract routes: {type(ex).__name__}: {ex}'


def route_categories(case):
    """coverage keys of the route oracle for one case"""
    n_eps = len({r[0] for r in case['rows']}) if case['ep'] else (2 if len(case['rows']) >= 2 * (pipes.loss(case['spec']) + 1) else 1)
    dep = 'episode-dependent stages' if pipes.loss(case['spec']) > 0 else 'sample-wise stages'
    return [f"routes lift*/retract* x episode_feature flag (fitted with and without): {dep}, {'>=2 episodes' if n_eps >= 2 else '1 episode'}"]


# ----------------------------------------------------------------------------- the argument PASSING forms of fit
# `fit(X, y=None, n_inputs=0, episode_feature=False)` (also KoopmanPipeline.fit_transformers, and fit_transform, which forwards
# its keyword arguments to fit) may be called with the fit parameters by keyword (any order), by position, mixed, with `y`
# given or omitted, with `X` by keyword, and with a parameter left out when its value is the default. Whatever the form, the
# estimator must end up fitted with the episode feature / number of inputs THE CALLER STATED (expected values come from the
# case, not from the estimator), and every per-episode result must be the one of the plain keyword call.

def call_forms(X, nu, ep):
    """[(name, args, kwargs)] - every way the signature allows to say `n_inputs=nu, episode_feature=ep`"""
    forms = [
        ('fit(X, n_inputs=n, episode_feature=e)', (X,), {'n_inputs': nu, 'episode_feature': ep}),
        ('fit(X, episode_feature=e, n_inputs=n)', (X,), {'episode_feature': ep, 'n_inputs': nu}),
        ('fit(X, None, n, e)', (X, None, nu, ep), {}),
        ('fit(X, None, n, episode_feature=e)', (X, None, nu), {'episode_feature': ep}),
        ('fit(X, None, n_inputs=n, episode_feature=e)', (X, None), {'n_inputs': nu, 'episode_feature': ep}),
        ('fit(X, y=None, n_inputs=n, episode_feature=e)', (X,), {'y': None, 'n_inputs': nu, 'episode_feature': ep}),
        ('fit(X=X, n_inputs=n, episode_feature=e)', (), {'X': X, 'n_inputs': nu, 'episode_feature': ep}),
        ('fit(X=X, y=None, episode_feature=e, n_inputs=n)', (), {'X': X, 'y': None, 'episode_feature': ep, 'n_inputs': nu}),
    ]
    if not ep:
        forms.append(('fit(X, None, n)  [episode_feature left at its default False]', (X, None, nu), {}))
        forms.append(('fit(X, n_inputs=n)  [episode_feature left at its default False]', (X,), {'n_inputs': nu}))
    if int(nu) == 0:
        forms.append(('fit(X, episode_feature=e)  [n_inputs left at its default 0]', (X,), {'episode_feature': ep}))
        if not ep:
            forms.append(('fit(X)  [both left at their defaults]', (X,), {}))
            forms.append(('fit(X, None)  [both left at their defaults]', (X, None), {}))
    return forms


def call_hosts(spec):
    """[(description, constructor, methods)] - the estimators whose fit-like methods take the fit parameters: the case's own
    estimator, and (for a lifting function / SplitPipeline) a KoopmanPipeline that holds it as its only stage"""
    if spec['k'] == 'pipe':
        return [('KoopmanPipeline', lambda: pipes.build(spec), ('fit_transformers', 'fit', 'fit_transform'))]
    name = 'SplitPipeline' if spec['k'] == 'split' else 'lifting function'
    wrap = lambda: pykoop.KoopmanPipeline(lifting_functions=[('w', pipes.build(spec))], regressor=pykoop.DataRegressor())
    return [(name, lambda: pipes.build(spec), ('fit', 'fit_transform')),
            ('KoopmanPipeline around the ' + name, wrap, ('fit_transformers', 'fit'))]


def _per_episode(est, X, ep, tol):
    """the property itself on ONE fitted estimator: transform / inverse_transform of the whole matrix, grouped by the labels
    of the DATA, are what each episode alone gives"""
    e = 1 if ep else 0
    Xt = np.asarray(est.transform(X))
    eps = st.episodes(X, ep)
    want_rows = {}
    for l, Xe in eps.items():
        Ta = np.asarray(est.transform(st.ref_combine([(l, Xe)], ep)))
        want_rows[l] = Ta
    n_want = sum(T.shape[0] for T in want_rows.values())
    if Xt.shape[0] != n_want:
        return (f'transform of the whole matrix has {Xt.shape[0]} rows, the episodes one at a time give '
                f'{[want_rows[l].shape[0] for l in sorted(want_rows)]} (sum {n_want}): lifted rows combine samples of different episodes')
    try:
        eps_t = st.episodes(Xt, ep)
    except Exception:
        return 'the label column of transform(X) does not hold integer labels'
    if ep and not all(float(v).is_integer() for v in np.asarray(Xt, dtype=float)[:, 0]):
        return 'the label column of transform(X) does not hold the labels of the data'
    if set(eps_t) != set(eps):
        return f'transform(X) returns labels {sorted(eps_t)}, the data has {sorted(eps)}'
    for l in eps:
        Ta = want_rows[l][:, e:]
        if Ta.shape != eps_t[l].shape or not np.allclose(Ta, eps_t[l], rtol=tol, atol=tol):
            return f'episode {l}: transform of the whole matrix differs from transform of the episode alone'
    Xr = np.asarray(est.inverse_transform(Xt))
    eps_r = st.episodes(Xr, ep)
    for l in eps_t:
        Ra = np.asarray(est.inverse_transform(st.ref_combine([(l, eps_t[l])], ep)))[:, e:]
        if l not in eps_r or Ra.shape != eps_r[l].shape or not np.allclose(Ra, eps_r[l], rtol=tol, atol=tol):
            return f'episode {l}: inverse_transform of the whole matrix differs from the episode alone'
    return None


def _call_forms_oracle(case, tol=1e-12):
    spec, nx, nu, ep = case['spec'], case['nx'], case['nu'], bool(case['ep'])
    X = st.X_of(case)
    n_arg, e_arg = pipes.arg_forms(spec, nu, ep)
    forms = call_forms(X, n_arg, e_arg)
    try:
        ref = pipes.fit(spec, X, nu, ep)              # the documented keyword call (checked by `_oracle` above)
        Xt_ref = np.asarray(ref.transform(X))
        Xr_ref = np.asarray(ref.inverse_transform(Xt_ref))
    except Exception:
        return None
    if any(Xe.shape[0] < ref.min_samples_ for Xe in st.episodes(X, ep).values()):
        return None                 # an episode too short to be lifted: outside the statement
    pick = zlib.crc32(json.dumps([spec, nx, nu, ep, len(case['rows'])], sort_keys=True, default=str).encode())
    for h, (host, make, methods) in enumerate(call_hosts(spec)):
        if h > 0:
            methods = methods[pick % len(methods):][:1]        # the wrapping pipeline: one of its fit methods per case
        for k, method in enumerate(methods):
            usable = [f for f in forms if not (method == 'fit_transform' and len(f[1]) > 2)]
            # (fit_transform(X, y=None, **fit_params): the fit parameters are keyword-only there)
            if h == 0 and k == 0:
                todo = usable                   # the case's own estimator, its main fit method: every form
            else:
                # the other methods / hosts: always one form with the fit parameters BY POSITION (all of them, or n_inputs only;
                # where the signature allows it) plus one more form, both chosen by the case, so that every form meets every
                # method over the population
                by_pos = [f for f in usable if len(f[1]) > 2][:2]
                todo = by_pos[(pick + h + k) % 2:][:1] + [usable[(pick // 2 + 7 * h + k) % len(usable)]]
                todo = [f for i, f in enumerate(todo) if f[0] not in [g[0] for g in todo[:i]]]
            for name, args, kwargs in todo:
                call = name.replace('fit(', method + '(', 1)
                where = f'{host}.{call} with n={nu}, e={ep}'
                est = make()
                try:
                    out = getattr(est, method)(*args, **kwargs)
                except Exception as ex:
                    try:
                        getattr(make(), method)(X, n_inputs=n_arg, episode_feature=e_arg)
                    except Exception:
                        break                   # this host / method does not accept the data even by keyword: nothing to compare
                    return f'{where}: raised {type(ex).__name__}: {str(ex)[:160]} (the keyword call is accepted)'
                if method == 'fit_transform':
                    out = np.asarray(out)
                    if out.shape != Xt_ref.shape or not np.allclose(out, Xt_ref, rtol=tol, atol=tol, equal_nan=True):
                        return (f'{where}: returned {out.shape}, fit(X, n_inputs=n, episode_feature=e).transform(X) gives '
                                f'{Xt_ref.shape}' + ('' if out.shape != Xt_ref.shape else ' with other values'))
                elif out is not est:
                    return f'{where}: did not return the estimator'
                # what the caller stated (from the case, not from any estimator)
                wrong = []
                try:
                    if bool(est.episode_feature_) != ep:
                        wrong.append(f'episode_feature_={est.episode_feature_!r} (caller said {ep})')
                    if int(est.n_inputs_in_) != nu:
                        wrong.append(f'n_inputs_in_={est.n_inputs_in_!r} (caller said {nu})')
                    if int(est.n_states_in_) != nx:
                        wrong.append(f'n_states_in_={est.n_states_in_!r} (data has {nx} states)')
                    if int(est.min_samples_) != int(ref.min_samples_):
                        wrong.append(f'min_samples_={est.min_samples_!r} (keyword call: {ref.min_samples_})')
                except AttributeError as ex:
                    wrong.append(f'fitted attribute missing: {ex}')
                differs = None
                try:
                    Xt = np.asarray(est.transform(X))
                    if Xt.shape != Xt_ref.shape or not np.allclose(Xt, Xt_ref, rtol=tol, atol=tol, equal_nan=True):
                        differs = (f'transform(X) has shape {Xt.shape}, after the keyword call {Xt_ref.shape}'
                                   + ('' if Xt.shape != Xt_ref.shape else ' with other values'))
                    else:
                        Xr = np.asarray(est.inverse_transform(Xt_ref))
                        if Xr.shape != Xr_ref.shape or not np.allclose(Xr, Xr_ref, rtol=tol, atol=tol, equal_nan=True):
                            differs = (f'inverse_transform has shape {Xr.shape}, after the keyword call {Xr_ref.shape}'
                                       + ('' if Xr.shape != Xr_ref.shape else ' with other values'))
                except Exception as ex:
                    differs = f'transform / inverse_transform raised {type(ex).__name__}: {str(ex)[:160]} (fine after the keyword call)'
                if wrong or differs:
                    direct = None
                    try:
                        direct = _per_episode(est, X, ep, tol)
                    except Exception as ex:
                        direct = f'per-episode comparison raised {type(ex).__name__}: {str(ex)[:120]}'
                    parts = [p for p in (direct, '; '.join(wrong) if wrong else None, differs) if p]
                    return f'{where}: ' + ' | '.join(parts)
    return None


def call_forms_oracle(case, tol=1e-12):
    try:
        return _call_forms_oracle(case, tol)
    except Exception as ex:
        return f'fit call forms: {type(ex).__name__}: {ex}'


def call_form_categories(case):
    """coverage keys of the call-form oracle for one case"""
    dep = 'episode-dependent stages' if pipes.loss(case['spec']) > 0 else 'sample-wise stages'
    what = f"{'episode feature' if case['ep'] else 'no episode feature'}, {'inputs' if case['nu'] else 'no inputs'}"
    hosts = ' + '.join(h for h, _, _ in call_hosts(case['spec']))
    return [f'fit call forms (keyword / positional / mixed / defaults omitted) on {hosts}: {dep}, {what}']


def rounding_noise(case):
    """how far rounding-level changes of the data (relative / absolute 1e-15 and 1e-14: a few units in the last place) move
    the implementation's OWN lifted output, relative to max(1, |value|). A lifting with a large gain (a Nystroem map fitted
    on nearly repeated samples has a normalisation with entries 1e5 .. 1e6) turns the last-bit differences between the
    evaluation of one row and of a batch of rows into 1e-11 .. 1e-9"""
    worst = 0.0
    try:
        est = st.fit_case(case)
        X = np.array(st.X_of(case), dtype=float)
        e = 1 if case['ep'] else 0
        base = est.transform(X)
        for eps in (1e-15, -1e-15, 1e-14, -1e-14):
            Z = X.copy()
            Z[:, e:] = Z[:, e:] * (1 + eps) + eps
            out = est.transform(Z)
            if out.shape != base.shape:
                return 0.0
            d = np.abs(out - base) / np.maximum(1.0, np.abs(base))
            d = d[np.isfinite(d)]
            if d.size:
                worst = max(worst, float(d.max()))
    except Exception:
        return 0.0
    return worst


def oracle(case, est=None):
    def at(tol):
        try:
            why = _oracle(case, est, tol)
        except Exception as ex:
            return f'transform / inverse_transform raised {type(ex).__name__}: {ex}'
        return why or routes_oracle(case, tol) or call_forms_oracle(case, tol)
    why = at(1e-12)
    if why:
        # every comparison is made at 1e-12. Only where that FAILS and the measured rounding noise of the lifting itself
        # is above 1e-13 (so 1e-12 is within the rounding level of this fitted lifting, not a statement about episodes)
        # are the values compared at 100 x that noise, never beyond 1e-6: mixing episodes, a wrong window or a wrong row
        # changes values by their own order of magnitude. Shapes, labels and row counts are compared exactly throughout.
        noise = rounding_noise(case)
        if noise > 1e-13:
            why = at(min(1e-6, max(1e-12, 100 * noise)))
    return why


def population_search(ctx):
    """failing-input search over a fresh population (also used when an exception raised inside the implementation
    ended the correspondence run early)"""
    for i in range(400):
        c = st.gen_case(ctx.rng, KINDS, max_depth=3, cap=30, opaque=True)
        why = oracle(c)
        if why:
            ctx.fail(why, c, {'kinds': sorted(pipes.kinds_in(c['spec']))})
            return


def run(ctx):
    ctx.rule = ('layout-heavy generator: 1..4 episodes, lengths min_samples_..+4, labels like [7,0,3], block order '
                'permuted, rows interleaved; random trees of all kinds; observations: row provenance '
                '(model: dependency instance, implementation: single-row perturbation) for transform and '
                'inverse_transform, exact values, and the episode utilities verbatim on integer data; every case is also '
                'sent through the convenience routes lift / lift_state / lift_input / retract / retract_state / retract_input '
                'with episode_feature = True, False and None on an estimator fitted WITH and one fitted WITHOUT an episode '
                'feature (unlabelled cases are cut into two episodes labelled 3, 1); every case is also fitted through every '
                'argument PASSING form the signature fit(X, y=None, n_inputs=0, episode_feature=False) allows (keywords in either '
                'order, all positional fit(X, None, n, e), mixed, y / X by keyword, defaults left out) on its own estimator, '
                'and through positional + rotating forms of fit_transform and of fit / fit_transformers of a KoopmanPipeline '
                'holding it; '
                'non-trivial = at least one stage and two rows')
    ctx.explanation = ('theorems C03_* (matrix-level flow refines the per-episode meaning for every layout; slice '
                       'equivariance / window locality; utilities act per episode); correspondence on row '
                       'provenance, values and utilities; oracle: per-episode-vs-whole and window locality on the '
                       'implementation with float data (rtol 1e-12); route oracle: for every route x flag x fitted-flag '
                       'combination the rows returned for a label equal that episode alone through transform / '
                       'inverse_transform in the estimator\'s own format (padding / stripping as documented), same labels, '
                       'same row counts, and an unlabelled block is lifted as one episode; call-form oracle: after every call form '
                       'episode_feature_ / n_inputs_in_ / n_states_in_ equal what the CALLER stated (taken from the case), '
                       'transform / inverse_transform (and the value fit_transform returns) equal those after the keyword call, '
                       'and on any difference the per-episode-vs-whole statement is evaluated on that estimator (row counts, '
                       'labels, values per label); a form that raises while the keyword call is accepted is a violation; '
                       'values are compared at 1e-12, and only where '
                       'that fails AND the measured rounding noise of the fitted lifting (output movement under 1e-15 / 1e-14 '
                       'changes of the data) exceeds 1e-13 are they compared at 100 x that noise (at most 1e-6); shapes, '
                       'labels and row counts are always exact')
    ctx.proof_obligations('Properties.C03', THEOREMS)
    drv = ctx.get_driver()
    n = ctx.n(120, 1500)
    lines, meta = [], []
    for i in range(n):
        opaque = i % 3 == 0
        c = st.gen_case(ctx.rng, KINDS if opaque else ALG, max_depth=3 if ctx.tier == 'thorough' else 2,
                        cap=30 if ctx.tier == 'quick' else 60, opaque=opaque, ep=(None if i % 5 else True))
        try:
            est = st.fit_case(c)
        except Exception as e:
            ctx.count('rejected:' + st.err_enum(e))
            continue
        X = st.X_of(c)
        try:
            Xt = est.transform(X)
            est.inverse_transform(Xt)
        except Exception as ex:
            ctx.mismatch(f'implementation raised {type(ex).__name__}: {ex} (model returns a matrix)', c, None, None)
            why = oracle(st.float_case(ctx.rng, c))
            if why:
                ctx.fail(why, c, {'kinds': sorted(pipes.kinds_in(c['spec']))})
            continue
        l1, cells, reg = st.value_line('tr', c, est)
        l2, _, _ = st.value_line('tr', c, est, mode='dep')
        # inverse provenance: ids over the LIFTED matrix
        toks, _ = pipes.tokens(c['spec'], est)
        w = Xt.shape[1] - (1 if c['ep'] else 0)
        lifted_ids = [([int(r[0])] if c['ep'] else []) + [i2 * w + j for j in range(w)] for i2, r in enumerate(Xt)]
        l3 = f"inv dep {c['nx']} {c['nu']} {toks} {pipes.mat_tokens(lifted_ids, c['ep'])}"
        ul = util_lines(c) if st.mode_of(c) == 'int' else []
        lines += [l1, l2, l3] + ul
        meta.append((c, est, Xt, cells, reg, len(ul), w))
    for c in st.many_episode_cases(ctx.rng):
        ctx.count('size form: ' + c['size_form'])
        why = oracle(c)
        if why:
            ctx.fail(why + f" ({c['size_form']}, labels with gaps)", c, {'kinds': sorted(pipes.kinds_in(c['spec'])), 'size': c['size_form']})
    replies = drv.ask(lines)
    pos = 0
    bad = []
    for (c, est, Xt, cells, reg, nul, w) in meta:
        r1, r2, r3 = replies[pos:pos + 3]
        ur = replies[pos + 3:pos + 3 + nul]
        pos += 3 + nul
        st.count_dist(ctx, c)
        ctx.record_case({k: c[k] for k in ('spec', 'nx', 'nu', 'ep', 'rows')}, st.nontrivial(c))
        algebraic = pipes.kinds_in(c['spec']) <= {'poly', 'bilinear', 'const', 'delay', 'split', 'pipe'}
        why = st.compare_values_guarded(Xt, r1, c, cells, reg, lambda Z, est=est: est.transform(Z), count=ctx.count)
        if why:
            ctx.mismatch('transform(X): ' + why, c, None, None)
            bad.append(c)
        for what, rep, Y, ww in (('transform', r2, None, c['nx'] + c['nu']), ('inverse_transform', r3, Xt, w)):
            cc = dict(c)
            if what == 'inverse_transform':
                cc = dict(c, nx=w, nu=0)      # only the id arithmetic (ids // width) uses these
            dm = row_deps_model(rep, cc)
            di = row_deps_impl(c, est, what, Y)
            if dm is None or len(dm) != len(di):
                ctx.mismatch(f'{what} row provenance shape', c, len(di), None if dm is None else len(dm))
                bad.append(c)
                continue
            for k, ((li, a), (lm, b)) in enumerate(zip(di, dm)):
                if li != lm or not (a <= b) or (algebraic and what == 'transform' and a != b and not c.get('degenerate')):
                    ctx.mismatch(f'{what}: provenance of output row {k}', c, [li, sorted(a)], [lm, sorted(b)])
                    bad.append(c)
                    break
        if nul:
            for kind, impl_list, rep in zip(('split', 'shift', 'ic', 'input', 'strip'), util_impl(c), ur):
                why = cmp_util(c, impl_list, rep, kind)
                if why:
                    ctx.mismatch(f'utility {kind}: {why}', c, None, rep[:120])
                    bad.append(c)
        fc = st.float_case(ctx.rng, c)
        for key in route_categories(fc) + call_form_categories(fc):
            ctx.count(key)
        why = oracle(fc)
        if why:
            small = st.shrink(fc, lambda x: oracle(x))
            ctx.fail(oracle(small) or why, small, {'kinds': sorted(pipes.kinds_in(c['spec']))})

    def search(ctx):
        for c in bad[:40]:
            for _ in range(3):
                why = oracle(st.float_case(ctx.rng, c))
                if why:
                    ctx.fail(why, c, {'kinds': sorted(pipes.kinds_in(c['spec']))})
                    return
        population_search(ctx)
    return ctx.finish('proof', search)


def replay(ctx, path):
    obj = json.load(open(path))
    case = obj.get('case') or (obj.get('first_disagreement') or {}).get('case')
    why = oracle(case)
    print('oracle:', why)
    return 1 if why else 0
