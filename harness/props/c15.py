"""C15 - Fit depends only on parameters and data, never on history."""
import copy
import hashlib
import json
import threading

import numpy as np
import sklearn.base
import sklearn.cluster
import sklearn.mixture
import sklearn.preprocessing
import scipy.stats

import pykoop
import pykoop.lmi_regressors as lmi
from .. import core, structural as st

THEOREMS = ['Pk.C15.C15_history_independent_partial', 'Pk.C15.C15_params_untouched', 'Pk.C15.C15_readonly_pure',
            'Pk.C15.C15_concurrent_reads', 'Pk.C15.C15_params_roundtrip', 'Pk.C15.C15_set_get_id',
            'Pk.C15.C15_stop_sticky_witness', 'Pk.C15.C15_instances_independent', 'Pk.C15.C15_fit_by_value',
            'Pk.C15.C15_overwrite', 'Pk.C15.C15_clone_fresh',
            'Pk.C15.C15_fitted_snapshot', 'Pk.C15.C15_reads_after_edits',
            'Pk.C15.C15_read_by_value', 'Pk.C15.C15_read_other_array']
SOLVER = {'solver': 'cvxopt'}


# ----------------------------------------------------------------------------- deep digests

def digest(obj, _depth=0):
    """deep, by-value digest: arrays, dicts, lists, estimators (class + params + fitted attributes), RandomState"""
    h = hashlib.sha1()

    def upd(o, d):
        if d > 8:
            h.update(b'<deep>')
            return
        if isinstance(o, np.ndarray) and o.dtype == object:
            h.update(b'ndo' + str(o.shape).encode() + repr(o.tolist()).encode())
        elif isinstance(o, np.ndarray):
            h.update(b'nd' + str(o.shape).encode() + str(o.dtype).encode() + np.ascontiguousarray(o).tobytes())
        elif isinstance(o, (int, float, str, bool, type(None), complex, np.generic)):
            h.update(repr(o).encode())
        elif isinstance(o, dict):
            h.update(b'{')
            for k in sorted(o, key=str):
                h.update(str(k).encode())
                upd(o[k], d + 1)
            h.update(b'}')
        elif isinstance(o, (list, tuple)):
            h.update(b'[')
            for x in o:
                upd(x, d + 1)
            h.update(b']')
        elif isinstance(o, np.random.RandomState):
            st = o.get_state()
            h.update(b'rs' + st[1].tobytes() + str(st[2:]).encode())
        elif isinstance(o, sklearn.base.BaseEstimator):
            h.update(b'E' + type(o).__name__.encode())
            try:
                upd(o.get_params(deep=False), d + 1)
            except Exception:
                h.update(b'<noparams>')
            upd(fitted_attrs(o), d + 1)
        elif callable(o):
            h.update(b'fn' + getattr(o, '__name__', type(o).__name__).encode())
        elif hasattr(o, '__dict__') and type(o).__module__.startswith('scipy'):
            h.update(b'S' + type(o).__name__.encode())
            for k in sorted(vars(o)):
                if isinstance(vars(o)[k], (np.ndarray, int, float, str, bool, type(None))):
                    h.update(k.encode())
                    upd(vars(o)[k], d + 1)
        else:
            h.update(b'?' + type(o).__name__.encode())
    upd(obj, _depth)
    return h.hexdigest()


def shared_state(est):
    """digest of everything mutable that is NOT owned by one instance: class attributes along the MRO (pykoop classes)
    and simple module-level globals of the pykoop modules - state every instance in the process shares"""
    import types
    items = []
    for cls in type(est).__mro__:
        if not getattr(cls, '__module__', '').startswith('pykoop'):
            continue
        for k, v in vars(cls).items():
            if k.startswith('__') or callable(v) or isinstance(v, (property, staticmethod, classmethod, types.MemberDescriptorType)):
                continue
            if k in ('_abc_impl',) or k.startswith('_sklearn_auto_wrap') or k.startswith('_abc'):
                continue
            items.append((f'{cls.__name__}.{k}', digest(v)))
    import pykoop.koopman_pipeline, pykoop.lmi_regressors, pykoop.lifting_functions, pykoop.regressors, pykoop.centers, \
        pykoop.kernel_approximation, pykoop.tsvd, pykoop.util
    for mod in (pykoop.koopman_pipeline, pykoop.lmi_regressors, pykoop.lifting_functions, pykoop.regressors, pykoop.centers,
                pykoop.kernel_approximation, pykoop.tsvd, pykoop.util):
        for k, v in vars(mod).items():
            if k.startswith('__') or k == 'polite_stop':          # (polite_stop: finding F-stop has its own probe)
                continue
            if isinstance(v, (bool, int, float, str, dict, list, set, tuple, np.ndarray)) or v is None:
                items.append((f'{mod.__name__}.{k}', digest(v)))
    # the library's configuration as THIS thread sees it: every later computation reads it
    items.append(('pykoop.get_config()', digest(dict(pykoop.get_config()))))
    return sorted(items)


def fitted_attrs(est):
    out = {}
    for k, v in vars(est).items():
        if k.endswith('_') and not k.startswith('_'):
            out[k] = v
    return out


def fitted_summary(est):
    """per-attribute digests (for naming the attribute that differs)"""
    return {k: digest(v) for k, v in fitted_attrs(est).items()}


def close_enough(a, b, tol):
    """numeric comparison of two fitted-attribute dicts (for estimators wrapping threaded algorithms)"""
    if a.keys() != b.keys():
        return False
    for k in a:
        x, y = a[k], b[k]
        if isinstance(x, np.ndarray) and isinstance(y, np.ndarray) and x.dtype.kind in 'fc':
            if x.shape != y.shape or not np.allclose(x, y, rtol=tol, atol=tol):
                return False
        elif isinstance(x, sklearn.base.BaseEstimator):
            continue
        elif digest(x) != digest(y):
            return False
    return True


# ----------------------------------------------------------------------------- estimator zoo

def data_sets(rng, kind):
    """three data sets per estimator kind: (X, fit kwargs)"""
    out = []
    for i in range(3):
        rs = np.random.RandomState(rng.randint(0, 2 ** 31 - 1))
        if kind == 'centers' or kind == 'kernel':
            out.append((rs.uniform(-1, 1, (rs.randint(8, 14), 2)), {}))
        elif kind == 'tsvd':
            out.append((rs.randn(rs.randint(3, 6), rs.randint(3, 6)), {}))
        elif kind in ('lifting', 'regressor', 'pipeline'):
            blocks = []
            A = np.array([[0.8, 0.1], [-0.15, 0.7]])
            B = np.array([[0.0], [1.0]])
            for l in (0, 2):
                n = rs.randint(10, 14)
                x = np.zeros((n, 2))
                u = rs.uniform(-1, 1, (n, 1))
                x[0] = rs.uniform(-1, 1, 2)
                for k in range(n - 1):
                    x[k + 1] = A @ x[k] + B @ u[k] + 0.02 * rs.randn(2)
                blocks.append((l, np.hstack((x, u))))
            out.append((st.ref_combine(blocks, True), {'n_inputs': 1, 'episode_feature': True}))
    return out


def zoo(rng, thorough):
    """list of dict(name, make, kind, params: {name: [values]}, tol)"""
    Z = []

    def add(name, make, kind, params=None, tol=0.0, tags=None):
        Z.append({'name': name, 'make': make, 'kind': kind, 'params': params or {}, 'tol': tol, 'tags': tags or {}})
    add('PolynomialLiftingFn', lambda: pykoop.PolynomialLiftingFn(order=2), 'lifting', {'order': [1, 2, 3], 'interaction_only': [True, False]})
    add('BilinearInputLiftingFn', lambda: pykoop.BilinearInputLiftingFn(), 'lifting')
    add('ConstantLiftingFn', lambda: pykoop.ConstantLiftingFn(), 'lifting')
    add('DelayLiftingFn', lambda: pykoop.DelayLiftingFn(1, 2), 'lifting', {'n_delays_state': [0, 1, 2], 'n_delays_input': [0, 1, 2]})
    add('SkLearnLiftingFn', lambda: pykoop.SkLearnLiftingFn(sklearn.preprocessing.StandardScaler()), 'lifting',
        {'transformer__with_mean': [True, False]})
    add('AnglePreprocessor', lambda: pykoop.AnglePreprocessor(angle_features=np.array([0])), 'lifting',
        {'unwrap_inverse': [True, False]})
    add('RbfLiftingFn/qmc', lambda: pykoop.RbfLiftingFn(centers=pykoop.QmcCenters(n_centers=3, qmc_kw={'scramble': True}, random_state=4)),
        'lifting', {'shape': [0.5, 1, 2], 'centers__n_centers': [2, 3], 'centers__random_state': [4, 5], 'rbf': ['gaussian', 'exponential']})
    add('RbfLiftingFn/grid', lambda: pykoop.RbfLiftingFn(centers=pykoop.GridCenters(2)), 'lifting',
        {'centers__symmetric_range': [True, False], 'offset': [None, 0.1]})
    add('KernelApproxLiftingFn', lambda: pykoop.KernelApproxLiftingFn(pykoop.RandomFourierKernelApprox(n_components=4, random_state=3)),
        'lifting', {'kernel_approx__n_components': [3, 4], 'kernel_approx__method': ['weight_only', 'weight_offset']})
    # default-constructed estimators whose nested defaults are unseeded: fits are not repeatable, so only the
    # parameter / input / shared-state clauses apply to them (tags nondet)
    add('RbfLiftingFn/default', lambda: pykoop.RbfLiftingFn(), 'lifting', tags={'nondet': True})
    add('KernelApproxLiftingFn/default', lambda: pykoop.KernelApproxLiftingFn(), 'lifting', tags={'nondet': True})
    add('ClusterCenters/default', lambda: pykoop.ClusterCenters(), 'centers', tags={'nondet': True})
    add('GaussianMixtureRandomCenters/default', lambda: pykoop.GaussianMixtureRandomCenters(), 'centers', tags={'nondet': True})
    add('SplitPipeline', lambda: pykoop.SplitPipeline(
        lifting_functions_state=[('pl', pykoop.PolynomialLiftingFn(order=2)), ('dl', pykoop.DelayLiftingFn(1, 0))],
        lifting_functions_input=[('du', pykoop.DelayLiftingFn(0, 1))]), 'lifting',
        {'pl__order': [1, 2], 'dl__n_delays_state': [0, 1], 'du__n_delays_input': [1, 2],
         'du': [pykoop.DelayLiftingFn(0, 2)], 'pl': [pykoop.PolynomialLiftingFn(order=1)]})      # whole steps replaced by name
    add('KoopmanPipeline', lambda: pykoop.KoopmanPipeline(
        lifting_functions=[('pl', pykoop.PolynomialLiftingFn(order=2)), ('dl', pykoop.DelayLiftingFn(1, 1))],
        regressor=pykoop.Edmd(alpha=0.1)), 'pipeline',
        {'pl__order': [1, 2], 'dl__n_delays_state': [1, 2], 'regressor__alpha': [0, 0.1, 1],
         'pl': [pykoop.PolynomialLiftingFn(order=3), pykoop.PolynomialLiftingFn(order=1)]})      # a whole step replaced by name
    add('GridCenters', lambda: pykoop.GridCenters(2), 'centers', {'n_points_per_feature': [1, 2, 3], 'symmetric_range': [True, False]})
    add('UniformRandomCenters', lambda: pykoop.UniformRandomCenters(n_centers=4, random_state=2), 'centers',
        {'n_centers': [1, 4], 'random_state': [2, 3]})
    add('GaussianRandomCenters', lambda: pykoop.GaussianRandomCenters(n_centers=4, random_state=2), 'centers',
        {'n_centers': [1, 4], 'random_state': [2, 3]})
    add('QmcCenters', lambda: pykoop.QmcCenters(n_centers=4, qmc=scipy.stats.qmc.Sobol, qmc_kw={'scramble': True}, random_state=2), 'centers',
        {'n_centers': [2, 4], 'random_state': [2, 3], 'symmetric_range': [True, False]})
    add('ClusterCenters', lambda: pykoop.ClusterCenters(sklearn.cluster.KMeans(n_clusters=3, n_init=2, random_state=1)), 'centers',
        {'estimator__n_clusters': [2, 3]}, tol=1e-9)
    add('GaussianMixtureRandomCenters', lambda: pykoop.GaussianMixtureRandomCenters(
        n_centers=4, estimator=sklearn.mixture.GaussianMixture(n_components=2, random_state=1)), 'centers',
        {'n_centers': [3, 4]}, tol=1e-9)
    add('DataCenters', lambda: pykoop.DataCenters(), 'centers')
    add('RandomFourierKernelApprox', lambda: pykoop.RandomFourierKernelApprox(n_components=5, random_state=7), 'kernel',
        {'n_components': [3, 5], 'shape': [0.5, 1], 'method': ['weight_only', 'weight_offset'], 'kernel_or_ft': ['gaussian', 'laplacian', 'cauchy']})
    add('RandomBinningKernelApprox', lambda: pykoop.RandomBinningKernelApprox(n_components=3, random_state=7), 'kernel',
        {'n_components': [2, 3], 'shape': [0.5, 1]})
    add('Tsvd', lambda: pykoop.Tsvd('rank', 2), 'tsvd', {'truncation_param': [1, 2, 3, 9]})     # 9: more than any data set has
    add('Edmd', lambda: pykoop.Edmd(alpha=0.1), 'regressor', {'alpha': [0, 0.1, 1]})
    add('EdmdMeta', lambda: pykoop.EdmdMeta(), 'regressor')
    add('Dmdc', lambda: pykoop.Dmdc(tsvd_unshifted=pykoop.Tsvd('rank', 3)), 'regressor',
        {'mode_type': ['exact', 'projected'], 'tsvd_unshifted__truncation_param': [2, 3, 8]})
    add('DataRegressor', lambda: pykoop.DataRegressor(), 'regressor')
    add('LmiEdmd/svd', lambda: lmi.LmiEdmd(alpha=0.1, inv_method='svd', solver_params=dict(SOLVER)), 'regressor',
        {'alpha': [0.1, 1]}, tol=1e-7, tags={'lmi': True, 'inv_method': 'svd'})
    add('LmiEdmd/chol', lambda: lmi.LmiEdmd(alpha=0.1, inv_method='chol', solver_params=dict(SOLVER)), 'regressor',
        {'alpha': [0.1, 1], 'reg_method': ['tikhonov', 'twonorm']}, tol=1e-7, tags={'lmi': True})
    add('LmiDmdc', lambda: lmi.LmiDmdc(alpha=0.1, solver_params=dict(SOLVER)), 'regressor', {'alpha': [0.1, 1]}, tol=1e-7, tags={'lmi': True})
    add('LmiEdmdSpectralRadiusConstr', lambda: lmi.LmiEdmdSpectralRadiusConstr(spectral_radius=0.9, max_iter=3, solver_params=dict(SOLVER)),
        'regressor', {'spectral_radius': [0.8, 0.9], 'max_iter': [2, 3]}, tol=1e-6, tags={'lmi': True, 'iterative': True})
    # array-valued constructor arguments handed over as ndarrays (complex poles as returned by scipy.signal design
    # functions): fit must not write into them
    add('LmiHinfZpkMeta', lambda: lmi.LmiHinfZpkMeta(
        hinf_regressor=lmi.LmiEdmdHinfReg(alpha=1, ratio=1, max_iter=1, solver_params=dict(SOLVER)), type='post',
        zeros=np.array([-2.0 + 0j]), poles=np.array([-0.4 + 0.4j, -0.4 - 0.4j]), gain=1.0, t_step=0.5, units='hz'),
        'regressor', {'units': ['hz', 'normalized', 'rad/s'], 'gain': [1.0, 2.0]}, tol=1e-6, tags={'lmi': True, 'iterative': True})
    add('DataCenters/array', lambda: pykoop.DataCenters(centers=np.array([[0.0, 0.5], [1.0, -1.0], [0.25, 0.25]])), 'centers')
    if thorough:
        add('LmiEdmdHinfReg', lambda: lmi.LmiEdmdHinfReg(alpha=1, ratio=1, max_iter=2, solver_params=dict(SOLVER)), 'regressor',
            {'alpha': [1, 2]}, tol=1e-6, tags={'lmi': True, 'iterative': True})
        add('LmiEdmdDissipativityConstr', lambda: lmi.LmiEdmdDissipativityConstr(max_iter=2, solver_params=dict(SOLVER)), 'regressor',
            {'alpha': [0, 0.1]}, tol=1e-6, tags={'lmi': True, 'iterative': True})
    return Z


def reads(z, est, X, kw):
    """read-only calls on a fitted estimator: list of (name, thunk)"""
    k = z['kind']
    if k == 'lifting':
        return [('transform', lambda: est.transform(X)),
                ('inverse_transform', lambda: est.inverse_transform(est.transform(X))),
                ('get_feature_names_out', lambda: np.array(est.get_feature_names_out(), dtype=str)),
                ('lift_state', lambda: est.lift_state(np.array(X)[:, :3]))]
    if k == 'pipeline':
        return [('transform', lambda: est.transform(X)), ('predict', lambda: est.predict(X)),
                ('predict_trajectory', lambda: est.predict_trajectory(X)), ('score', lambda: np.array([est.score(X)]))]
    if k == 'kernel':
        return [('transform', lambda: est.transform(X))]
    if k == 'regressor':
        return [('predict', lambda: est.predict(X))]
    return [('get_params', lambda: np.array([digest(est.get_params(deep=True))]))]


def same_fit(z, a, b):
    """two fitted estimators have the same fitted state (bit-exact, or within z['tol'])"""
    if digest(fitted_attrs(a)) == digest(fitted_attrs(b)):
        return None
    sa, sb = fitted_summary(a), fitted_summary(b)
    diff = sorted(k for k in set(sa) | set(sb) if sa.get(k) != sb.get(k))
    if z['tol'] > 0:
        fa, fb = fitted_attrs(a), fitted_attrs(b)
        num_ok = True
        bad = []
        for k in diff:
            x, y = fa.get(k), fb.get(k)
            if isinstance(x, np.ndarray) and isinstance(y, np.ndarray) and x.shape == y.shape and x.dtype.kind in 'fc':
                if not np.allclose(x, y, rtol=z['tol'], atol=z['tol']):
                    bad.append(k)
            elif isinstance(x, (list, tuple)) and isinstance(y, (list, tuple)) and len(x) == len(y):
                try:
                    if not np.allclose(np.array(x, dtype=float), np.array(y, dtype=float), rtol=z['tol'], atol=z['tol']):
                        bad.append(k)
                except Exception:
                    bad.append(k)
            elif isinstance(x, sklearn.base.BaseEstimator) and isinstance(y, sklearn.base.BaseEstimator):
                sub = same_fit(z, x, y)
                if sub:
                    bad.append(f'{k}.{sub}')
            elif digest(x) != digest(y):
                bad.append(k)
        diff = bad
    return ','.join(diff) if diff else None


def is_leaf(v):
    """a parameter value that does not itself contain estimators (those change when a nested parameter is set)"""
    if isinstance(v, sklearn.base.BaseEstimator):
        return False
    if isinstance(v, (list, tuple)):
        return all(is_leaf(x) for x in v)
    return True


def run_history(ctx, z, length, frames=False):
    """execute a random history on one instance; compare with fresh clones wherever the machine says equal"""
    rng = ctx.rng
    D = data_sets(rng, z['kind'])
    if z['kind'] in ('lifting', 'pipeline') and frames:
        # named columns: the estimators capture feature names from DataFrames, one more piece of fitted state
        import pandas
        D = [(pandas.DataFrame(X, columns=[f'c{j}' for j in range(X.shape[1])]), kw) for X, kw in D]
    est = z['make']()
    hist = []
    fails = []
    p0 = digest(est.get_params(deep=True))
    last = None
    for step in range(length):
        ops = ['fit', 'fit', 'read', 'set', 'get', 'clone', 'mutate', 'failed-call']
        op = rng.choice(ops)
        if op == 'failed-call':
            # a call FAILS and the caller catches the exception (user code raising inside a config_context block, a fit /
            # transform on a malformed argument): nothing of it may survive in the estimator or in the process
            shared0 = shared_state(est)
            attrs0 = digest(fitted_attrs(est)) + digest(est.get_params(deep=True))
            kind = rng.choice(['raise inside config_context', 'malformed argument inside config_context', 'malformed argument'])
            try:
                if kind == 'raise inside config_context':
                    with pykoop.config_context(skip_validation=rng.choice([True, False])):
                        raise KeyError('user code failed inside the block')
                elif kind == 'malformed argument inside config_context':
                    with pykoop.config_context(skip_validation=True):
                        est.transform(np.zeros((3,))) if hasattr(est, 'transform') else est.predict(np.zeros((3,)))
                else:
                    est.transform(np.array([['a', 'b']])) if hasattr(est, 'transform') else est.predict(np.array([['a', 'b']]))
            except Exception:
                pass
            hist.append('failed call: ' + kind)
            if shared_state(est) != shared0:
                changed = sorted({k for (k, v) in set(shared_state(est)) ^ set(shared0)})
                fails.append((f'a failed call ({kind}) left a trace in state shared by the whole process: {changed[:4]}',
                              {'estimator': z['name'], 'part': 'shared'}))
                return hist, fails
            if digest(fitted_attrs(est)) + digest(est.get_params(deep=True)) != attrs0:
                fails.append((f'a failed call ({kind}) changed the fitted state or the parameters of the estimator',
                              {'estimator': z['name'], 'part': 'read'}))
            continue
        if op == 'mutate' and not frames:
            # the caller overwrites a data array IN PLACE (same object, new contents); later fits on it must see the
            # new contents (no decomposition / statistics cached by object identity)
            i = rng.randrange(len(D))
            X, kw = D[i]
            e = 1 if kw.get('episode_feature') else 0
            X[:, e:] = X[::-1, e:] * rng.choice([0.5, 1.5, 3.0]) + rng.choice([0.0, 0.25])
            hist.append(f'data[{i}] overwritten in place')
            if last == i:
                last = None
            continue
        if op == 'fit':
            i = rng.randrange(len(D))
            X, kw = D[i]
            Xc = np.array(X).copy()
            before = digest(est.get_params(deep=True))
            shared0 = shared_state(est)
            try:
                est.fit(X, **kw)
            except Exception as ex:
                hist.append(f'fit({i}) raised {type(ex).__name__}')
                last = None
                continue
            shared1 = shared_state(est)
            if shared1 != shared0:
                changed = sorted({k for (k, v) in set(shared1) ^ set(shared0)})
                fails.append((f'fit modified state shared by all instances (class attributes / module globals): {changed[:4]}',
                              {'estimator': z['name'], 'part': 'shared'}))
            hist.append(f'fit({i})')
            last = i
            if not np.array_equal(np.array(X), Xc):
                fails.append(('fit modified its input array', {'estimator': z['name'], 'part': 'input'}))
            if digest(est.get_params(deep=True)) != before:
                fails.append(('fit modified its constructor arguments (get_params(deep=True) changed during fit)',
                              {'estimator': z['name'], 'part': 'params'}))
            fresh = sklearn.base.clone(est)
            try:
                fresh.fit(X, **kw)
            except Exception as ex:
                fails.append((f'fresh clone raised {type(ex).__name__} where the used estimator fitted', {'estimator': z['name']}))
                continue
            d = None if z['tags'].get('nondet') else same_fit(z, est, fresh)
            if d:
                fails.append((f'fitted state after history differs from a fresh estimator with the same parameters '
                              f'(attributes: {d})', dict(z['tags'], estimator=z['name'], attr=d.split(',')[0].split('.')[0])))
        elif op == 'read' and last is not None:
            X, kw = D[last]
            before = digest(fitted_attrs(est)) + digest(est.get_params(deep=True))
            Xc = np.array(X).copy()
            cols0 = [str(c) for c in X.columns] if hasattr(X, 'columns') else None
            for name, th in reads(z, est, X, kw):
                try:
                    th()
                except Exception:
                    continue
                hist.append(name)
                if cols0 is not None and [str(c) for c in X.columns] != cols0:
                    fails.append((f'{name} modified the column names of its input DataFrame', {'estimator': z['name'], 'part': 'read'}))
                    return hist, fails      # the caller's DataFrame is corrupted: stop using it
            # results already handed out belong to the caller: later calls on the same estimator must not change them
            kept = []
            for name, th in reads(z, est, X, kw):
                try:
                    o = th()
                except Exception:
                    continue
                if isinstance(o, np.ndarray) and o.dtype.kind in 'fiuc':
                    kept.append((name, o, o.copy()))
            for name, th in reads(z, est, X, kw)[::-1]:
                try:
                    th()
                except Exception:
                    pass
            for name, o, c0 in kept:
                if not np.array_equal(o, c0, equal_nan=True):
                    fails.append((f'the array returned by {name} was modified by a later call on the same estimator (the result '
                                  'aliases internal state)', {'estimator': z['name'], 'part': 'read'}))
                    break
            if digest(fitted_attrs(est)) + digest(est.get_params(deep=True)) != before:
                fails.append(('a read-only call changed the fitted state or the parameters', {'estimator': z['name'], 'part': 'read'}))
            if not np.array_equal(np.array(X), Xc):
                fails.append(('a read-only call modified its input array', {'estimator': z['name'], 'part': 'input'}))
        elif op == 'set' and z['params']:
            k = rng.choice(sorted(z['params']))
            v = rng.choice(z['params'][k])
            others = {kk: digest(vv) for kk, vv in est.get_params(deep=True).items()
                      if kk != k and not kk.startswith(k + '__') and is_leaf(vv)}
            # a snapshot taken earlier belongs to the caller (it may be fed back later, or be the very list another estimator
            # was built from): replacing a step must not rewrite the step lists it holds
            snap = est.get_params(deep=False)
            sig = lambda d: {kk: [(nm, id(ob)) for nm, ob in vv] for kk, vv in d.items()
                             if isinstance(vv, list) and all(isinstance(t, tuple) and len(t) == 2 for t in vv)}
            sig0 = sig(snap)
            if not is_leaf(v):
                v = sklearn.base.clone(v)
            est.set_params(**{k: v})
            if sig(snap) != sig0:
                fails.append((f'set_params({k}=<estimator>) rewrote the step list held by an earlier get_params(deep=False) snapshot '
                              '(the list the estimator was constructed from): feeding the snapshot back no longer restores the '
                              'configuration, and another estimator built from that list changes with it',
                              {'estimator': z['name'], 'part': 'params'}))
                return hist, fails
            hist.append(f'set_params({k}={v})')
            got = est.get_params(deep=True)
            if digest(got[k]) != digest(v):
                fails.append((f'set_params({k}=..) then get_params gives a different value', {'estimator': z['name'], 'part': 'params'}))
            now = {kk: digest(vv) for kk, vv in got.items() if kk in others}
            if now != others:
                fails.append((f'set_params({k}=..) changed other parameters', {'estimator': z['name'], 'part': 'params'}))
            last = last      # fitted state untouched by set_params
        elif op == 'get':
            g1 = est.get_params(deep=True)
            before = digest(g1)
            est.set_params(**{k: v for k, v in g1.items() if '__' not in k})
            if digest(est.get_params(deep=True)) != before:
                fails.append(('set_params(**get_params()) is not the identity', {'estimator': z['name'], 'part': 'params'}))
            hist.append('get/set round trip')
        elif op == 'clone':
            c = sklearn.base.clone(est)
            if digest(c.get_params(deep=True)) != digest(est.get_params(deep=True)):
                fails.append(('clone has different parameters', {'estimator': z['name'], 'part': 'params'}))
            if fitted_attrs(c):
                fails.append(('clone carries fitted state', {'estimator': z['name'], 'part': 'params'}))
            hist.append('clone')
    return hist, fails


def refit_sweep(ctx, z):
    """systematic histories: on ONE instance, for every listed parameter and value: set_params, fit on the same data,
    compare the fitted state with a fresh clone fitted once (stale fitted state surviving a parameter change is the
    classic history dependence); then the same with a second estimator of the class fitted in between"""
    rng = ctx.rng
    D = data_sets(rng, z['kind'])
    X, kw = D[0]
    est = z['make']()
    hist, fails = [], []
    try:
        est.fit(X, **kw)
    except Exception:
        return hist, fails
    hist.append('fit(0)')
    steps = [(k, v) for k in sorted(z['params']) for v in z['params'][k]]
    if z['tags'].get('lmi'):
        steps = steps[:3]
    for k, v in steps:
        est.set_params(**{k: v})
        hist.append(f'set_params({k}={v})')
        try:
            est.fit(X, **kw)
        except Exception as ex:
            hist.append(f'fit(0) raised {type(ex).__name__}')
            continue
        hist.append('fit(0)')
        if digest(est.get_params(deep=True)[k]) != digest(v):
            fails.append((f'fit modified its constructor arguments: set_params({k}={v!r}), fit, then get_params gives '
                          f'{est.get_params(deep=True)[k]!r}', {'estimator': z['name'], 'part': 'params'}))
            break
        fresh = sklearn.base.clone(est)
        try:
            fresh.fit(X, **kw)
        except Exception as ex:
            fails.append((f'fresh clone raised {type(ex).__name__} where the used estimator fitted', {'estimator': z['name']}))
            continue
        d = None if z['tags'].get('nondet') else same_fit(z, est, fresh)
        if d:
            fails.append((f'after set_params({k}={v}) and a re-fit the fitted state differs from a fresh estimator with the same '
                          f'parameters (attributes: {d})', dict(z['tags'], estimator=z['name'], attr=d.split(',')[0].split('.')[0])))
            break
    # same array object, new contents, fit again
    e = 1 if kw.get('episode_feature') else 0
    X[:, e:] = X[::-1, e:] * 1.5 + 0.25
    hist.append('data[0] overwritten in place')
    try:
        est.fit(X, **kw)
        hist.append('fit(0)')
        fresh = sklearn.base.clone(est).fit(X, **kw)
        d = None if z['tags'].get('nondet') else same_fit(z, est, fresh)
        if d:
            fails.append((f'after the data array was overwritten in place, a re-fit differs from a fresh estimator fitted on the '
                          f'same array (attributes: {d})', dict(z['tags'], estimator=z['name'], attr=d.split(',')[0].split('.')[0])))
    except Exception as ex:
        hist.append(f'fit(0) raised {type(ex).__name__}')
    # another instance of the class fitted on other data in between must not disturb this one
    if not z['tags'].get('lmi') and len(D) > 1:
        before = digest(fitted_attrs(est))
        other = z['make']()
        try:
            other.fit(*D[1][:1], **D[1][1])
            hist.append('other instance: fit(1)')
        except Exception:
            pass
        if digest(fitted_attrs(est)) != before:
            fails.append(('fitting ANOTHER instance of the class changed the fitted state of this one (shared state)',
                          {'estimator': z['name'], 'part': 'shared'}))
    return hist, fails


def thread_check(z, rng):
    """read-only calls from several threads give the sequential answers"""
    D = data_sets(rng, z['kind'])
    X, kw = D[0]
    est = z['make']()
    try:
        est.fit(X, **kw)
    except Exception:
        return None
    rd = reads(z, est, X, kw)
    try:
        seq = [th() for _, th in rd]
    except Exception:
        return None
    results = {}

    def work(i):
        out = []
        for _ in range(3):
            out.append([th() for _, th in rd])
        results[i] = out
    ths = [threading.Thread(target=work, args=(i,)) for i in range(3)]
    for t in ths:
        t.start()
    for t in ths:
        t.join(120)
    for i, outs in results.items():
        for out in outs:
            for (name, _), a, b in zip(rd, seq, out):
                if a.shape != b.shape or not np.array_equal(a, b):
                    return f'{name} from a concurrent thread differs from the sequential answer'
    return None


def probe_stop(ctx):
    """a politely stopped earlier fit must not influence a later fit (known finding F-stop)"""
    rng = ctx.rng
    D = data_sets(rng, 'regressor')
    X, kw = D[0]
    mk = lambda: lmi.LmiEdmdSpectralRadiusConstr(spectral_radius=0.9, max_iter=3, solver_params=dict(SOLVER))
    ref = mk().fit(X, **kw)
    try:
        lmi.polite_stop = True          # what the SIGINT handler does
        stopped = mk().fit(X, **kw)     # the politely stopped fit
        later = mk().fit(D[1][0], **D[1][1])
        again = mk().fit(X, **kw)
    finally:
        lmi.polite_stop = False         # harness cleanup: the library never resets it
    if not np.allclose(again.coef_, ref.coef_, rtol=1e-6, atol=1e-8):
        return ('after one polite stop request every later LMI fit in the process returns a different (all-zero) '
                'Koopman matrix than a fresh estimator before the request',
                {'estimator': 'LmiEdmdSpectralRadiusConstr', 'history': 'stop_request'})
    return None


# ----------------------------------------------------------------------------- fits that end early, on a used estimator

def iterative_zoo(rng):
    """the five regressors that alternate between two sub-problems, USED DIRECTLY (KoopmanPipeline and LmiHinfZpkMeta clone
    their regressor at every fit, so the history of the regressor object itself is only visible here); random parameters"""
    def supply(g):      # 'l2 gain at most g' for 2 states, 1 input (the default supply rate admits no model at all)
        return np.block([[np.eye(2) / g, np.zeros((2, 1))], [np.zeros((1, 2)), -g * np.eye(1)]])
    sr, mi = rng.choice([0.8, 0.9, 1.1]), rng.choice([2, 3])
    al, ra = rng.choice([1, 2]), rng.choice([1, 0.5])
    g = rng.choice([2.0, 4.0, 8.0])
    return [
        ('LmiEdmdSpectralRadiusConstr', lambda: lmi.LmiEdmdSpectralRadiusConstr(
            spectral_radius=sr, max_iter=mi, solver_params=dict(SOLVER))),
        ('LmiDmdcSpectralRadiusConstr', lambda: lmi.LmiDmdcSpectralRadiusConstr(
            spectral_radius=sr, max_iter=mi, solver_params=dict(SOLVER))),
        ('LmiEdmdHinfReg', lambda: lmi.LmiEdmdHinfReg(alpha=al, ratio=ra, max_iter=mi, solver_params=dict(SOLVER))),
        ('LmiDmdcHinfReg', lambda: lmi.LmiDmdcHinfReg(alpha=al, ratio=ra, max_iter=mi, solver_params=dict(SOLVER))),
        ('LmiEdmdDissipativityConstr', lambda: lmi.LmiEdmdDissipativityConstr(
            supply_rate=supply(g), max_iter=mi, solver_params=dict(SOLVER))),
    ]


class SolveTap:
    """the circumstances of ONE fit, reproducible for a second estimator: the state of the stop flag in front of the fit,
    optionally a stop request arriving after the n-th solved sub-problem; while active it counts the sub-problems handed to
    the solver and keeps the objective values of those that came back with a value (the harness's own record of what THIS
    fit computed). The flag is put back afterwards (the library never resets it: known finding F-stop)."""

    def __init__(self, stop_before=False, stop_after=None):
        self.stop_before, self.stop_after = stop_before, stop_after
        self.n, self.values, self.status = 0, [], []

    def __enter__(self):
        import picos
        self._picos, self._orig, self._flag = picos, picos.Problem.solve, lmi.polite_stop
        tap, orig = self, self._orig

        def solve(prob, *a, **k):
            out = orig(prob, *a, **k)
            tap.n += 1
            try:
                tap.status.append(str(prob.last_solution.claimedStatus))
            except Exception:
                tap.status.append('?')
            try:
                tap.values.append(float(prob.value))
            except Exception:
                tap.values.append(None)
            if tap.stop_after is not None and tap.n >= tap.stop_after:
                lmi.polite_stop = True          # what the SIGINT handler does, arriving while the fit is running
            return out
        picos.Problem.solve = solve
        lmi.polite_stop = bool(self.stop_before)
        return self

    def __exit__(self, *exc):
        self._picos.Problem.solve = self._orig
        lmi.polite_stop = self._flag
        return False


def is_subsequence(xs, ys):
    it = iter(ys)
    return all(any(x == y for y in it) for x in xs)


def early_end_history(ctx, name, make, n_more):
    """ONE directly used iterative regressor: an ordinary fit, then further fits under random circumstances that may end the
    alternation at any point (stop requested in front of the fit / arriving after the n-th solved sub-problem; a solver
    iteration budget, set with set_params, that may or may not suffice for sub-problem A of iteration 0; ordinary). After
    every fit (i) all fitted attributes are compared with a fresh clone fitted on the same data under the same circumstances
    and (ii) the objective log is compared with the harness's own record of the sub-problems solved during THIS fit."""
    rng = ctx.rng
    D = data_sets(rng, 'regressor')
    z = {'name': name, 'tol': 1e-6, 'tags': {'lmi': True, 'iterative': True}}
    est = make()
    hist, fails = [], []
    last_i, had_success = None, False
    for step in range(1 + n_more):
        if step == 0:
            circ = ('ordinary',)
        elif step == 1:
            # the class of history this sweep exists for: a fit that cannot get far, right after one that did
            circ = rng.choice([('stop-before',), ('budget', rng.choice([1, 2, 4]))])
        else:
            circ = rng.choice([('ordinary',), ('stop-before',), ('stop-after', rng.choice([1, 2, 3])),
                               ('budget', rng.choice([1, 3, 6, 9, 11, 14, 40]))])
        i = rng.choice([j for j in range(len(D)) if j != last_i])
        last_i = i
        X, kw = D[i]
        if circ[0] == 'budget':
            est.set_params(solver_params=dict(SOLVER, max_iterations=circ[1]))
        elif step > 0 and rng.random() < 0.5:
            est.set_params(solver_params=dict(SOLVER))
        budget = est.get_params()['solver_params'].get('max_iterations')
        label = f'fit({i}) [{" ".join(str(c) for c in circ)}' + (f'; solver budget {budget}]' if budget and circ[0] != 'budget' else ']')
        tap_kw = {'stop_before': circ[0] == 'stop-before', 'stop_after': circ[1] if circ[0] == 'stop-after' else None}
        fresh = sklearn.base.clone(est)
        err_used = err_fresh = None
        with SolveTap(**tap_kw) as tap:
            try:
                est.fit(X, **kw)
            except Exception as ex:
                err_used = type(ex).__name__
        with SolveTap(**tap_kw) as tap_fresh:
            try:
                fresh.fit(X, **kw)
            except Exception as ex:
                err_fresh = type(ex).__name__
        hist.append(label + (f' raised {err_used}' if err_used else ''))
        ctx.count('early_end:fits')
        tags = {'estimator': name, 'part': 'early-end', 'circumstances': circ[0]}
        if err_used or err_fresh:
            if err_used != err_fresh:
                fails.append((f'{label}: the used estimator {"raised " + err_used if err_used else "fitted"} where a fresh clone '
                              f'under the same circumstances {"raised " + err_fresh if err_fresh else "fitted"}', tags))
            had_success = False
            continue
        log_ = getattr(est, 'objective_log_', None)
        n_log = len(log_) if isinstance(log_, list) else None
        # what the harness saw: sub-problems 0, 2, 4, .. are the 'A' problems; one objective is logged per A problem that the
        # solver reports as solved to optimality
        seen = [v for j, v in enumerate(tap.values) if j % 2 == 0 and tap.status[j] == 'optimal' and v is not None]
        ended_early = not seen
        if ended_early:
            ctx.count('early_end:no_objective_logged' + ('_after_successful_fit' if had_success else ''))
        ctx.count('early_end:' + circ[0])
        # (i) like with like: a fresh clone, same data, same flag state, same stop request, same budget
        d = same_fit(z, est, fresh)
        if d:
            fails.append((f'{label} on an estimator with history: the fitted state differs from a fresh estimator with the same '
                          f'parameters fitted on the same data under the same circumstances (attributes: {d}); used: '
                          f'n_iter_={getattr(est, "n_iter_", None)}, objective_log_={log_}; fresh: n_iter_='
                          f'{getattr(fresh, "n_iter_", None)}, objective_log_={getattr(fresh, "objective_log_", None)}',
                          dict(tags, attr=d.split(',')[0].split('.')[0])))
        # (ii) the log describes THIS fit: its entries are objective values of sub-problems the solver returned during this
        # fit, in order, at most one per pair of sub-problems
        if n_log is None:
            fails.append((f'{label}: fit returned without a list objective_log_ (got {log_!r})', dict(tags, attr='objective_log_')))
        elif n_log > (tap.n + 1) // 2 or not is_subsequence([float(v) for v in log_], tap.values):
            fails.append((f'{label}: objective_log_ = {log_} holds values that were not computed during this fit ({tap.n} '
                          f'sub-problem(s) went to the solver and returned the values {tap.values}): the log is left over from '
                          'an earlier fit on other data', dict(tags, attr='objective_log_')))
        elif [float(v) for v in log_] != seen:
            fails.append((f'{label}: objective_log_ = {log_}, but the first sub-problems of the iterations solved to optimality '
                          f'during this fit had the objective values {seen} (solver status per sub-problem: {tap.status})',
                          dict(tags, attr='objective_log_')))
        if tap.n == 0 and np.any(np.asarray(est.coef_) != 0):
            fails.append((f'{label}: no sub-problem was solved, but coef_ is not the all-zero fall-back (left over from an '
                          'earlier fit)', dict(tags, attr='coef_')))
        if tap.n != tap_fresh.n:
            fails.append((f'{label}: the used estimator sent {tap.n} sub-problem(s) to the solver, a fresh clone {tap_fresh.n}',
                          dict(tags, attr='n_iter_')))
        had_success = bool(seen)
    return hist, fails, [np.asarray(X).tolist() for X, _ in D]



# ----------------------------------------------------------------------------- state OUTSIDE the estimator (the ambient state)

def _warning_categories():
    import sklearn.exceptions
    import scipy.linalg
    cats = [Warning, UserWarning, RuntimeWarning, FutureWarning, DeprecationWarning,
            sklearn.exceptions.ConvergenceWarning, sklearn.exceptions.DataConversionWarning,
            sklearn.exceptions.UndefinedMetricWarning, scipy.linalg.LinAlgWarning]
    for nm in ('RankWarning', 'ComplexWarning', 'VisibleDeprecationWarning'):
        c = getattr(getattr(np, 'exceptions', np), nm, None)
        if isinstance(c, type) and issubclass(c, Warning):
            cats.append(c)
    return cats


def describe_ambient(state):
    out = []
    for s in state:
        if s[0] == 'warnings':
            out.append(f"warnings.filterwarnings({s[1]!r}, category={s[2].__name__})")
        elif s[0] == 'errstate':
            out.append(f'np.errstate(all={s[1]!r})')
        elif s[0] == 'np.random':
            out.append(f'np.random.seed({s[1]}) + {s[2]} draws')
        elif s[0] == 'random':
            out.append(f'random.seed({s[1]})')
        elif s[0] == 'thread':
            out.append('called from a worker thread')
        elif s[0] == 'env':
            out.append('os.environ: ' + ', '.join(f'{k}={v}' for k, v in sorted(s[1].items())))
        elif s[0] == 'logging':
            out.append(f'logging level {s[1]}' + (', logging.disable(CRITICAL)' if s[2] else ''))
        elif s[0] == 'printoptions':
            out.append(f'np.set_printoptions(precision={s[1]})')
    return '; '.join(out) if out else 'as the harness runs (PYTHONWARNINGS=ignore)'


class Ambient:
    """process state that is NOT an argument of the estimator: the warnings filters (a stack of (action, category), later
    entries win), the numpy floating-point error state, the state of the global numpy / python random generators,
    environment variables, the logging configuration, numpy print options. Everything is put back on exit. Warnings let
    through are recorded (kept off the terminal), which does not change what the filters decide."""

    def __init__(self, state, reseed=None):
        self.state, self.reseed = state, reseed

    def __enter__(self):
        import contextlib, logging, os, random as pyrandom, warnings
        self._stack = contextlib.ExitStack()
        self._np, self._py = np.random.get_state(), pyrandom.getstate()
        self._env = dict(os.environ)
        self._print = np.get_printoptions()
        lg = logging.getLogger('pykoop')
        self._log = (lg.level, logging.root.manager.disable)
        self.recorded = self._stack.enter_context(warnings.catch_warnings(record=True))
        try:
            for s in self.state:
                if s[0] == 'warnings':
                    warnings.filterwarnings(s[1], category=s[2])
                elif s[0] == 'errstate':
                    self._stack.enter_context(np.errstate(all=s[1]))
                elif s[0] == 'np.random':
                    np.random.seed(s[1])
                    np.random.uniform(size=s[2])
                elif s[0] == 'random':
                    pyrandom.seed(s[1])
                elif s[0] == 'env':
                    os.environ.update(s[1])
                elif s[0] == 'logging':
                    lg.setLevel(s[1])
                    logging.disable(logging.CRITICAL if s[2] else logging.NOTSET)
                elif s[0] == 'printoptions':
                    np.set_printoptions(precision=s[1])
            if self.reseed is not None:
                # estimators whose nested defaults are unseeded draw from the global generator: give every fit the same one
                np.random.seed(self.reseed)
        except BaseException:
            self.__exit__(None, None, None)
            raise
        return self

    def __exit__(self, *exc):
        import logging, os, random as pyrandom
        self._stack.close()
        np.random.set_state(self._np)
        pyrandom.setstate(self._py)
        for k in list(os.environ):
            if k not in self._env:
                del os.environ[k]
        os.environ.update(self._env)
        np.set_printoptions(**self._print)
        logging.getLogger('pykoop').setLevel(self._log[0])
        logging.disable(self._log[1])
        return False


def call_under(state, fn, reseed=None, timeout=120):
    """run fn() with the ambient state in force, in a worker thread when the state says so (np.errstate is local to the
    calling context, so the whole state is set up inside the thread that makes the call). Returns (status, value):
    ('ok', result) / ('raised', exception) / ('timeout', None)"""
    def body():
        with Ambient(state, reseed):
            return fn()
    if not any(s[0] == 'thread' for s in state):
        try:
            return 'ok', body()
        except Exception as ex:
            return 'raised', ex
    box = {}

    def work():
        try:
            box['out'] = ('ok', body())
        except Exception as ex:
            box['out'] = ('raised', ex)
    t = threading.Thread(target=work, daemon=True)
    t.start()
    t.join(timeout)
    return box.get('out', ('timeout', None))


def may_legitimately_raise(state):
    """turning warnings / floating-point flags into exceptions is the caller asking for an exception"""
    return any((s[0] == 'warnings' and s[1] == 'error') or (s[0] == 'errstate' and s[1] == 'raise') for s in state)


def ambient_states(rng, n_extra):
    """the reference state (every warning ignored: what the harness itself runs under) followed by states that differ from it
    in ONE respect or in a random combination; the first five are always present"""
    cats = _warning_categories()
    import sklearn.exceptions
    specific = [c for c in cats if c is not Warning]

    def one(kind):
        if kind == 'filter':
            return [('warnings', rng.choice(['default', 'always', 'once', 'module']), Warning)]
        if kind == 'ignore-one':        # everything shown, one category silenced
            return [('warnings', rng.choice(['always', 'default']), Warning), ('warnings', 'ignore', rng.choice(specific))]
        if kind == 'show-one':          # everything silenced, one category shown
            return [('warnings', 'ignore', Warning), ('warnings', rng.choice(['always', 'default']), rng.choice(specific))]
        if kind == 'error-one':
            return [('warnings', rng.choice(['ignore', 'default']), Warning), ('warnings', 'error', rng.choice(specific))]
        if kind == 'error':
            return [('warnings', 'error', Warning)]
        if kind == 'errstate':
            return [('errstate', rng.choice(['ignore', 'warn', 'raise']))]
        if kind == 'rng':
            return [('np.random', rng.randint(0, 2 ** 31 - 1), rng.randint(0, 50)), ('random', rng.randint(0, 2 ** 31 - 1))]
        if kind == 'thread':
            return [('thread',)]
        if kind == 'env':
            return [('env', {'PYTHONWARNINGS': rng.choice(['ignore', 'default', 'error', 'always']),
                             'PYTHONHASHSEED': str(rng.randint(0, 99)), 'COLUMNS': rng.choice(['40', '200']),
                             'TZ': rng.choice(['UTC', 'Asia/Tokyo']), 'LANG': rng.choice(['C', 'de_DE.UTF-8'])})]
        if kind == 'logging':
            import logging
            return [('logging', rng.choice([logging.DEBUG, logging.INFO, logging.WARNING, logging.CRITICAL]), rng.choice([True, False]))]
        return [('printoptions', rng.choice([2, 4, 12]))]
    conv = sklearn.exceptions.ConvergenceWarning
    states = [[('warnings', 'ignore', Warning)],
              [('warnings', 'always', Warning)],
              [('warnings', 'default', Warning)],
              [('warnings', 'always', Warning), ('warnings', 'ignore', rng.choice([conv, UserWarning, RuntimeWarning]))],
              [('warnings', 'ignore', Warning), ('warnings', 'always', rng.choice([conv, UserWarning, RuntimeWarning]))]]
    kinds = ['filter', 'ignore-one', 'show-one', 'error-one', 'error', 'errstate', 'rng', 'thread', 'env', 'logging', 'printoptions']
    for i in range(n_extra):
        if i % 3 == 2:
            st_ = []
            for k in rng.sample(kinds, rng.choice([2, 3])):
                st_ += one(k)
            states.append(st_)
        else:
            states.append(one(rng.choice(kinds)))
    return states


def degenerate(rng, X, kw, mode, k=None):
    """data that makes estimators COMPLAIN (the branches that look at the complaint are where the ambient state can leak in):
    few distinct samples (repeated rows), a constant column, badly scaled columns"""
    X = np.array(X, dtype=float).copy()
    e = 1 if kw.get('episode_feature') else 0
    if mode == 'few-distinct':
        k = k or rng.choice([1, 2, 3])
        rows = X[rng.sample(range(X.shape[0]), min(k, X.shape[0])), e:]
        order = [rng.randrange(rows.shape[0]) for _ in range(X.shape[0])]
        for j in range(rows.shape[0]):
            order[j] = j                 # every distinct row occurs
        X[:, e:] = rows[order, :]
    elif mode == 'constant-column':
        X[:, rng.randrange(e, X.shape[1])] = rng.choice([0.0, 1.0, -0.5])
    elif mode == 'scaled':
        X[:, e:] *= rng.choice([1e-9, 1e-4, 1e5, 1e120])
    return X


def clusterers(rng):
    """wrapped scikit-learn estimators for ClusterCenters / GaussianMixtureRandomCenters: random sizes and seeds, short
    iteration budgets (they report what they think of the data with warnings)"""
    n = rng.choice([3, 4, 5, 6])
    rs = rng.randint(0, 999)
    return [
        (f'KMeans(n_clusters={n}, n_init=1, random_state={rs})', n,
         lambda: sklearn.cluster.KMeans(n_clusters=n, n_init=1, random_state=rs)),
        (f'KMeans(n_clusters={n}, n_init=3, max_iter=1, random_state={rs})', n,
         lambda: sklearn.cluster.KMeans(n_clusters=n, n_init=3, max_iter=1, random_state=rs)),
        (f'MiniBatchKMeans(n_clusters={n}, n_init=1, random_state={rs})', n,
         lambda: sklearn.cluster.MiniBatchKMeans(n_clusters=n, n_init=1, random_state=rs)),
        (f'GaussianMixture(n_components={min(n, 3)}, max_iter=1, reg_covar=1e-3, random_state={rs})', min(n, 3),
         lambda: sklearn.mixture.GaussianMixture(n_components=min(n, 3), max_iter=1, reg_covar=1e-3, random_state=rs)),
    ]


def ambient_zoo(ctx, Z):
    """the zoo of the history sweeps plus composites around wrapped scikit-learn estimators with random parameters"""
    rng = ctx.rng
    out = [dict(z) for z in Z if not z['tags'].get('iterative')]
    cl = clusterers(rng)
    picks = cl if ctx.tier != 'quick' else [cl[0], rng.choice(cl[1:])]
    for label, n, mk in picks:
        def add(name, make, kind, tags):
            out.append({'name': name, 'make': make, 'kind': kind, 'params': {}, 'tol': 1e-9, 'tags': dict(tags, n_clusters=n)})
        add(f'ClusterCenters({label})', lambda mk=mk: pykoop.ClusterCenters(mk()), 'centers', {})
        add(f'RbfLiftingFn(ClusterCenters({label}))',
            lambda mk=mk: pykoop.RbfLiftingFn(rbf='gaussian', centers=pykoop.ClusterCenters(mk())), 'lifting', {})
        add(f'KoopmanPipeline(RbfLiftingFn(ClusterCenters({label})), Edmd)', lambda mk=mk: pykoop.KoopmanPipeline(
            lifting_functions=[('rbf', pykoop.RbfLiftingFn(rbf='thin_plate', centers=pykoop.ClusterCenters(mk())))],
            regressor=pykoop.Edmd(alpha=0.1)), 'pipeline', {})
        add(f'SplitPipeline(state: RbfLiftingFn(ClusterCenters({label})))', lambda mk=mk: pykoop.SplitPipeline(
            lifting_functions_state=[('rbf', pykoop.RbfLiftingFn(centers=pykoop.ClusterCenters(mk())))],
            lifting_functions_input=None), 'lifting', {})
    gm_it, gm_rs = rng.choice([1, 2]), rng.randint(0, 999)
    out.append({'name': f'GaussianMixtureRandomCenters(GaussianMixture(max_iter={gm_it}))', 'kind': 'centers', 'params': {},
                'tol': 1e-9, 'tags': {},
                'make': lambda: pykoop.GaussianMixtureRandomCenters(n_centers=4, random_state=gm_rs, estimator=sklearn.mixture.GaussianMixture(
                    n_components=2, max_iter=gm_it, reg_covar=1e-3, random_state=gm_rs))})
    return out


def wrapped_reference(est, X, reseed):
    """ClusterCenters: the centres are BY DEFINITION those of the wrapped scikit-learn estimator fitted on the same data, so
    scikit-learn alone (same parameters, same seed, no pykoop code) says what centers_ / n_centers_ must be"""
    if not isinstance(est, pykoop.ClusterCenters):
        return None
    wrapped = sklearn.base.clone(est.estimator) if est.estimator is not None else sklearn.cluster.KMeans()
    status, out = call_under([('warnings', 'ignore', Warning)], lambda: wrapped.fit(np.array(X, dtype=float)), reseed)
    if status != 'ok':
        return None
    c = getattr(out, 'cluster_centers_', None)
    if c is None:
        c = getattr(out, 'means_', None)
    if c is None:
        return None
    c = np.asarray(c)
    got = np.asarray(est.centers_)
    if got.shape != c.shape or est.n_centers_ != c.shape[0]:
        return (f'centers_ has shape {got.shape}, n_centers_={est.n_centers_}; the wrapped {type(wrapped).__name__} with the same '
                f'parameters fitted directly on the same data has {c.shape[0]} centres (shape {c.shape})')
    if not np.allclose(got, c, rtol=1e-9, atol=1e-9):
        return (f'centers_ differs from the centres of the wrapped {type(wrapped).__name__} fitted directly on the same data by '
                f'{float(np.max(np.abs(got - c))):.3g}')
    return None


def same_fit_ambient(z, a, b):
    """same_fit, except that for estimators compared with a tolerance (wrapped threaded algorithms) real SCALAR attributes
    (KMeans.inertia_, GaussianMixture.lower_bound_: sums whose order of accumulation is not fixed) are compared with that
    tolerance too instead of bit for bit"""
    d = same_fit(z, a, b)
    if not d or z['tol'] <= 0:
        return d
    left = []
    prefix = []
    for path in d.split(','):
        names = path.split('.')
        if len(names) == 1 and prefix and not hasattr(a, names[0]):
            names = prefix + names          # (same_fit joins the attributes of a nested estimator with commas as well)
        prefix = names[:-1]
        x, y = a, b
        try:
            for nm in names:
                x, y = getattr(x, nm), getattr(y, nm)
        except AttributeError:
            left.append(path)
            continue
        real = lambda v: isinstance(v, (float, np.floating)) and not isinstance(v, bool)
        if real(x) and real(y) and (x == y or abs(x - y) <= z['tol'] * (1 + abs(x) + abs(y)) or (np.isnan(x) and np.isnan(y))):
            continue
        left.append(path)
    return ','.join(left) if left else None


def ambient_sweep(ctx, z, n_extra, modes):
    """fresh estimators with the SAME parameters fitted on the SAME data, one per ambient state: all fitted states must agree
    (with each other, and with scikit-learn alone where the estimator wraps one); then the estimator fitted under the
    reference state is re-fitted under another state (must still agree) and its read-only calls are repeated under other
    states (same answers, fitted state untouched)"""
    rng = ctx.rng
    fails = []
    X0, kw = data_sets(rng, z['kind'])[0]
    nondet = bool(z['tags'].get('nondet'))
    reseed = rng.randint(0, 2 ** 31 - 1) if nondet else None
    zt = z if not nondet else dict(z, tol=max(z['tol'], 1e-9))
    for mode in modes:
        k = None
        if mode == 'few-distinct' and z['tags'].get('n_clusters'):
            k = rng.randint(1, z['tags']['n_clusters'] - 1)         # fewer distinct samples than clusters asked for
        X = degenerate(rng, X0, kw, mode, k)
        Xc = X.copy()
        states = ambient_states(rng, n_extra)
        case = lambda **more: dict({'estimator': z['name'], 'params': repr(z['make']().get_params(deep=True))[:1500],
                                    'data': mode, 'X': Xc.tolist(), 'fit_kwargs': kw}, **more)
        tags = {'estimator': z['name'], 'part': 'ambient', 'data': mode}
        status, ref = call_under(states[0], lambda: z['make']().fit(X, **kw), reseed)
        ctx.count('ambient:fits')
        ctx.count('ambient:data:' + mode)
        if status != 'ok':
            # the data is too degenerate for this estimator: the other states must refuse it too
            ctx.count('ambient:reference_fit_refused')
            for state in states[1:3]:
                s2, o2 = call_under(state, lambda: z['make']().fit(X, **kw), reseed)
                if s2 == 'ok' and status == 'raised':
                    fails.append((f'data [{mode}]: fit raised {type(ref).__name__} under [{describe_ambient(states[0])}] but '
                                  f'succeeded under [{describe_ambient(state)}]',
                                  case(ambient_a=describe_ambient(states[0]), ambient_b=describe_ambient(state)), tags))
            continue
        if nondet:
            # is the class repeatable at all once the global generator is pinned? (scipy's QMC engines draw fresh entropy)
            s2, again = call_under(states[0], lambda: z['make']().fit(X, **kw), reseed)
            if s2 != 'ok' or same_fit_ambient(zt, ref, again):
                ctx.count('ambient:not_repeatable_even_with_pinned_generator')
                continue
        why = wrapped_reference(ref, X, reseed)
        if why:
            fails.append((f'data [{mode}], fitted under [{describe_ambient(states[0])}]: {why}',
                          case(ambient_a=describe_ambient(states[0])), dict(tags, oracle='wrapped')))
        for state in states[1:]:
            for s in state:
                ctx.count('ambient:' + s[0] + (':' + s[1] if s[0] in ('warnings', 'errstate') else ''))
            status, est = call_under(state, lambda: z['make']().fit(X, **kw), reseed)
            ctx.count('ambient:fits')
            if status == 'timeout':
                ctx.count('ambient:timeout')
                continue
            if status == 'raised':
                if may_legitimately_raise(state):
                    ctx.count('ambient:raised_on_request')
                    continue
                fails.append((f'data [{mode}]: fit raised {type(est).__name__} ({str(est)[:120]}) under [{describe_ambient(state)}] '
                              f'but succeeded under [{describe_ambient(states[0])}]',
                              case(ambient_a=describe_ambient(states[0]), ambient_b=describe_ambient(state)), tags))
                continue
            d = same_fit_ambient(zt, ref, est)
            if d:
                fails.append((f'data [{mode}]: two freshly constructed estimators with the same parameters fitted on the same data have '
                              f'different fitted states (attributes: {d}); the only difference is state outside the estimator: '
                              f'[{describe_ambient(states[0])}] versus [{describe_ambient(state)}]',
                              case(ambient_a=describe_ambient(states[0]), ambient_b=describe_ambient(state)),
                              dict(tags, attr=d.split(',')[0].split('.')[0])))
                continue
            why = wrapped_reference(est, X, reseed)
            if why:
                fails.append((f'data [{mode}], fitted under [{describe_ambient(state)}]: {why}',
                              case(ambient_a=describe_ambient(state)), dict(tags, oracle='wrapped')))
        if not np.array_equal(X, Xc):
            fails.append((f'data [{mode}]: fit modified its input array', case(), dict(tags, part='input')))
            continue
        # the SAME instance re-fitted after the caller changed the ambient state
        state = rng.choice(states[1:3])
        twin = copy.deepcopy(ref)
        status, _ = call_under(state, lambda: twin.fit(X, **kw), reseed)
        ctx.count('ambient:refits')
        if status == 'ok':
            d = same_fit_ambient(zt, ref, twin)
            if d:
                fails.append((f'data [{mode}]: an estimator fitted under [{describe_ambient(states[0])}] and fitted again on the same data '
                              f'under [{describe_ambient(state)}] ends in a different fitted state (attributes: {d})',
                              case(ambient_a=describe_ambient(states[0]), ambient_b=describe_ambient(state)),
                              dict(tags, attr=d.split(',')[0].split('.')[0])))
        # read-only calls under other ambient states: same answers, nothing written
        rd = reads(z, ref, X, kw)[:2]
        before = digest(fitted_attrs(ref)) + digest(ref.get_params(deep=True))
        for name, th in rd:
            s0, a = call_under(states[0], th)
            if s0 != 'ok' or not isinstance(a, np.ndarray):
                continue
            for state in rng.sample(states[1:], min(2, len(states) - 1)):
                s1, b = call_under(state, th)
                ctx.count('ambient:reads')
                if s1 != 'ok':
                    if s1 == 'raised' and not may_legitimately_raise(state):
                        fails.append((f'data [{mode}]: {name} raised {type(b).__name__} under [{describe_ambient(state)}] but answered '
                                      f'under [{describe_ambient(states[0])}]',
                                      case(ambient_a=describe_ambient(states[0]), ambient_b=describe_ambient(state)), dict(tags, part='ambient-read')))
                    continue
                same = a.shape == b.shape and a.dtype == b.dtype and (
                    np.array_equal(a, b, equal_nan=True) if a.dtype.kind in 'fc' else np.array_equal(a, b))
                if not same:
                    fails.append((f'data [{mode}]: {name} on the same fitted estimator and the same data answers differently under '
                                  f'[{describe_ambient(states[0])}] and under [{describe_ambient(state)}]',
                                  case(ambient_a=describe_ambient(states[0]), ambient_b=describe_ambient(state)), dict(tags, part='ambient-read')))
        if digest(fitted_attrs(ref)) + digest(ref.get_params(deep=True)) != before:
            fails.append((f'data [{mode}]: a read-only call under another ambient state changed the fitted state or the parameters',
                          case(), dict(tags, part='ambient-read')))
    return fails


def run(ctx):
    ctx.rule = ('for every estimator class of the package (lifting functions, pipelines, 7 centre generators, kernel '
                'approximations, Tsvd, regressors incl. LMI with cvxopt): random histories of fit(d_i) / read-only calls / '
                'set_params (incl. nested step__param) / get_params round trip / clone on ONE instance; after every fit '
                'the fitted state (deep by-value digest of all fitted attributes incl. nested estimators) is compared '
                'with a fresh clone fitted on the same data; parameters and input arrays are digested around every '
                'call; a systematic sweep (every listed parameter value: set_params, re-fit, compare with a fresh clone; another '
                'instance fitted in between); read-only calls from 3 threads compared with sequential answers; a stop-request probe; '
                'fits that END EARLY on a used estimator: each of the five iterative LMI regressors (spectral radius EDMD / DMDc, '
                'H-infinity EDMD / DMDc, dissipativity; random parameters) is used DIRECTLY, fitted ordinarily and then fitted '
                'again on other data under random circumstances that may end the alternation at any point (stop requested in '
                'front of the fit or arriving after the n-th solved sub-problem, a solver iteration budget set with set_params '
                'that may not suffice for the first sub-problem, ordinary); after every fit ALL fitted attributes '
                '(objective_log_, n_iter_, stop_reason_, coef_, P_, ...) are compared with a fresh clone fitted on the same data '
                'under the same circumstances (same flag state: known finding F-stop is not re-reported), and objective_log_ '
                'must equal the objective values of the first sub-problems the solver returned as optimal DURING THIS FIT '
                '(recorded by the harness at the picos.Problem.solve boundary); no solved sub-problem => all-zero coef_; '
                'state OUTSIDE the estimator: for every class of the zoo (plus ClusterCenters / RbfLiftingFn / KoopmanPipeline / '
                'SplitPipeline / GaussianMixtureRandomCenters around wrapped KMeans, MiniBatchKMeans, GaussianMixture with random '
                'sizes, seeds and short iteration budgets) freshly constructed estimators with the same parameters are fitted on '
                'the same data (regular, and data that makes estimators complain: fewer distinct samples than clusters, a constant '
                'column, badly scaled) once per ambient state - warnings filters (ignore / default / always / once / module / error, '
                'for all warnings or one category over an opposite base), np.errstate (ignore / warn / raise), the global numpy and '
                'python generators reseeded and advanced, a worker thread as caller, environment variables, logging level, numpy '
                'print options, random combinations - and all fitted states must agree (an exception is excused only where the '
                'state asks for one); ClusterCenters is also compared with the wrapped scikit-learn estimator fitted directly; '
                'the same instance re-fitted under another state and read-only calls under other states must agree too '
                '(unseeded defaults: the global generator is pinned in front of every fit)')
    ctx.explanation = ('level "other": the Lean machine (theorems C15_*) states which histories must be indistinguishable; '
                       'this check executes real histories and verifies the implementation respects those equalities. '
                       'Bit-exact for deterministic estimators, tolerance for KMeans / GaussianMixture / SDP solver. '
                       'C15_overwrite / C15_history_independent_partial demand that a fit OVERWRITES every fitted attribute '
                       'whatever path it takes: the early-end sweep drives the real iterative regressors through the short '
                       'paths (nothing solved, first sub-problem not optimal, stop between sub-problems) on estimators that '
                       'already carry a fitted state, with an expectation for the objective log computed by the harness itself. '
                       'C15_fit_by_value makes the fitted state a function of (parameters, data) ONLY: the ambient sweep varies what '
                       'is not an argument of that function (warnings filters, floating-point error state, global generators, calling '
                       'thread, environment, logging) on data that drives the estimators into their complaining branches, and '
                       'demands identical fitted states; for ClusterCenters the expectation comes from scikit-learn alone.')
    ctx.proof_obligations('Properties.C15', THEOREMS)
    Z = zoo(ctx.rng, ctx.tier == 'thorough')
    reps = 1 if ctx.tier == 'quick' else 6
    length = 8 if ctx.tier == 'quick' else 20
    for z in Z:
        n_rep = reps if not z['tags'].get('iterative') else max(1, reps // 3)
        if z['kind'] in ('lifting', 'pipeline'):
            n_rep += 1          # one extra history on DataFrames (captured feature names are fitted state too)
        for r in range(n_rep):
            hist, fails = run_history(ctx, z, length if not z['tags'].get('lmi') else min(length, 6),
                                      frames=(z['kind'] in ('lifting', 'pipeline') and r == n_rep - 1))
            ctx.count('class:' + z['name'])
            ctx.count('ops', len(hist))
            ctx.record_case({'estimator': z['name'], 'history': hist}, len(hist) >= 2)
            for why, tags in fails:
                ctx.fail(f"{z['name']}: {why}", {'estimator': z['name'], 'history': hist}, tags)
            z['_writes'] = z.get('_writes', False) or any(t.get('part') == 'read' for _, t in fails)
        hist, fails = refit_sweep(ctx, z)
        ctx.count('refit_sweeps')
        ctx.record_case({'estimator': z['name'], 'history': hist}, len(hist) >= 2)
        for why, tags in fails:
            ctx.fail(f"{z['name']}: {why}", {'estimator': z['name'], 'history': hist}, tags)
        if not z['tags'].get('lmi') and not z.get('_writes'):
            # (only meaningful when read-only calls do not write: concurrent writers to numpy object arrays can crash
            # the interpreter, and the premise of the interleaving theorem is already refuted)
            why = thread_check(z, ctx.rng)
            ctx.count('thread_checks')
            if why:
                ctx.fail(f"{z['name']}: {why}", {'estimator': z['name']}, {'estimator': z['name'], 'part': 'threads'})
    # fits that end early (stop request, solver budget) on directly used iterative regressors with a history
    for name, make in iterative_zoo(ctx.rng):
        for r in range(1 if ctx.tier == 'quick' else 4):
            out = ctx.attempt(f'early-end history of {name}', lambda: early_end_history(ctx, name, make, 3 if ctx.tier == 'quick' else 6))
            if out is None:
                continue
            hist, fails, data = out
            ctx.count('early_end:histories')
            ctx.record_case({'estimator': name, 'params': {k: v for k, v in make().get_params().items()}, 'history': hist}, True)
            for why, tags in fails:
                ctx.fail(f'{name}: {why}', {'estimator': name, 'params': {k: v for k, v in make().get_params().items()},
                                            'history': hist, 'fit_kwargs': {'n_inputs': 1, 'episode_feature': True},
                                            'data': data}, tags)
    # state OUTSIDE the estimator: the same parameters and data under different warnings filters / floating-point error
    # states / global generator states / calling threads / environments / logging configurations
    quick = ctx.tier == 'quick'
    for z in (ctx.attempt('ambient zoo', lambda: ambient_zoo(ctx, Z)) or []):
        if z['tags'].get('lmi'):
            n_extra, modes = (1 if quick else 4), ['regular']
        elif z['kind'] in ('regressor', 'tsvd'):
            n_extra, modes = (4 if quick else 12), ['regular', ctx.rng.choice(['constant-column', 'scaled'])]
        else:
            n_extra, modes = (5 if quick else 14), ['few-distinct', ctx.rng.choice(['regular', 'constant-column', 'scaled'])]
            if not quick:
                modes = ['few-distinct', 'regular', 'constant-column', 'scaled']
        fails = ctx.attempt(f"ambient sweep of {z['name']}", lambda: ambient_sweep(ctx, z, n_extra, modes))
        if fails is None:
            continue
        ctx.count('ambient:sweeps')
        ctx.record_case({'estimator': z['name'], 'sweep': 'ambient', 'data': modes}, True)
        for why, case, tags in fails:
            ctx.fail(f"{z['name']}: {why}", case, tags)
    res = probe_stop(ctx)
    if res:
        ctx.fail(res[0], {'probe': 'stop_request'}, res[1])
    return ctx.finish('other', None)


def replay(ctx, path):
    print(open(path).read()[:3000])
    return 1
