"""Warm the axiom-audit cache for every property module (used by setup.sh)."""
import importlib
import pkgutil
import sys

from . import core, props


def main():
    ok, log = core.lean_build()
    if not ok:
        print(log[-3000:])
        return 1
    for m in pkgutil.iter_modules(props.__path__):
        mod = importlib.import_module(f'harness.props.{m.name}')
        ths = getattr(mod, 'THEOREMS', None)
        module = getattr(mod, 'LEAN_MODULE', f'Properties.{m.name.upper()}')
        if ths:
            res = core.audit(module, ths)
            bad = [t for t in ths if t not in res or not set(res[t]) <= core.ALLOWED_AXIOMS]
            print(m.name, 'audited', len(ths), 'theorems', 'PROBLEM: ' + str(bad) if bad else 'ok')
    return 0


if __name__ == '__main__':
    sys.exit(main())
