"""Shared tools for the LMI properties (C09-C12): PICOS evaluation of the real problems at dyadic points,
a scripted solver that replaces picos.Problem.solve, data generators, the LA driver."""
import os
import random
from contextlib import contextmanager
from fractions import Fraction
from unittest import mock

import numpy as np
import picos

import pykoop
import pykoop.lmi_regressors as lmi
from . import core, structural as st

SOLVER = {'solver': 'cvxopt'}


def fr(x):
    x = Fraction(x)
    return f'{x.numerator}/{x.denominator}' if x.denominator != 1 else str(x.numerator)


def mat_tok(M):
    M = np.atleast_2d(np.asarray(M, dtype=float))
    return f'{M.shape[0]} {M.shape[1]} ' + ' '.join(fr(Fraction(float(v))) for v in M.ravel())


def dyadic(rng, shape, lo=-3, hi=3, den=4):
    return np.array([[rng.randint(lo * den, hi * den) / den for _ in range(shape[1])] for _ in range(shape[0])])


def parse_mat(reply):
    t = reply.split()
    if t[0] != 'ok':
        return None
    r, c = int(t[1]), int(t[2])
    vals = [float(Fraction(x)) for x in t[3:3 + r * c]]
    return np.array(vals).reshape(r, c)


def la_ask(lines):
    return core.run_la('DriverLA.lean', lines)


def to_np(v):
    """PICOS / cvxopt value -> dense numpy 2-D array"""
    import cvxopt
    if isinstance(v, (cvxopt.matrix, cvxopt.spmatrix)):
        return np.array(cvxopt.matrix(v), dtype=float)
    return np.array(v, dtype=float, ndmin=2)


def constraint_blocks(problem):
    """list of (lhs matrix value, rhs matrix value, relation) for every constraint of a PICOS problem whose
    variables have been given values"""
    out = []
    for c in problem.constraints.values():
        con = c.constraint if hasattr(c, 'constraint') else c
        out.append((to_np(con.lhs.value), to_np(con.rhs.value), str(con)))
    return out


# ----------------------------------------------------------------------------- scripted solver

class Script:
    """prescribed outcomes for the alternating loop: per iteration k, A_k -> (status, U, obj), B_k -> (status, P);
    stop_before: set of ('A', k) / ('B', k) at which the polite-stop flag is already set"""

    def __init__(self, a, b, stop_at=None):
        self.a, self.b = a, b
        self.stop_at = stop_at          # ('A', k) or ('B', k) or None
        self.calls = []
        self.ka = 0
        self.kb = 0


@contextmanager
def scripted(script, u_name='U', p_name='P', obj_extra=None):
    """patch PICOS so that problem.solve() follows the script.  Sub-problem A is recognised by having a variable
    called `u_name`, sub-problem B by `p_name`."""
    state = {}

    def fake_solve(self, **kw):
        names = set(self.variables.keys())
        if u_name in names:
            k = script.ka
            script.ka += 1
            status, U, obj = script.a[k] if k < len(script.a) else ('infeasible', None, 0.0)
            state[id(self)] = ('A', status, U, obj)
            script.calls.append(('A', k))
            if script.stop_at == ('B', k):
                lmi.polite_stop = True
        else:
            k = script.kb
            script.kb += 1
            status, P = script.b[k] if k < len(script.b) else ('infeasible', None)
            state[id(self)] = ('B', status, P, None)
            script.calls.append(('B', k))
            if script.stop_at == ('A', k + 1):
                lmi.polite_stop = True
        return None

    class Sol:
        def __init__(self, status):
            self.claimedStatus = status

    def fake_last_solution(self):
        return Sol(state[id(self)][1])

    def fake_value(self):
        return state[id(self)][3]

    def fake_get(self, name):
        if name == 'gamma':
            return np.array([1.0])
        return state[id(self)][2]

    saved = lmi.polite_stop
    lmi.polite_stop = script.stop_at == ('A', 0)
    try:
        with mock.patch.object(picos.Problem, 'solve', fake_solve), \
                mock.patch.object(picos.Problem, 'last_solution', property(fake_last_solution)), \
                mock.patch.object(picos.Problem, 'value', property(fake_value)), \
                mock.patch.object(picos.Problem, 'get_valued_variable', fake_get):
            yield script
    finally:
        lmi.polite_stop = saved


def gen_script(rng, shape_u, shape_p, max_iter, extra=None):
    """random outcome script + its protocol line for the loop machine"""
    n = max_iter + 1
    a, b, rows = [], [], []
    obj = rng.randint(40, 60)
    stop_at = None
    r = rng.random()
    if r < 0.25:
        stop_at = (rng.choice(['A', 'B']), rng.randint(0, max_iter))
    for k in range(n):
        a_ok = rng.random() > 0.12
        b_ok = rng.random() > 0.12
        step = rng.choice([0, 0, 1, 2, 4, 8])
        obj = obj - Fraction(step, 4)
        U = dyadic(rng, shape_u)
        P = dyadic(rng, shape_p)
        P = (P + P.T) / 2
        a.append(('optimal' if a_ok else 'infeasible', U, float(obj)))
        b.append(('optimal' if b_ok else 'infeasible', P))
        rows.append((a_ok, obj, b_ok))
    return Script(a, b, stop_at), rows


def loop_line(rows, stop_at, max_iter, atol, rtol):
    parts = []
    for k, (a_ok, obj, b_ok) in enumerate(rows):
        # the flag is sticky: once set it is seen at every later check
        def seen(kind, kk):
            if stop_at is None:
                return False
            order = lambda kd, i: 2 * i + (0 if kd == 'A' else 1)
            return order(kind, kk) >= order(*stop_at)
        parts.append(f"{1 if a_ok else 0} {fr(obj)} {1 if b_ok else 0} {1 if seen('A', k) else 0} {1 if seen('B', k) else 0}")
    return f'fitloop {max_iter} {fr(Fraction(atol))} {fr(Fraction(rtol))} {len(rows)} ' + ' '.join(parts)


def stop_category(reason):
    r = reason or ''
    if r.startswith('User requested'):
        return 'user'
    if 'problem_a' in r:
        return 'a_failed'
    if 'problem_b' in r:
        return 'b_failed'
    if r.startswith('Reached tolerance'):
        return 'tol'
    if r.startswith('Reached maximum'):
        return 'max_iter'
    return 'other:' + r[:30]


def check_loop(ctx, make_reg, X, kw, shape_u, shape_p, u0, p0, u_name='U', p_name='P', post=None):
    """run one scripted fit; returns (observation dict, model request line, script)"""
    max_iter = ctx.rng.randint(1, 5)
    atol = ctx.rng.choice([0, Fraction(1, 8), Fraction(1, 2)])
    script, rows = gen_script(ctx.rng, shape_u, shape_p, max_iter)
    reg = make_reg(max_iter=max_iter, iter_atol=float(atol), iter_rtol=0)
    if ctx.rng.random() < 0.4:
        # the SAME instance has been fitted before (another scripted run): the loop observed below must still start
        # from its documented initial values - the model is always the fresh machine
        pre, _ = gen_script(ctx.rng, shape_u, shape_p, max_iter)
        if pre.stop_at is None:
            with scripted(pre, u_name, p_name):
                reg.fit(X, **kw)
            ctx.count('loop:re-used instance')
    with scripted(script, u_name, p_name):
        reg.fit(X, **kw)
    line = loop_line(rows, script.stop_at, max_iter, atol, 0)
    return reg, script, rows, line


# ----------------------------------------------------------------------------- data

def lin_data(rng, nx, nu, n_eps=2, radius=0.9, noise=0.02, n_min=12):
    rs = np.random.RandomState(rng.randint(0, 2 ** 31 - 1))
    A = rs.uniform(-1, 1, (nx, nx))
    A *= radius / max(0.2, np.max(np.abs(np.linalg.eigvals(A))))
    B = rs.uniform(-1, 1, (nx, nu))
    blocks = []
    for l in range(n_eps):
        n = rng.randint(n_min, n_min + 8)
        x = np.zeros((n, nx))
        u = rs.uniform(-1, 1, (n, nu))
        x[0] = rs.uniform(-1, 1, nx)
        for k in range(n - 1):
            x[k + 1] = A @ x[k] + B @ u[k] + noise * rs.randn(nx)
            if np.max(np.abs(x[k + 1])) > 1e3:
                x[k + 1] = x[k + 1] / np.max(np.abs(x[k + 1])) * 1e3
        blocks.append((l, np.hstack((x, u))))
    X = st.ref_combine(blocks, True)
    return X, {'n_inputs': nu, 'episode_feature': True}, A, B

# ----------------------------------------------------------------------------- LmiDmdc family: problems posed on SVD factors

DMDC_SIG = {0.0: [(0.5, 0.5), (1.0, 1.0), (1.5, 1.5), (2.0, 2.0)],
            16.0: [(0.0, 4.0), (3.0, 5.0), (7.5, 8.5)],
            0.5625: [(0.0, 0.75), (1.0, 1.25)]}


def dmdc_factors(rng, rh=None, pu=None):
    """dyadic stand-ins for the two truncated SVDs handed to the LmiDmdc* problems (not orthonormal: problem STRUCTURE
    only), chosen so that the regularised singular values sqrt(sigma^2/q + alpha) are exactly representable"""
    rh = rng.randint(1, 2) if rh is None else rh
    pt = rh + rng.randint(0, 1)
    pu = rng.randint(0, 2) if pu is None else pu
    rt = rng.randint(1, min(3, pt + pu))
    q = 4
    alpha = rng.choice(sorted(DMDC_SIG))
    ab = [rng.choice(DMDC_SIG[alpha]) for _ in range(rt)]
    ch = [rng.choice([0.5, 1.0, 2.0, 2.5]) for _ in range(rh)]
    while True:
        Qt, Qh = dyadic(rng, (pt + pu, rt), den=2), dyadic(rng, (pt, rh), den=2)
        Qbar = np.vstack((Qh.T @ Qt[:pt, :], Qt[pt:, :]))
        if np.all(np.any(Qbar != 0, axis=1)):       # every column of U_hat really occurs in the problem (PICOS drops
            break                                   # variables whose coefficients all vanish)
    return {'rh': rh, 'rt': rt, 'pt': pt, 'pu': pu, 'q': q, 'alpha': alpha, 'Qt': Qt, 'Qh': Qh,
            'St': np.diag([a for a, _ in ab]), 'Str': np.diag([b for _, b in ab]), 'Sh': np.diag(ch),
            'sig_tld': np.array([2 * a for a, _ in ab]),          # sigma / sqrt(q) = a
            'sig_hat': np.array([2 * c for c in ch]),
            'Zt': dyadic(rng, (q, rt), den=2), 'Zh': dyadic(rng, (q, rh), den=2)}


def dmdc_args(f):
    return (f['Qt'], f['sig_tld'], f['Zt'], f['Qh'], f['sig_hat'], f['Zh'])


def dmdc_line(f, W, Uh):
    rh, rt, pt, pu = f['rh'], f['rt'], f['pt'], f['pu']
    return (f"dmdc {rh} {rt} {pt} {pu} {f['q']} {mat_tok(W)} {mat_tok(Uh[:, :rh])} {mat_tok(Uh[:, rh:].reshape(rh, pu))} "
            f"{mat_tok(f['Qh'])} {mat_tok(f['Qt'][:pt, :])} {mat_tok(f['Qt'][pt:, :].reshape(pu, rt))} {mat_tok(f['St'])} "
            f"{mat_tok(f['Str'])} {mat_tok(f['Sh'])} {mat_tok(f['Zt'])} {mat_tok(f['Zh'])}")


def dmdc_tag(f):
    return {'kind': 'dmdc', 'r_hat': f['rh'], 'r_tld': f['rt'], 'p_theta': f['pt'], 'p_upsilon': f['pu'], 'alpha': f['alpha']}


def num(rng, v):
    """a scalar hyper-parameter in another valid form: Python number, numpy scalar, 0-d array element, int when integral"""
    r = rng.random()
    if r < 0.5:
        return v
    if r < 0.7:
        return np.float64(v)
    if r < 0.85 and float(v).is_integer():
        return int(v)
    return np.array(float(v))[()]


def maybe_int_data(rng, X, kw, p=0.25, scale=3):
    """with probability p: the same trajectory as quantised integer samples (sensor counts) in an integer array - states
    and inputs scaled alike, so the underlying linear system is unchanged"""
    if rng.random() >= p:
        return X, None
    e = 1 if kw.get('episode_feature') else 0
    Y = np.array(X, dtype=float)
    Y[:, e:] = np.round(Y[:, e:] * scale)
    if np.max(np.abs(Y[:, e:])) > 40:
        return X, None          # (diverging trajectories: keep the float data, large integers only slow the solver down)
    form = 'integer dtype'
    if e and rng.random() < 0.6:
        # one episode handed over WITHOUT an episode column (with one, the episode bookkeeping turns the matrix into
        # float64 before the regressor sees it); kw is updated in place
        labels, counts = np.unique(Y[:, 0], return_counts=True)
        keep = labels[np.argmax(counts)]
        if np.max(counts) >= 8:
            Y = Y[Y[:, 0] == keep][:, 1:]
            kw['episode_feature'] = False
            form = 'integer dtype, no episode feature'
    return Y.astype(rng.choice(['int64', 'int32'])), form
