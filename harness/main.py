"""./check <property> [--tier quick|thorough] [--replay file]"""
import argparse
import importlib
import os
import sys
import traceback

from . import core


def main():
    ap = argparse.ArgumentParser()
    ap.add_argument('prop')
    ap.add_argument('--tier', default=os.environ.get('VERIF_TIER', 'quick'))
    ap.add_argument('--replay', default=None)
    args = ap.parse_args()
    seed = int(os.environ.get('VERIF_SEED', '0'))
    prop = args.prop.upper()
    try:
        mod = importlib.import_module(f'harness.props.{prop.lower()}')
    except Exception as e:
        traceback.print_exc()
        print(f'cannot load check for {prop}: {e}', file=sys.stderr)
        return 2
    ctx = core.Ctx(prop, 'thorough' if args.tier == 'thorough' else 'quick', seed)
    try:
        if args.replay:
            return mod.replay(ctx, args.replay)
        return mod.run(ctx)
    except core.Infra as e:
        print(f'INFRA {prop}: {e}', file=sys.stderr)
        return 2
    except Exception:
        traceback.print_exc()
        return 2


if __name__ == '__main__':
    sys.exit(main())
