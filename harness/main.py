"""./check <property> [--tier quick|thorough] [--replay file]"""
import argparse
import importlib
import os
import sys
import traceback

from . import core


def main():
    ap = argparse.ArgumentParser()
    ap.add_argument('prop')
    ap.add_argument('--tier', default=os.environ.get('VERIF_TIER', 'quick'))
    ap.add_argument('--replay', default=None)
    args = ap.parse_args()
    seed = int(os.environ.get('VERIF_SEED', '0'))
    prop = args.prop.upper()
    try:
        mod = importlib.import_module(f'harness.props.{prop.lower()}')
    except Exception as e:
        traceback.print_exc()
        print(f'cannot load check for {prop}: {e}', file=sys.stderr)
        return 2
    ctx = core.Ctx(prop, 'thorough' if args.tier == 'thorough' else 'quick', seed)
    try:
        if args.replay:
            return mod.replay(ctx, args.replay)
        return mod.run(ctx)
    except core.Infra as e:
        print(f'INFRA {prop}: {e}', file=sys.stderr)
        return 2
    except Exception as e:
        tb = traceback.extract_tb(e.__traceback__)
        in_impl = [f for f in tb if '/pykoop/' in f.filename]
        traceback.print_exc()
        if in_impl:
            # the implementation raised where the harness expects it to work on valid input: the correspondence
            # (model says a value, code raises) is broken; the property's population search then looks for a failing input
            f = in_impl[-1]
            ctx.proof_breaks.append(f'implementation raised {type(e).__name__}: {e} at {f.filename}:{f.lineno} '
                                    f'({f.name}) while the harness observed it on a generated valid input')
            return ctx.finish(getattr(mod, 'LEVEL', 'proof'), getattr(mod, 'population_search', None))
        in_props = [f for f in tb if '/harness/props/' in f.filename or '/harness/structural' in f.filename
                    or '/harness/pipes' in f.filename]
        if ctx.observing and in_props and not isinstance(e, (MemoryError, OSError, KeyboardInterrupt)):
            # the harness could not interpret what the implementation returned (a shape, type or count the model never
            # produces on this input): the correspondence is broken; nothing here shows the property failing
            f = in_props[-1]
            ctx.proof_breaks.append(f'the harness could not interpret the implementation\'s output: {type(e).__name__}: {e} at '
                                    f'{f.filename}:{f.lineno} ({f.name})')
            return ctx.finish(getattr(mod, 'LEVEL', 'proof'), None)
        return 2


if __name__ == '__main__':
    sys.exit(main())
